//! C08 engine: submit layouts to every rten-tensor API that accepts a
//! shape/strides pair as non-overlapping and record accepted / rejected.
//! The harness never decides injectivity and never dereferences an element of
//! a submitted layout: only constructors, `has_capacity` and (for layouts whose
//! true extent fits the allocation) `append` are called.
//!
//! Input: JSON lines emitted by TLC (`MC_Overlap`), `{class, shape, strides}`
//! (ints) or `{class, shapeW, stridesW}` (base-2^15 limbs). In addition
//! `--derived N` produces N seeded chains of slice/permute/reshape operations
//! on contiguous tensors with the real API and re-submits the resulting
//! layouts (class `derived_api`).

use rten_tensor::errors::FromDataError;
use rten_tensor::layout::{MutLayout, OverlapPolicy};
use rten_tensor::prelude::*;
use rten_tensor::storage::IntoStorage;
use rten_tensor::{
    DynLayout, NdLayout, NdTensorViewMut, Tensor, TensorBase, TensorView, TensorViewMut,
};
use vcommon::{Rng, Trace, Value, guarded, json};

use crate::util::*;

fn outcome_of<T>(r: &Result<T, FromDataError>) -> &'static str {
    match r {
        Ok(_) => "ok",
        Err(FromDataError::MayOverlap) => "overlap",
        Err(FromDataError::StorageTooShort) => "short",
        Err(FromDataError::StorageLengthMismatch) => "mismatch",
    }
}

fn emit_submit(subs: &mut Vec<Value>, api: &str, axis: usize, outcome: &str, storage: usize, rshape: &[usize], rstrides: &[usize]) {
    subs.push(json!({"api": api, "axis": axis, "outcome": outcome,
                     "storage": storage.min(SMALL_LIMIT), "rshape": rshape, "rstrides": rstrides}));
}

fn nd_layout_outcome(shape: &[usize], strides: &[usize]) -> Option<&'static str> {
    macro_rules! nd {
        ($n:literal) => {{
            let sh: [usize; $n] = shape.try_into().unwrap();
            let st: [usize; $n] = strides.try_into().unwrap();
            let r = NdLayout::<$n>::from_shape_and_strides(sh, st, OverlapPolicy::DisallowOverlap);
            Some(outcome_of(&r))
        }};
    }
    match shape.len() {
        0 => nd!(0),
        1 => nd!(1),
        2 => nd!(2),
        3 => nd!(3),
        4 => nd!(4),
        5 => nd!(5),
        _ => None,
    }
}

fn nd_view_mut_outcome(shape: &[usize], strides: &[usize], buf: &mut [i32]) -> Option<&'static str> {
    macro_rules! nd {
        ($n:literal) => {{
            let sh: [usize; $n] = shape.try_into().unwrap();
            let st: [usize; $n] = strides.try_into().unwrap();
            let r = NdTensorViewMut::<i32, $n>::from_data_with_strides(sh, buf, st);
            Some(outcome_of(&r))
        }};
    }
    match shape.len() {
        0 => nd!(0),
        1 => nd!(1),
        2 => nd!(2),
        3 => nd!(3),
        4 => nd!(4),
        5 => nd!(5),
        _ => None,
    }
}

/// Submit one layout to every acceptance API.
pub fn submit_layout(trace: &mut Trace, case_no: u64, class: &str, ops: &str, shape: &[usize], strides: &[usize]) {
    let small = all_small(shape) && all_small(strides);
    let mut case = json!({"ev": "case", "case": case_no, "class": class, "small": small, "ops": ops,
                   "shape": ints_if_small(shape, small), "strides": ints_if_small(strides, small),
                   "shapeW": words(shape), "stridesW": words(strides)});
    // the case is logged (side file) before anything is run on it
    crate::util::note_current(&case);
    let mut subs_vec: Vec<Value> = Vec::new();
    let tr = &mut subs_vec;
    // True extent of the layout, when it is small enough to allocate.
    let exact = exact_min_len(shape, strides, 1 << 16);
    let buf_len = exact.unwrap_or(64);
    let none: [usize; 0] = [];

    // 1. layout constructors with DisallowOverlap (no storage involved)
    let r = DynLayout::from_shape_and_strides(shape, strides, OverlapPolicy::DisallowOverlap);
    emit_submit(tr, "dyn_layout", 0, outcome_of(&r), 0, &none, &none);
    if let Some(o) = nd_layout_outcome(shape, strides) {
        emit_submit(tr, "nd_layout", 0, o, 0, &none, &none);
    }

    // 2. mutable view / owned tensor construction with explicit strides
    let mut buf: Vec<i32> = (0..buf_len as i32).collect();
    {
        let r = TensorViewMut::<i32>::from_data_with_strides(shape, &mut buf[..], strides);
        emit_submit(tr, "view_mut", 0, outcome_of(&r), buf_len, &none, &none);
    }
    if let Some(o) = nd_view_mut_outcome(shape, strides, &mut buf[..]) {
        emit_submit(tr, "nd_view_mut", 0, o, buf_len, &none, &none);
    }
    {
        let r = Tensor::<i32>::from_data_with_strides(shape, buf.clone(), strides);
        emit_submit(tr, "tensor", 0, outcome_of(&r), buf_len, &none, &none);
    }

    // 3. from_storage_and_layout with mutable storage (panics when rejected)
    {
        let layout = DynLayout::from_shape_and_strides(shape, strides, OverlapPolicy::AllowOverlap)
            .expect("AllowOverlap never fails");
        let data = buf.clone();
        let r = guarded(move || {
            let _t = TensorBase::from_storage_and_layout(data, layout);
        });
        emit_submit(tr, "storage_layout_vec", 0, if r.is_ok() { "ok" } else { "rejected" }, buf_len, &none, &none);
        let layout = DynLayout::from_shape_and_strides(shape, strides, OverlapPolicy::AllowOverlap).unwrap();
        let storage = (&mut buf[..]).into_storage();
        let r = guarded(move || {
            let _t = TensorBase::from_storage_and_layout(storage, layout);
        });
        emit_submit(tr, "storage_layout_view_mut", 0, if r.is_ok() { "ok" } else { "rejected" }, buf_len, &none, &none);
    }

    // 4. capacity expansion: a tensor whose size along `axis` is 0 (always
    // accepted, being empty) asked whether it can grow to the full layout.
    for axis in 0..shape.len() {
        if shape[axis] == 0 {
            continue;
        }
        let mut shape0 = shape.to_vec();
        shape0[axis] = 0;
        let vec: Vec<i32> = Vec::with_capacity(buf_len);
        let cap = vec.capacity();
        match Tensor::<i32>::from_data_with_strides(&shape0, vec, strides) {
            Err(e) => {
                let r: Result<(), FromDataError> = Err(e);
                emit_submit(tr, "capacity_ctor", axis, outcome_of(&r), cap, &none, &none);
            }
            Ok(mut t) => {
                let has = t.has_capacity(axis, shape[axis]);
                emit_submit(tr, "has_capacity", axis, if has { "ok" } else { "rejected" }, cap, &none, &none);
                // append only when the true extent fits the allocation
                if has && exact.is_some() && small {
                    let n: usize = shape.iter().product();
                    let other = Tensor::<i32>::from_data(shape, (0..n as i32).collect::<Vec<_>>());
                    let r = guarded(|| t.append(axis, &other).is_ok());
                    let o = match r {
                        Ok(true) => "ok",
                        Ok(false) => "rejected",
                        Err(_) => "panic",
                    };
                    let (rs, rst): (Vec<usize>, Vec<usize>) = if o == "ok" {
                        (t.shape().to_vec(), t.strides().to_vec())
                    } else {
                        (vec![], vec![])
                    };
                    emit_submit(tr, "append", axis, o, cap, &rs, &rst);
                }
            }
        }
    }
    case["subs"] = Value::Array(subs_vec);
    trace.emit(case);
}

/// One seeded chain of slicing / permuting / reshaping operations on a
/// contiguous tensor, performed with the real API. After every operation the
/// resulting layout is re-submitted.
fn derived_chain(tr: &mut Trace, rng: &mut Rng, case_no: &mut u64) {
    let rank = rng.below(5);
    let shape: Vec<usize> = (0..rank).map(|_| *rng.pick(&[0usize, 1, 1, 2, 2, 3, 3, 4, 5])).collect();
    let n: usize = shape.iter().product();
    let data: Vec<i32> = (0..n as i32).collect();
    let base = Tensor::<i32>::from_data(&shape, data);
    let mut v: TensorView<i32> = base.view();
    let mut ops = format!("contig{:?}", shape);
    *case_no += 1;
    submit_layout(tr, *case_no, "derived_api", &ops, &v.shape().to_vec(), &v.strides().to_vec());
    let nops = 1 + rng.below(4);
    for _ in 0..nops {
        let nd = v.ndim();
        let choice = rng.below(10);
        let r = guarded(|| -> Option<(TensorView<i32>, String)> {
            let mut w = v.clone();
            match choice {
                0 | 1 | 2 => {
                    let nitems = rng.below(nd + 1);
                    let items: Vec<Item> = (0..nitems).map(|d| random_item(rng, w.size(d), false)).collect();
                    let si: Vec<_> = items.iter().map(|i| i.to_slice_item()).collect();
                    let desc: Vec<String> = items
                        .iter()
                        .map(|i| {
                            if i.idx {
                                format!("{}", i.start)
                            } else if i.has_end {
                                format!("{}:{}:{}", i.start, i.end, i.step)
                            } else {
                                format!("{}::{}", i.start, i.step)
                            }
                        })
                        .collect();
                    w.try_slice_dyn(si.as_slice()).ok().map(|x| (x, format!("slice[{}]", desc.join(","))))
                }
                3 | 4 => {
                    let p = random_perm(rng, nd);
                    Some((w.permuted(p.as_slice()), format!("permute{:?}", p)))
                }
                5 => Some((w.transposed(), "transpose".to_string())),
                6 => {
                    if nd == 0 {
                        return None;
                    }
                    let (a, b) = (rng.below(nd), rng.below(nd));
                    w.move_axis(a, b);
                    Some((w, format!("move_axis({a},{b})")))
                }
                7 => {
                    let d = rng.below(nd + 1);
                    if nd >= 5 {
                        return None;
                    }
                    w.insert_axis(d);
                    Some((w, format!("insert_axis({d})")))
                }
                8 => {
                    if rng.chance(1, 2) {
                        Some((w.squeezed(), "squeeze".to_string()))
                    } else {
                        w.merge_axes();
                        Some((w, "merge_axes".to_string()))
                    }
                }
                _ => {
                    if nd == 0 {
                        return None;
                    }
                    let axis = rng.below(nd);
                    let mid = rng.below(w.size(axis) + 1);
                    let (l, r) = w.split_at(axis, mid);
                    if rng.chance(1, 2) {
                        Some((l, format!("split_at({axis},{mid}).0")))
                    } else {
                        Some((r, format!("split_at({axis},{mid}).1")))
                    }
                }
            }
        });
        match r {
            Ok(Some((w, d))) => {
                v = w;
                ops = format!("{ops};{d}");
                *case_no += 1;
                submit_layout(tr, *case_no, "derived_api", &ops, &v.shape().to_vec(), &v.strides().to_vec());
            }
            _ => {}
        }
    }
}

/// `vh-tensor overlap --layouts FILE --out TRACE [--derived N]`
pub fn main_overlap() {
    let out = vcommon::arg_or("--out", "-");
    let nderived = vcommon::arg_usize("--derived", 0);
    let mut tr = Trace::create(&out);
    vcommon::quiet_panics();
    let mut case_no = 0u64;
    if let Some(f) = vcommon::arg("--layouts") {
        for rec in vcommon::read_json_lines(&f) {
            let shape = read_sizes(&rec, "shape");
            let strides = read_sizes(&rec, "strides");
            let class = rec["class"].as_str().unwrap_or("small").to_string();
            case_no += 1;
            submit_layout(&mut tr, case_no, &class, "", &shape, &strides);
        }
    }
    let mut rng = Rng::from_env();
    for _ in 0..nderived {
        derived_chain(&mut tr, &mut rng, &mut case_no);
    }
    tr.flush();
    eprintln!("cases={case_no}");
    let _: Option<Value> = None;
}
