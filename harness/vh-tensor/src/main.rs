mod chains;
mod construct;
mod iter;
mod layoutops;
mod overlap;
mod util;

fn main() {
    let cmd = std::env::args().nth(1).unwrap_or_default();
    match cmd.as_str() {
        "iter" => iter::main_iter(),
        "overlap" => overlap::main_overlap(),
        "construct" => construct::main_construct(),
        "chains" => chains::main_chains(),
        "layout" => layoutops::main_layout(),
        _ => {
            eprintln!("usage: vh-tensor <iter|overlap|construct|chains|layout> [options]");
            std::process::exit(2);
        }
    }
}
