mod chains;
mod construct;
mod grow;
mod iter;
mod layoutops;
mod overlap;
mod util;

fn main() {
    let cmd = std::env::args().nth(1).unwrap_or_default();
    match cmd.as_str() {
        "iter" => iter::main_iter(),
        "overlap" => overlap::main_overlap(),
        "construct" => construct::main_construct(),
        "chains" => chains::main_chains(),
        "grow" => grow::main_grow(),
        "layout" => layoutops::main_layout(),
        _ => {
            eprintln!("usage: vh-tensor <iter|overlap|construct|chains|grow|layout> [options]");
            std::process::exit(2);
        }
    }
}
