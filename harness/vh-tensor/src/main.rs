mod iter;

fn main() {
    let cmd = std::env::args().nth(1).unwrap_or_default();
    match cmd.as_str() {
        "iter" => iter::main_iter(),
        _ => {
            eprintln!("usage: vh-tensor <iter|...> [options]");
            std::process::exit(2);
        }
    }
}
