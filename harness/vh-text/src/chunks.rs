//! C29 engine: replay TLC-generated chunking requests on a real
//! `Tokenizer::encode_chunks` and record the chunks it returned.  Every
//! content token is distinct (texts of distinct letters), so the trace spec
//! can locate each chunk's window in the full encoding.  Nothing is judged
//! here.

use std::collections::HashMap;

use rten_text::models::{Model, WordPiece, WordPieceOptions};
use rten_text::pre_tokenizers;
use rten_text::tokenizer::{EncodeOptions, EncoderInput, Tokenizer, TokenizerOptions};
use vcommon::{Trace, Value, arg, arg_or, guarded, json, quiet_panics, read_json_lines};

use crate::util::{ByteChars, VocabMode, build_bpe, bytes_json, ids_json};

const FIRST: &[u8] = b"ABCDEFGHIJKLMNOP";
const SECOND: &[u8] = b"abcdefghijklmnopqrstuvwxyz";
const CLS_ID: u32 = 1000;
const SEP_ID: u32 = 1001;

fn make_tokenizer(model: &str, cls: bool, sep: bool) -> (Tokenizer, Vec<(u8, u32)>) {
    let opts = TokenizerOptions {
        cls_token: cls.then_some("[CLS]"),
        sep_token: sep.then_some("[SEP]"),
    };
    let letters: Vec<u8> = FIRST.iter().chain(SECOND.iter()).copied().collect();
    match model {
        "bpe" => {
            let bc = ByteChars::new();
            let added = [(CLS_ID, "[CLS]".to_string()), (SEP_ID, "[SEP]".to_string())];
            let bpe = build_bpe(&bc, &[], VocabMode::Derived, &added, false).expect("bpe");
            // vocabulary of the letters, observed through the public API
            let vocab = letters
                .iter()
                .map(|b| {
                    let s = bc.encode(&[*b]);
                    (*b, bpe.get_token_id(&s).expect("byte token"))
                })
                .collect();
            (Tokenizer::new(bpe, opts), vocab)
        }
        "wordpiece" => {
            let mut v: HashMap<String, u32> = HashMap::new();
            let mut vocab = Vec::new();
            for (i, b) in letters.iter().enumerate() {
                let id = 5 + 3 * i as u32;
                v.insert((*b as char).to_string(), id);
                vocab.push((*b, id));
            }
            v.insert("[CLS]".into(), CLS_ID);
            v.insert("[SEP]".into(), SEP_ID);
            v.insert("[UNK]".into(), 2);
            let wp = WordPiece::from_vocab(v, WordPieceOptions::default());
            let tok = Tokenizer::new(wp, opts)
                .with_pre_tokenizer(Box::new(pre_tokenizers::Bert::new()));
            (tok, vocab)
        }
        _ => panic!("unknown model"),
    }
}

/// Text whose content tokens are exactly `letters`, in order.
fn text_for(model: &str, letters: &[u8]) -> String {
    let mut s = String::new();
    for (i, b) in letters.iter().enumerate() {
        if model == "wordpiece" && i > 0 {
            s.push(' ');
        }
        s.push(*b as char);
    }
    s
}

pub fn main_chunks() {
    quiet_panics();
    let cases = read_json_lines(&arg("--cases").expect("--cases"));
    let mut trace = Trace::create(&arg_or("--out", "-"));
    let models: Vec<String> = arg_or("--models", "bpe,wordpiece")
        .split(',')
        .map(|s| s.to_string())
        .collect();
    let mut toks: HashMap<(String, bool, bool), (Tokenizer, Vec<(u8, u32)>)> = HashMap::new();
    for c in &cases {
        let n = c["n"].as_u64().unwrap() as usize;
        let n1 = c["n1"].as_u64().unwrap() as usize;
        let pair = c["pair"].as_bool().unwrap();
        let cls = c["cls"].as_bool().unwrap();
        let sep = c["sep"].as_bool().unwrap();
        let limit = c["limit"].as_i64().unwrap();
        let ov = c["ov"].as_u64().unwrap() as usize;
        if n > SECOND.len() || n1 > FIRST.len() {
            eprintln!("request larger than the letter alphabets");
            std::process::exit(2);
        }
        for model in &models {
            let key = (model.clone(), cls, sep);
            if !toks.contains_key(&key) {
                toks.insert(key.clone(), make_tokenizer(model, cls, sep));
            }
            let (tok, vocab) = &toks[&key];
            let l1 = &FIRST[..n1];
            let l2 = &SECOND[..n];
            let t1 = text_for(model, l1);
            let t2 = text_for(model, l2);
            let used: Vec<Value> = vocab
                .iter()
                .filter(|(b, _)| l1.contains(b) || l2.contains(b))
                .map(|(b, id)| json!([b, id]))
                .collect();
            trace.emit(json!({
                "ev": "case", "model": model, "n": n, "n1": n1, "pair": pair, "cls": cls, "sep": sep,
                "limit": limit, "ov": ov, "sat": c["sat"], "ref": c["ref"],
                "l1": bytes_json(l1), "l2": bytes_json(l2), "vocab": used,
                "clsid": if cls { CLS_ID as i64 } else { -1 }, "sepid": if sep { SEP_ID as i64 } else { -1 },
                "t1": bytes_json(t1.as_bytes()), "t2": bytes_json(t2.as_bytes()),
            }));
            let opts = EncodeOptions {
                max_chunk_len: if limit < 0 { None } else { Some(limit as usize) },
                overlap: ov,
            };
            let input = if pair {
                EncoderInput::Pair((&t1, &t2))
            } else {
                EncoderInput::Item(&t2)
            };
            let r = guarded(|| {
                tok.encode_chunks(input, opts)
                    .map(|chunks| chunks.iter().map(|e| e.token_ids().to_vec()).collect::<Vec<_>>())
            });
            let (out, chunks, msg) = match r {
                Err(m) => ("panic", vec![], m),
                Ok(Err(e)) => ("error", vec![], format!("{e:?}")),
                Ok(Ok(ch)) => ("ok", ch, String::new()),
            };
            let msg: String = msg.chars().take(120).collect();
            trace.emit(json!({
                "ev": "ret", "out": out, "msg": msg,
                "chunks": Value::Array(chunks.iter().map(|c| ids_json(c)).collect()),
            }));
        }
    }
}
