//! C27 engine: seeded byte-level BPE tokenizers (built through
//! `Tokenizer::from_json` and through the builder API) encode seeded Unicode
//! texts; ids, offsets, `text_for_token_range` slices and the decoded bytes
//! are recorded.  Nothing is judged here.

use std::collections::HashMap;

use rten_text::normalizers;
use rten_text::pre_tokenizers::{self, PreTokenizer, SplitDelimiterBehavior, SplitOptions};
use rten_text::tokenizer::{Tokenizer, TokenizerOptions};
use vcommon::{Rng, Trace, Value, arg_or, arg_usize, guarded, json, quiet_panics, seed_from_env};

use crate::textgen::gen_text;
use crate::util::{ByteChars, IdPlan, VocabMode, assign_ids, build_bpe, bytes_json, usizes_json};

/// Patterns for `Split` pre-tokenizers (always with the `Isolated` delimiter
/// behaviour, which keeps all of the text).
const PATTERNS: &[&str] = &[
    r"\s+", r"\s", r"\d", r"[^\w\s]+", r"\p{L}+", r"a", r" ?\p{L}+", r"\n", r"(?=\s)", r"[\u{300}-\u{36f}]",
    r"'s|'t|'re", r"\p{N}{1,3}", r".", r"\w+|\s+", r"[^\r\n\p{L}\p{N}]?\p{L}+|\p{N}{1,3}| ?[^\s\p{L}\p{N}]+[\r\n]*|\s*[\r\n]+|\s+(?!\S)|\s+",
];

#[derive(Clone, Debug)]
enum Pre {
    ByteLevel(bool),
    Split { pattern: String, invert: bool },
    Bert,
    Digits(bool),
}

impl Pre {
    fn kind(&self) -> &'static str {
        match self {
            Pre::ByteLevel(true) => "bytelevel_regex",
            Pre::ByteLevel(false) => "bytelevel_noregex",
            Pre::Split { invert: false, .. } => "split_isolated",
            Pre::Split { invert: true, .. } => "split_isolated_invert",
            Pre::Bert => "bert",
            Pre::Digits(_) => "digits",
        }
    }
    fn to_json(&self) -> Value {
        match self {
            Pre::ByteLevel(r) => json!({"type": "ByteLevel", "use_regex": r}),
            Pre::Split { pattern, invert } => {
                json!({"type": "Split", "pattern": {"Regex": pattern}, "behavior": "Isolated", "invert": invert})
            }
            Pre::Bert => json!({"type": "BertPreTokenizer"}),
            Pre::Digits(i) => json!({"type": "Digits", "individual_digits": i}),
        }
    }
    /// Builder-API equivalent (ByteLevel(false) has no public equivalent other
    /// than what `from_json` constructs, so it is only used via JSON).
    fn build(&self) -> Option<Box<dyn PreTokenizer>> {
        Some(match self {
            Pre::ByteLevel(true) => Box::new(pre_tokenizers::Split::gpt2()),
            Pre::ByteLevel(false) => return None,
            Pre::Split { pattern, invert } => Box::new(
                pre_tokenizers::Split::new(SplitOptions {
                    pattern,
                    invert: *invert,
                    delimiter: SplitDelimiterBehavior::Isolate,
                })
                .ok()?,
            ),
            Pre::Bert => Box::new(pre_tokenizers::Bert::new()),
            Pre::Digits(i) => Box::new(pre_tokenizers::Digits::new(*i)),
        })
    }
}

struct Config {
    pre: Vec<Pre>,
    bert_noop_normalizer: bool,
    merges: Vec<(Vec<u8>, Vec<u8>)>,
    ids: IdPlan,
    added: Vec<(u32, String)>,
    ignore_merges: bool,
    legacy_merges: bool,
    via_json: bool,
    derived_vocab: bool,
}

fn gen_pre(rng: &mut Rng) -> Pre {
    match rng.below(8) {
        0 | 1 => Pre::ByteLevel(true),
        2 => Pre::ByteLevel(false),
        3 | 4 => Pre::Split {
            pattern: rng.pick(PATTERNS).to_string(),
            invert: false,
        },
        5 => Pre::Split {
            pattern: rng.pick(PATTERNS).to_string(),
            invert: true,
        },
        6 => Pre::Bert,
        _ => Pre::Digits(rng.chance(1, 2)),
    }
}

/// Seeded merge table: greedy BPE training on a sample corpus (so that merges
/// fire on similar text), followed by random pairs of existing tokens
/// (including pairs that cut through UTF-8 sequences), optionally shuffled.
fn gen_merges(rng: &mut Rng, extra: &[String]) -> Vec<(Vec<u8>, Vec<u8>)> {
    let n_trained = *rng.pick(&[0usize, 0, 5, 20, 60, 150]);
    let n_random = *rng.pick(&[0usize, 0, 3, 10, 30]);
    let mut corpus: Vec<Vec<Vec<u8>>> = (0..40)
        .map(|_| {
            gen_text(rng, 25, extra)
                .into_bytes()
                .into_iter()
                .map(|b| vec![b])
                .collect()
        })
        .collect();
    let mut merges: Vec<(Vec<u8>, Vec<u8>)> = Vec::new();
    let mut tokens: Vec<Vec<u8>> = Vec::new();
    for _ in 0..n_trained {
        let mut counts: HashMap<(Vec<u8>, Vec<u8>), usize> = HashMap::new();
        for doc in &corpus {
            for w in doc.windows(2) {
                *counts.entry((w[0].clone(), w[1].clone())).or_default() += 1;
            }
        }
        let mut best: Vec<_> = counts.into_iter().collect();
        best.sort_by(|a, b| b.1.cmp(&a.1).then(a.0.cmp(&b.0)));
        // pick among the few most frequent pairs
        let top = best.len().min(3);
        if top == 0 {
            break;
        }
        let (pair, _) = best[rng.below(top)].clone();
        if merges.contains(&pair) {
            continue;
        }
        let mut prod = pair.0.clone();
        prod.extend_from_slice(&pair.1);
        for doc in corpus.iter_mut() {
            let mut out = Vec::with_capacity(doc.len());
            let mut i = 0;
            while i < doc.len() {
                if i + 1 < doc.len() && doc[i] == pair.0 && doc[i + 1] == pair.1 {
                    out.push(prod.clone());
                    i += 2;
                } else {
                    out.push(doc[i].clone());
                    i += 1;
                }
            }
            *doc = out;
        }
        tokens.push(prod);
        merges.push(pair);
    }
    for _ in 0..n_random {
        let pick = |rng: &mut Rng, tokens: &Vec<Vec<u8>>| -> Vec<u8> {
            if tokens.is_empty() || rng.chance(1, 2) {
                // single bytes, biased to bytes that occur in UTF-8 text
                let b = match rng.below(4) {
                    0 => rng.range(0x20, 0x7e) as u8,
                    1 => rng.range(0x80, 0xbf) as u8,
                    2 => rng.range(0xc2, 0xf4) as u8,
                    _ => rng.below(256) as u8,
                };
                vec![b]
            } else {
                rng.pick(tokens).clone()
            }
        };
        let a = pick(rng, &tokens);
        let b = pick(rng, &tokens);
        let pair = (a, b);
        if merges.contains(&pair) {
            continue;
        }
        let mut prod = pair.0.clone();
        prod.extend_from_slice(&pair.1);
        tokens.push(prod);
        merges.push(pair);
    }
    if rng.chance(1, 6) {
        rng.shuffle(&mut merges);
    }
    merges
}

fn gen_config(rng: &mut Rng) -> Config {
    let n_added = *rng.pick(&[0usize, 0, 1, 2]);
    let names = ["<|endoftext|>", "<s>", "[CLS]", "</s>", "<|im_start|>"];
    let mut added = Vec::new();
    // added/special tokens at small, mid-range and extreme ids
    let added_base = *rng.pick(&[90000u32, 90000, 1 << 16, (1 << 16) + 1, 1 << 24, (1 << 31) - 2, 1 << 31, u32::MAX - 1]);
    for i in 0..n_added {
        added.push((added_base + i as u32, names[rng.below(names.len())].to_string()));
    }
    added.dedup_by(|a, b| a.1 == b.1);
    let extra: Vec<String> = added.iter().map(|a| a.1.clone()).collect();
    let npre = *rng.pick(&[0usize, 1, 1, 1, 2, 3]);
    let pre: Vec<Pre> = (0..npre).map(|_| gen_pre(rng)).collect();
    let needs_json = pre.iter().any(|p| matches!(p, Pre::ByteLevel(false)));
    let via_json = needs_json || rng.chance(2, 3);
    let merges = gen_merges(rng, &extra);
    let taken: Vec<u32> = added.iter().map(|a| a.0).collect();
    // bytes that are frequent in the generated texts (for the stride-2^16 product ids)
    let hot = b" aetionslhrdu\n0123.,'\xc3\xa9\xe2\x80\xf0\x9f";
    let dense = rng.chance(1, 4);
    let ids = assign_ids(rng, &merges, hot, &taken, dense);
    Config {
        pre,
        bert_noop_normalizer: rng.chance(1, 5),
        merges,
        ids,
        added,
        ignore_merges: rng.chance(1, 5),
        legacy_merges: rng.chance(1, 3),
        via_json,
        derived_vocab: !via_json && rng.chance(1, 2),
    }
}

fn build_tokenizer(cfg: &Config, rng: &mut Rng, bc: &ByteChars) -> Result<Tokenizer, String> {
    let byte_ids = cfg.ids.byte_ids;
    let product_ids = cfg.ids.product_ids.clone();
    let _ = &rng;
    if cfg.via_json {
        let mut vocab = serde_json::Map::new();
        for b in 0..256usize {
            vocab.insert(bc.to_char[b].to_string(), json!(byte_ids[b]));
        }
        for (i, (a, b)) in cfg.merges.iter().enumerate() {
            let mut p = a.clone();
            p.extend_from_slice(b);
            vocab.insert(bc.encode(&p), json!(product_ids[i]));
        }
        let merges: Vec<Value> = cfg
            .merges
            .iter()
            .map(|(a, b)| {
                if cfg.legacy_merges {
                    json!(format!("{} {}", bc.encode(a), bc.encode(b)))
                } else {
                    json!([bc.encode(a), bc.encode(b)])
                }
            })
            .collect();
        let pre = match cfg.pre.len() {
            0 => Value::Null,
            1 => cfg.pre[0].to_json(),
            _ => json!({"type": "Sequence", "pretokenizers": cfg.pre.iter().map(|p| p.to_json()).collect::<Vec<_>>()}),
        };
        let norm = if cfg.bert_noop_normalizer {
            json!({"type": "BertNormalizer", "lowercase": false, "strip_accents": false})
        } else {
            Value::Null
        };
        let doc = json!({
            "added_tokens": cfg.added.iter().map(|(id, s)| json!({"content": s, "id": id})).collect::<Vec<_>>(),
            "normalizer": norm,
            "pre_tokenizer": pre,
            "model": {"type": "BPE", "vocab": vocab, "merges": merges, "end_of_word_suffix": Value::Null,
                      "ignore_merges": cfg.ignore_merges},
        });
        Tokenizer::from_json(&doc.to_string()).map_err(|e| format!("{e}"))
    } else {
        let mode = if cfg.derived_vocab {
            VocabMode::Derived
        } else {
            VocabMode::Explicit {
                byte_ids: &byte_ids,
                product_ids: &product_ids,
                extra: &[],
            }
        };
        let bpe = build_bpe(bc, &cfg.merges, mode, &cfg.added, cfg.ignore_merges && !cfg.derived_vocab)?;
        let mut tok = Tokenizer::new(bpe, TokenizerOptions::default());
        let mut pts: Vec<Box<dyn PreTokenizer>> = Vec::new();
        for p in &cfg.pre {
            pts.push(p.build().ok_or("pre-tokenizer")?);
        }
        if pts.len() == 1 {
            tok = tok.with_pre_tokenizer(pts.pop().unwrap());
        } else if pts.len() > 1 {
            tok = tok.with_pre_tokenizer(Box::new(pre_tokenizers::Sequence::from_vec(pts)));
        }
        if cfg.bert_noop_normalizer {
            tok = tok.with_normalizer(Box::new(normalizers::Bert::new(normalizers::BertOptions {
                lowercase: false,
                strip_accents: false,
            })));
        }
        Ok(tok)
    }
}

pub fn main_roundtrip() {
    quiet_panics();
    let n_tok = arg_usize("--tokenizers", 40);
    let n_text = arg_usize("--texts", 50);
    let max_pieces = arg_usize("--max-pieces", 24);
    let only: Option<(usize, usize)> = vcommon::arg("--only").map(|s| {
        let (a, b) = s.split_once(',').expect("--only tk,ti");
        (a.parse().unwrap(), b.parse().unwrap())
    });
    let mut trace = Trace::create(&arg_or("--out", "-"));
    let bc = ByteChars::new();
    let seed = seed_from_env();
    for tk in 0..n_tok {
        if let Some((otk, _)) = only
            && otk != tk
        {
            continue;
        }
        // every tokenizer and every text has its own stream, so single cases can be re-run
        let mut rng = Rng::new(seed.wrapping_mul(1_000_003).wrapping_add(tk as u64));
        let cfg = gen_config(&mut rng);
        let tok = match build_tokenizer(&cfg, &mut rng, &bc) {
            Ok(t) => t,
            Err(e) => {
                trace.emit(json!({"ev": "skip", "tk": tk, "why": e.chars().take(100).collect::<String>()}));
                continue;
            }
        };
        let extra: Vec<String> = cfg.added.iter().map(|a| a.1.clone()).collect();
        let pretok: Vec<&str> = cfg.pre.iter().map(|p| p.kind()).collect();
        for ti in 0..n_text {
            let mut trng = Rng::new(seed.wrapping_mul(7_000_003).wrapping_add((tk * 100_000 + ti) as u64));
            let text = gen_text(&mut trng, max_pieces, &extra);
            if let Some((_, oti)) = only
                && oti != ti
            {
                continue;
            }
            trace.emit(json!({
                "ev": "case", "tk": tk, "ti": ti, "pretok": pretok, "via": if cfg.via_json { "from_json" } else { "builder" },
                "norm": if cfg.bert_noop_normalizer { "bert_noop" } else { "none" },
                "nmerges": cfg.merges.len(), "nadded": cfg.added.len(), "ignore_merges": cfg.ignore_merges,
                "vocab": if cfg.derived_vocab { "derived" } else { "explicit" },
                "idscheme": if cfg.derived_vocab { "derived".to_string() } else { cfg.ids.scheme.clone() },
                "added_ids": cfg.added.iter().map(|a| crate::util::id_hl(a.0)).collect::<Vec<_>>(),
                "text": bytes_json(text.as_bytes()),
            }));
            let r = guarded(|| {
                let enc = tok.encode(text.as_str(), None).map_err(|e| format!("{e:?}"))?;
                let ids = enc.token_ids().to_vec();
                let offsets = enc.token_offsets().to_vec();
                let slices: Vec<Option<Vec<u8>>> = (0..ids.len())
                    .map(|i| enc.text_for_token_range(i..i + 1).map(|s| s.as_bytes().to_vec()))
                    .collect();
                let dec = tok.decode(&ids).map(|s| s.into_bytes()).map_err(|e| format!("{e:?}"));
                Ok::<_, String>((ids, offsets, slices, dec))
            });
            let ev = match r {
                Err(m) => json!({"ev": "ret", "out": "panic", "msg": m.chars().take(100).collect::<String>(),
                                 "nids": 0, "offsets": [], "slices": [], "slices_some": false, "dec_out": "none", "dec": []}),
                Ok(Err(m)) => json!({"ev": "ret", "out": "error", "msg": m.chars().take(100).collect::<String>(),
                                 "nids": 0, "offsets": [], "slices": [], "slices_some": false, "dec_out": "none", "dec": []}),
                Ok(Ok((ids, offsets, slices, dec))) => {
                    let all_some = slices.iter().all(|s| s.is_some());
                    let sl: Vec<Value> = slices.iter().map(|s| bytes_json(s.as_deref().unwrap_or(&[]))).collect();
                    let (dec_out, decb) = match dec {
                        Ok(b) => ("ok", b),
                        Err(_) => ("error", vec![]),
                    };
                    json!({"ev": "ret", "out": "ok", "msg": "", "nids": ids.len(), "offsets": usizes_json(&offsets),
                           "slices": sl, "slices_some": all_some, "dec_out": dec_out, "dec": bytes_json(&decb)})
                }
            };
            trace.emit(ev);
        }
    }
}
