//! C30 engine: seeded normalizer configurations (every normalizer of
//! `rten_text::normalizers` and `Sequence` chains) on seeded Unicode text;
//! the normalized bytes and the offset map are recorded.  Nothing is judged
//! here.

use rten_text::normalizers::{Bert, BertOptions, Normalizer, Replace, Sequence, Unicode};
use vcommon::{Rng, Trace, Value, arg_or, arg_usize, guarded, json, quiet_panics, seed_from_env};

use crate::textgen::gen_text;
use crate::util::bytes_json;

const PATTERNS: &[&str] = &[
    " +", " ", "a", r"\s", "é", r"[\u{300}-\u{36f}]", "^", "$", "", "x*", r"\p{L}", r"(?<=a)b", "😀", r"\s*$",
    r"\p{M}+", r"\d+", ".", r"[^\x00-\x7f]", "aa", r"\n",
];
const CONTENTS: &[&str] = &["", " ", "▁", "ab", "é", "😀", "_", "\u{301}"];

#[derive(Clone, Debug)]
enum Cfg {
    Bert { lowercase: bool, strip_accents: bool },
    Unicode(&'static str),
    Replace { pattern: String, content: String },
    Sequence(Vec<Cfg>),
}

impl Cfg {
    fn kind(&self) -> &'static str {
        match self {
            Cfg::Bert { lowercase: false, strip_accents: false } => "bert_noop",
            Cfg::Bert { lowercase: true, strip_accents: false } => "bert_lowercase",
            Cfg::Bert { lowercase: false, strip_accents: true } => "bert_strip_accents",
            Cfg::Bert { .. } => "bert_lowercase_strip_accents",
            Cfg::Unicode(f) => f,
            Cfg::Replace { .. } => "replace",
            Cfg::Sequence(_) => "sequence",
        }
    }
    /// Kinds of the leaf stages in application order (nested sequences flattened).
    fn stages(&self, out: &mut Vec<&'static str>) {
        match self {
            Cfg::Sequence(v) => v.iter().for_each(|c| c.stages(out)),
            c => out.push(c.kind()),
        }
    }
    fn describe(&self) -> Value {
        match self {
            Cfg::Replace { pattern, content } => json!({"replace": pattern, "with": content}),
            Cfg::Sequence(v) => Value::Array(v.iter().map(|c| c.describe()).collect()),
            c => json!(c.kind()),
        }
    }
    fn build(&self) -> Result<Box<dyn Normalizer>, String> {
        Ok(match self {
            Cfg::Bert { lowercase, strip_accents } => Box::new(Bert::new(BertOptions {
                lowercase: *lowercase,
                strip_accents: *strip_accents,
            })),
            Cfg::Unicode(f) => Box::new(match *f {
                "nfc" => Unicode::Nfc,
                "nfd" => Unicode::Nfd,
                "nfkc" => Unicode::Nfkc,
                _ => Unicode::Nfkd,
            }),
            Cfg::Replace { pattern, content } => {
                Box::new(Replace::new(pattern, content.clone()).map_err(|e| format!("{e}"))?)
            }
            Cfg::Sequence(v) => {
                let mut stages = Vec::new();
                for c in v {
                    stages.push(c.build()?);
                }
                Box::new(Sequence::from_vec(stages))
            }
        })
    }
}

fn gen_leaf(rng: &mut Rng) -> Cfg {
    match rng.below(10) {
        0 => Cfg::Bert { lowercase: false, strip_accents: false },
        1 => Cfg::Bert { lowercase: true, strip_accents: false },
        2 => Cfg::Bert { lowercase: false, strip_accents: true },
        3 => Cfg::Bert { lowercase: true, strip_accents: true },
        4 => Cfg::Unicode("nfc"),
        5 => Cfg::Unicode("nfd"),
        6 => Cfg::Unicode("nfkc"),
        7 => Cfg::Unicode("nfkd"),
        _ => Cfg::Replace {
            pattern: rng.pick(PATTERNS).to_string(),
            content: rng.pick(CONTENTS).to_string(),
        },
    }
}

fn gen_cfg(rng: &mut Rng, idx: usize) -> Cfg {
    // the first configurations are the catalogue of single normalizers
    let singles: Vec<Cfg> = vec![
        Cfg::Bert { lowercase: false, strip_accents: false },
        Cfg::Bert { lowercase: true, strip_accents: false },
        Cfg::Bert { lowercase: false, strip_accents: true },
        Cfg::Bert { lowercase: true, strip_accents: true },
        Cfg::Unicode("nfc"),
        Cfg::Unicode("nfd"),
        Cfg::Unicode("nfkc"),
        Cfg::Unicode("nfkd"),
        Cfg::Sequence(vec![]),
    ];
    if idx < singles.len() {
        return singles[idx].clone();
    }
    match rng.below(10) {
        0..=2 => gen_leaf(rng),
        3..=8 => {
            let n = 1 + rng.below(3);
            Cfg::Sequence((0..n).map(|_| gen_leaf(rng)).collect())
        }
        _ => Cfg::Sequence(vec![gen_leaf(rng), Cfg::Sequence(vec![gen_leaf(rng), gen_leaf(rng)])]),
    }
}

pub fn main_normalize() {
    quiet_panics();
    let n_cfg = arg_usize("--configs", 60);
    let n_text = arg_usize("--texts", 40);
    let max_pieces = arg_usize("--max-pieces", 16);
    let only: Option<(usize, usize)> = vcommon::arg("--only").map(|s| {
        let (a, b) = s.split_once(',').expect("--only ci,ti");
        (a.parse().unwrap(), b.parse().unwrap())
    });
    let mut trace = Trace::create(&arg_or("--out", "-"));
    let seed = seed_from_env();
    for ci in 0..n_cfg {
        if let Some((oci, _)) = only
            && oci != ci
        {
            continue;
        }
        let mut rng = Rng::new(seed.wrapping_mul(2_000_003).wrapping_add(ci as u64));
        let cfg = gen_cfg(&mut rng, ci);
        let norm = match cfg.build() {
            Ok(n) => n,
            Err(e) => {
                trace.emit(json!({"ev": "skip", "ci": ci, "why": e.chars().take(100).collect::<String>()}));
                continue;
            }
        };
        let mut stages = Vec::new();
        cfg.stages(&mut stages);
        for ti in 0..n_text {
            let mut trng = Rng::new(seed.wrapping_mul(9_000_011).wrapping_add((ci * 100_000 + ti) as u64));
            let text = gen_text(&mut trng, max_pieces, &[]);
            if let Some((_, oti)) = only
                && oti != ti
            {
                continue;
            }
            trace.emit(json!({
                "ev": "case", "ci": ci, "ti": ti, "top": cfg.kind(), "stages": stages, "cfg": cfg.describe().to_string(),
                "src": bytes_json(text.as_bytes()),
            }));
            let r = guarded(|| norm.normalize(&text));
            let ev = match r {
                Err(m) => {
                    let class = if m.contains("index out of bounds") { "index_out_of_bounds" } else { "other" };
                    json!({"ev": "ret", "out": "panic", "msg": m.chars().take(100).collect::<String>(), "msg_class": class,
                           "norm": [], "offsets": []})
                }
                Ok(Err(e)) => json!({"ev": "ret", "out": "error", "msg": format!("{e}").chars().take(100).collect::<String>(),
                           "msg_class": "", "norm": [], "offsets": []}),
                Ok(Ok((s, offs))) => {
                    // offsets are clamped for TLC's 32-bit integers (anything >= 10^6 is out of range anyway)
                    let o: Vec<Value> = offs.iter().map(|x| json!((*x).min(1_000_000))).collect();
                    json!({"ev": "ret", "out": "ok", "msg": "", "msg_class": "", "norm": bytes_json(s.as_bytes()), "offsets": o})
                }
            };
            trace.emit(ev);
        }
    }
}
