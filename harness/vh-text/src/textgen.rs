//! Seeded Unicode text generator shared by the C27 and C30 engines.

use vcommon::Rng;

const ASCII_WORDS: &[&str] = &[
    "the", "Hello", "world", "tokenizer", "a", "I", "don't", "it's", "we'll", "they've", "x", "foo",
    "BAR", "Straße", "naïve", "café", "ABC", "aaa", "aaaa", "abab",
];
const SPACES: &[&str] = &[" ", " ", " ", "  ", "\n", "\n\n", "\r\n", "\t", " \n", "\u{a0}", "\u{2028}", "\u{3000}", "\u{85}"];
const PUNCT: &[&str] = &[".", ",", "!", "?", "-", "'", "\"", "(", ")", "...", "¿", "«", "—", "·", "$", "#", "_", "@", "\\", "/"];
const DIGITS: &[&str] = &["0", "1", "42", "2024", "3.14", "٣", "²", "½", "Ⅷ", "①"];
const CONTROLS: &[&str] = &["\0", "\u{1}", "\u{1b}", "\u{7f}", "\u{8}", "\u{c}", "\u{9f}", "\u{ad}", "\u{200b}", "\u{200d}", "\u{feff}", "\u{fffd}", "\u{202e}", "\u{e000}"];
const COMBINING: &[&str] = &["\u{301}", "\u{308}", "\u{323}", "\u{307}", "\u{20dd}", "\u{5b0}", "\u{93c}", "\u{e31}", "\u{1ab0}", "\u{fe0f}", "\u{3099}"];
const LATIN: &[&str] = &["é", "ö", "ß", "İ", "ı", "Å", "ñ", "ǆ", "ǅ", "Ǆ", "ΐ", "Σ", "ς", "ῼ", "ﬁ", "ﬃ", "ẞ", "ſ", "Ａ", "ｚ", "K", "Å", "Ω", "ŉ", "ǰ", "ẛ̣"];
const SCRIPTS: &[&str] = &["中", "文", "日本語", "한", "국", "\u{1112}\u{1161}\u{11ab}", "ש", "לום", "مرحبا", "Привет", "Ж", "Ω", "λόγος", "ก", "क्ष", "ﷺ", "㍿", "ｶﾞ", "が", "か\u{3099}"];
const ASTRAL: &[&str] = &["😀", "🎉", "👨\u{200d}👩\u{200d}👧", "🇯🇵", "\u{10000}", "\u{10ffff}", "𝔘", "𝟘", "🅰\u{fe0f}", "\u{1f3fb}", "𐐷", "\u{e0001}"];

/// Generate a text of up to `max_pieces` pieces. `extra` are strings (e.g.
/// added-token contents) that are mixed in.
pub fn gen_text(rng: &mut Rng, max_pieces: usize, extra: &[String]) -> String {
    let n = rng.below(max_pieces + 1);
    // mode weights: 0 ascii-heavy, 1 unicode-heavy, 2 whitespace/control-heavy, 3 repeated
    let mode = rng.below(4);
    let mut s = String::new();
    let mut last = String::new();
    for _ in 0..n {
        let r = rng.below(100);
        let piece: String = if mode == 3 && !last.is_empty() && rng.chance(1, 2) {
            last.clone()
        } else {
            let class = match mode {
                0 => [40, 65, 75, 82, 84, 86, 90, 95, 98][..].iter().position(|t| r < *t).unwrap_or(9),
                1 => [10, 20, 25, 30, 35, 50, 65, 82, 96][..].iter().position(|t| r < *t).unwrap_or(9),
                2 => [10, 50, 55, 60, 85, 90, 93, 96, 98][..].iter().position(|t| r < *t).unwrap_or(9),
                _ => [20, 35, 45, 52, 58, 66, 76, 86, 95][..].iter().position(|t| r < *t).unwrap_or(9),
            };
            match class {
                0 => rng.pick(ASCII_WORDS).to_string(),
                1 => rng.pick(SPACES).to_string(),
                2 => rng.pick(PUNCT).to_string(),
                3 => rng.pick(DIGITS).to_string(),
                4 => rng.pick(CONTROLS).to_string(),
                5 => rng.pick(COMBINING).to_string(),
                6 => rng.pick(LATIN).to_string(),
                7 => rng.pick(SCRIPTS).to_string(),
                8 => rng.pick(ASTRAL).to_string(),
                _ => {
                    if !extra.is_empty() {
                        rng.pick(extra).clone()
                    } else {
                        // an arbitrary scalar value
                        loop {
                            let c = rng.below(0x110000) as u32;
                            if let Some(ch) = char::from_u32(c) {
                                break ch.to_string();
                            }
                        }
                    }
                }
            }
        };
        s.push_str(&piece);
        last = piece;
    }
    s
}
