//! C28 engine: replay TLC-generated (merge table, input) vectors on a real
//! `rten_text::models::Bpe` wrapped in a `Tokenizer` and record the token ids
//! it produced (plus the vocabulary strings of those ids).  Nothing is judged
//! here.

use std::collections::HashMap;

use rayon::prelude::*;
use rten_text::tokenizer::{Tokenizer, TokenizerOptions};
use vcommon::{Rng, Value, arg, arg_or, guarded, json, quiet_panics};

use crate::util::{ByteChars, VocabMode, assign_ids, build_bpe, bytes_json, id_hl, ids_hl_json, ids_json};

/// Alphabets: symbol k (1-based) of the spec is byte `ALPHAS[a][k-1]`.  ASCII
/// only, so every symbol string is valid UTF-8; non-printable bytes exercise
/// the remapped byte characters of the vocabulary representation.
const ALPHAS: &[[u8; 3]] = &[
    [b'a', b'b', b'c'],
    [b' ', b'a', b'\n'],
    [0x00, b'~', 0x7f],
    [b'x', b'\t', b'!'],
];

struct Built {
    alpha: [u8; 3],
    explicit: Result<Tokenizer, String>,
    derived: Result<Tokenizer, String>,
    xvocab: Value,
    scheme: String,
}

fn sym_bytes(alpha: &[u8; 3], piece: &Value) -> Vec<u8> {
    piece
        .as_array()
        .unwrap()
        .iter()
        .map(|s| alpha[(s.as_u64().unwrap() - 1) as usize])
        .collect()
}

fn build(bc: &ByteChars, table: &Value, rng: &mut Rng) -> Built {
    let alpha = *rng.pick(ALPHAS);
    let merges: Vec<(Vec<u8>, Vec<u8>)> = table
        .as_array()
        .unwrap()
        .iter()
        .map(|p| (sym_bytes(&alpha, &p[0]), sym_bytes(&alpha, &p[1])))
        .collect();
    // explicit vocabulary: a seeded injective id assignment over the whole u32 id space
    let plan = assign_ids(rng, &merges, &alpha, &[], false);
    let byte_ids = plan.byte_ids;
    let product_ids = plan.product_ids.clone();
    let mut prod_id: HashMap<Vec<u8>, u32> = HashMap::new();
    for ((a, b), id) in merges.iter().zip(&product_ids) {
        let mut p = a.clone();
        p.extend_from_slice(b);
        prod_id.insert(p, *id);
    }
    let mut xv = Vec::new();
    for s in alpha {
        xv.push(json!([[s], id_hl(byte_ids[s as usize])]));
    }
    let mut prods: Vec<_> = prod_id.iter().collect();
    prods.sort();
    for (p, id) in prods {
        xv.push(json!([bytes_json(p), id_hl(*id)]));
    }
    let explicit = build_bpe(
        bc,
        &merges,
        VocabMode::Explicit {
            byte_ids: &byte_ids,
            product_ids: &product_ids,
            extra: &[],
        },
        &[],
        false,
    )
    .map(|m| Tokenizer::new(m, TokenizerOptions::default()));
    let derived = build_bpe(bc, &merges, VocabMode::Derived, &[], false)
        .map(|m| Tokenizer::new(m, TokenizerOptions::default()));
    Built {
        alpha,
        explicit,
        derived,
        xvocab: Value::Array(xv),
        scheme: plan.scheme,
    }
}

/// Encode and report (outcome, ids, vocabulary bytes of each id).
fn run(bc: &ByteChars, tok: &Result<Tokenizer, String>, text: &str, hl: bool) -> (String, Value, Value) {
    let tok = match tok {
        Ok(t) => t,
        Err(_) => return ("build_error".into(), json!([]), json!([])),
    };
    match guarded(|| tok.encode(text, None).map(|e| e.token_ids().to_vec())) {
        Err(_) => ("panic".into(), json!([]), json!([])),
        Ok(Err(_)) => ("error".into(), json!([]), json!([])),
        Ok(Ok(ids)) => {
            let strs: Vec<Value> = ids
                .iter()
                .map(|id| match tok.model().get_token_str(*id) {
                    Some(s) => Value::Array(bc.decode(&s).into_iter().map(|b| json!(b)).collect()),
                    None => json!([-1]),
                })
                .collect();
            ("ok".into(), if hl { ids_hl_json(&ids) } else { ids_json(&ids) }, Value::Array(strs))
        }
    }
}

pub fn main_merge() {
    quiet_panics();
    // the vector file can hold > 10^6 lines: parse it, replay it and serialize the records in parallel
    let path = arg("--cases").expect("--cases");
    let raw = std::fs::read_to_string(&path).unwrap_or_else(|e| {
        eprintln!("cannot read {path}: {e}");
        std::process::exit(2)
    });
    let lines: Vec<&str> = raw.lines().filter(|l| !l.trim().is_empty()).collect();
    let cases: Vec<Value> = lines
        .par_iter()
        .map(|l| serde_json::from_str(l).expect("bad vector line"))
        .collect();
    let out_path = arg_or("--out", "-");
    let mut out_file: Box<dyn std::io::Write> = if out_path == "-" {
        Box::new(std::io::stdout())
    } else {
        Box::new(std::io::BufWriter::with_capacity(1 << 20, std::fs::File::create(&out_path).expect("create trace")))
    };
    let seed_rng = Rng::from_env();
    // group the vectors by merge table (first-appearance order); a group is replayed by one
    // task that builds the two tokenizers of its table (Tokenizer is not Sync)
    let mut index: HashMap<String, usize> = HashMap::new();
    let mut groups: Vec<(String, Vec<usize>)> = Vec::new();
    for (n, c) in cases.iter().enumerate() {
        let key = c["m"].to_string();
        let g = *index.entry(key.clone()).or_insert_with(|| {
            groups.push((key, Vec::new()));
            groups.len() - 1
        });
        groups[g].1.push(n);
    }
    for batch in groups.chunks(256) {
        let out: Vec<Vec<String>> = batch
            .par_iter()
            .map(|(key, idxs)| {
                let bc = ByteChars::new();
                // alphabet and ids depend on the seed and the table only
                let mut h: u64 = 1469598103934665603;
                for b in key.bytes() {
                    h = (h ^ b as u64).wrapping_mul(1099511628211);
                }
                let mut r = Rng::new(seed_rng.0 ^ h);
                let b = build(&bc, &cases[idxs[0]]["m"], &mut r);
                idxs.iter()
                    .map(|&n| {
                        let c = &cases[n];
                        let input = sym_bytes(&b.alpha, &c["s"]);
                        let text = String::from_utf8(input.clone()).expect("ascii");
                        let (xo, xids, xstrs) = run(&bc, &b.explicit, &text, true);
                        let (d_o, dids, dstrs) = run(&bc, &b.derived, &text, false);
                        json!({
                            "ev": "case", "n": n, "seq": n + 1, "m": c["m"], "s": c["s"], "one": c["one"], "all": c["all"],
                            "alpha": bytes_json(&b.alpha), "text": bytes_json(&input), "xvocab": b.xvocab, "idscheme": b.scheme,
                            "xout": xo, "xids": xids, "xstrs": xstrs,
                            "dout": d_o, "dids": dids, "dstrs": dstrs,
                        })
                        .to_string()
                    })
                    .collect()
            })
            .collect();
        for recs in out {
            for r in recs {
                out_file.write_all(r.as_bytes()).unwrap();
                out_file.write_all(b"\n").unwrap();
            }
        }
    }
    out_file.flush().unwrap();
}
