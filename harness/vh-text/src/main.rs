mod chunks;
mod merge;
mod normalize;
mod roundtrip;
mod textgen;
mod util;

fn main() {
    let cmd = std::env::args().nth(1).unwrap_or_default();
    match cmd.as_str() {
        "merge" => merge::main_merge(),
        "chunks" => chunks::main_chunks(),
        "bpe" => roundtrip::main_roundtrip(),
        "normalize" => normalize::main_normalize(),
        _ => {
            eprintln!("usage: vh-text <merge|chunks|bpe|normalize> [options]");
            std::process::exit(2);
        }
    }
}
