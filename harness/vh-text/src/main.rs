fn main() {
    eprintln!("usage: vh-text <subcommand> [options]");
    std::process::exit(2);
}
