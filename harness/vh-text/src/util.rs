//! Helpers shared by the vh-text engines: the byte <-> printable-char
//! representation rten-text uses for BPE vocabularies, and Bpe construction.

use std::borrow::Cow;
use std::collections::HashMap;

use rten_text::models::{Bpe, BpeOptions, char_to_byte};
use rustc_hash::FxHashMap;
use vcommon::{Value, json};

/// Byte -> printable char map (the inverse of rten-text's public `char_to_byte`).
pub struct ByteChars {
    pub to_char: [char; 256],
    pub to_byte: HashMap<char, u8>,
}

impl ByteChars {
    pub fn new() -> ByteChars {
        let to_byte = char_to_byte();
        let mut to_char = ['\0'; 256];
        for (c, b) in &to_byte {
            to_char[*b as usize] = *c;
        }
        ByteChars { to_char, to_byte }
    }

    /// Encode a byte string in the vocabulary representation.
    pub fn encode(&self, bytes: &[u8]) -> String {
        bytes.iter().map(|b| self.to_char[*b as usize]).collect()
    }

    /// Decode a vocabulary string back to bytes; chars that are not byte
    /// representations are reported as -1.
    pub fn decode(&self, s: &str) -> Vec<i64> {
        s.chars()
            .map(|c| self.to_byte.get(&c).map(|b| *b as i64).unwrap_or(-1))
            .collect()
    }
}

pub fn bytes_json(b: &[u8]) -> Value {
    Value::Array(b.iter().map(|x| json!(*x)).collect())
}

pub fn usizes_json(b: &[usize]) -> Value {
    Value::Array(b.iter().map(|x| json!(*x)).collect())
}

pub fn ids_json(b: &[u32]) -> Value {
    Value::Array(b.iter().map(|x| json!(*x)).collect())
}

/// How the vocabulary of a `Bpe` is supplied.
pub enum VocabMode<'a> {
    /// `BpeOptions::vocab = None`: ids derived from the merge list.
    Derived,
    /// Explicit vocabulary: `byte_ids[b]` for single bytes, `product_ids[i]`
    /// for the concatenation of merge entry i (entries with equal products
    /// must be given equal ids).
    Explicit {
        byte_ids: &'a [u32; 256],
        product_ids: &'a [u32],
        extra: &'a [(Vec<u8>, u32)],
    },
}

/// Build a `Bpe` whose merge list is `merges` (pairs of byte strings).
pub fn build_bpe(
    bc: &ByteChars,
    merges: &[(Vec<u8>, Vec<u8>)],
    mode: VocabMode,
    added: &[(u32, String)],
    ignore_merges: bool,
) -> Result<Bpe, String> {
    let enc: Vec<(Cow<str>, Cow<str>)> = merges
        .iter()
        .map(|(a, b)| (Cow::Owned(bc.encode(a)), Cow::Owned(bc.encode(b))))
        .collect();
    let vocab = match mode {
        VocabMode::Derived => None,
        VocabMode::Explicit {
            byte_ids,
            product_ids,
            extra,
        } => {
            let mut v: FxHashMap<String, u32> = FxHashMap::default();
            for b in 0..256usize {
                v.insert(bc.to_char[b].to_string(), byte_ids[b]);
            }
            for (i, (a, b)) in merges.iter().enumerate() {
                let mut p = a.clone();
                p.extend_from_slice(b);
                v.insert(bc.encode(&p), product_ids[i]);
            }
            for (p, id) in extra {
                v.insert(bc.encode(p), *id);
            }
            Some(v)
        }
    };
    let added_tokens: FxHashMap<u32, String> = added.iter().cloned().collect();
    Bpe::new(BpeOptions {
        merges: &enc,
        vocab,
        added_tokens,
        end_of_word_suffix: None,
        ignore_merges,
    })
    .map_err(|e| format!("{e}"))
}

/// Token ids as `[id >> 16, id & 0xffff]` pairs (TLC integers are 32-bit; u32 ids up to
/// 2^32 - 1 are compared as pairs of small integers).
pub fn ids_hl_json(b: &[u32]) -> Value {
    Value::Array(b.iter().map(|x| json!([x >> 16, x & 0xffff])).collect())
}

pub fn id_hl(x: u32) -> Value {
    json!([x >> 16, x & 0xffff])
}

/// A seeded, injective assignment of token ids for an explicit vocabulary.
pub struct IdPlan {
    pub scheme: String,
    pub byte_ids: [u32; 256],
    /// id of the product of merge entry i (entries with the same product share an id)
    pub product_ids: Vec<u32>,
}

/// Anchors of the id space: ids are placed at / just above these values, or just below the two
/// "top" anchors (2^31 and the largest `TokenId`).
const ANCHORS: &[(u32, &str)] = &[
    (0, "0"),
    (1 << 8, "2^8"),
    (1 << 15, "2^15"),
    ((1 << 16) - 1, "2^16-1"),
    (1 << 16, "2^16"),
    ((1 << 16) + 1, "2^16+1"),
    (1 << 17, "2^17"),
    (1 << 24, "2^24"),
    (1 << 31, "2^31"),
];
const TOPS: &[(u32, &str)] = &[((1u32 << 31) - 1, "2^31-1"), (u32::MAX, "u32::MAX")];

/// Assign ids to the 256 byte tokens and to the products of `merges`, avoiding `taken`.
/// Byte tokens: byte value, a permutation of 0..256, an anchor + permutation, or counting down
/// from a top anchor.  Products: dense after the bytes, anchor + index, counting down from a top
/// anchor, sparse random u32, or "stride 2^16": (k << 16) | (id of a byte that occurs in the
/// texts), i.e. large ids whose low 16 bits coincide with other tokens' ids.
/// `dense_only` gives the small dense assignment only.
pub fn assign_ids(
    rng: &mut vcommon::Rng,
    merges: &[(Vec<u8>, Vec<u8>)],
    hot: &[u8],
    taken: &[u32],
    dense_only: bool,
) -> IdPlan {
    use std::collections::{HashMap, HashSet};
    let mut used: HashSet<u32> = taken.iter().copied().collect();
    let mut perm: Vec<u32> = (0..256).collect();
    let bmode = if dense_only { rng.below(2) } else { rng.below(5) };
    if bmode != 0 {
        rng.shuffle(&mut perm);
    }
    let mut byte_ids = [0u32; 256];
    let bname = match bmode {
        0 => "byte_value".to_string(),
        1 => "perm".to_string(),
        2 | 3 => {
            let (a, n) = *rng.pick(ANCHORS);
            for p in perm.iter_mut() {
                *p += a;
            }
            format!("{n}+perm")
        }
        _ => {
            let (a, n) = *rng.pick(TOPS);
            for p in perm.iter_mut() {
                *p = a - *p;
            }
            format!("{n}-perm")
        }
    };
    for b in 0..256 {
        let mut id = perm[b];
        while used.contains(&id) {
            id = id.wrapping_add(257);
        }
        used.insert(id);
        byte_ids[b] = id;
    }
    let pmode = if dense_only { 0 } else { rng.below(8) };
    let (pa, pan) = *rng.pick(ANCHORS);
    let (pt, ptn) = *rng.pick(TOPS);
    let max_byte = *byte_ids.iter().max().unwrap();
    let pname = match pmode {
        0 => "dense_after_bytes".to_string(),
        1 | 2 => format!("{pan}+index"),
        3 => format!("{ptn}-index"),
        4 => "sparse_random".to_string(),
        _ => "stride_2^16|byte_id".to_string(),
    };
    let mut prod_id: HashMap<Vec<u8>, u32> = HashMap::new();
    let mut j: u32 = 0;
    let product_ids = merges
        .iter()
        .map(|(a, b)| {
            let mut p = a.clone();
            p.extend_from_slice(b);
            if let Some(id) = prod_id.get(&p) {
                return *id;
            }
            let mut id = match pmode {
                0 => {
                    if max_byte < u32::MAX - 100_000 {
                        max_byte + 1 + j
                    } else {
                        1000 + j
                    }
                }
                1 | 2 => pa + j,
                3 => pt - j,
                4 => rng.next_u64() as u32,
                _ => {
                    let low = if hot.is_empty() || rng.chance(1, 4) {
                        byte_ids[rng.below(256)]
                    } else {
                        byte_ids[*rng.pick(hot) as usize]
                    } & 0xffff;
                    ((1 + rng.below(3) as u32) << 16) | low
                }
            };
            while used.contains(&id) {
                id = if pmode >= 5 { id.wrapping_add(1 << 16) } else { id.wrapping_add(1) };
            }
            used.insert(id);
            j += 1;
            prod_id.insert(p, id);
            id
        })
        .collect();
    IdPlan {
        scheme: format!("bytes={bname};products={pname}"),
        byte_ids,
        product_ids,
    }
}
