//! Helpers shared by the vh-text engines: the byte <-> printable-char
//! representation rten-text uses for BPE vocabularies, and Bpe construction.

use std::borrow::Cow;
use std::collections::HashMap;

use rten_text::models::{Bpe, BpeOptions, char_to_byte};
use rustc_hash::FxHashMap;
use vcommon::{Value, json};

/// Byte -> printable char map (the inverse of rten-text's public `char_to_byte`).
pub struct ByteChars {
    pub to_char: [char; 256],
    pub to_byte: HashMap<char, u8>,
}

impl ByteChars {
    pub fn new() -> ByteChars {
        let to_byte = char_to_byte();
        let mut to_char = ['\0'; 256];
        for (c, b) in &to_byte {
            to_char[*b as usize] = *c;
        }
        ByteChars { to_char, to_byte }
    }

    /// Encode a byte string in the vocabulary representation.
    pub fn encode(&self, bytes: &[u8]) -> String {
        bytes.iter().map(|b| self.to_char[*b as usize]).collect()
    }

    /// Decode a vocabulary string back to bytes; chars that are not byte
    /// representations are reported as -1.
    pub fn decode(&self, s: &str) -> Vec<i64> {
        s.chars()
            .map(|c| self.to_byte.get(&c).map(|b| *b as i64).unwrap_or(-1))
            .collect()
    }
}

pub fn bytes_json(b: &[u8]) -> Value {
    Value::Array(b.iter().map(|x| json!(*x)).collect())
}

pub fn usizes_json(b: &[usize]) -> Value {
    Value::Array(b.iter().map(|x| json!(*x)).collect())
}

pub fn ids_json(b: &[u32]) -> Value {
    Value::Array(b.iter().map(|x| json!(*x)).collect())
}

/// How the vocabulary of a `Bpe` is supplied.
pub enum VocabMode<'a> {
    /// `BpeOptions::vocab = None`: ids derived from the merge list.
    Derived,
    /// Explicit vocabulary: `byte_ids[b]` for single bytes, `product_ids[i]`
    /// for the concatenation of merge entry i (entries with equal products
    /// must be given equal ids).
    Explicit {
        byte_ids: &'a [u32; 256],
        product_ids: &'a [u32],
        extra: &'a [(Vec<u8>, u32)],
    },
}

/// Build a `Bpe` whose merge list is `merges` (pairs of byte strings).
pub fn build_bpe(
    bc: &ByteChars,
    merges: &[(Vec<u8>, Vec<u8>)],
    mode: VocabMode,
    added: &[(u32, String)],
    ignore_merges: bool,
) -> Result<Bpe, String> {
    let enc: Vec<(Cow<str>, Cow<str>)> = merges
        .iter()
        .map(|(a, b)| (Cow::Owned(bc.encode(a)), Cow::Owned(bc.encode(b))))
        .collect();
    let vocab = match mode {
        VocabMode::Derived => None,
        VocabMode::Explicit {
            byte_ids,
            product_ids,
            extra,
        } => {
            let mut v: FxHashMap<String, u32> = FxHashMap::default();
            for b in 0..256usize {
                v.insert(bc.to_char[b].to_string(), byte_ids[b]);
            }
            for (i, (a, b)) in merges.iter().enumerate() {
                let mut p = a.clone();
                p.extend_from_slice(b);
                v.insert(bc.encode(&p), product_ids[i]);
            }
            for (p, id) in extra {
                v.insert(bc.encode(p), *id);
            }
            Some(v)
        }
    };
    let added_tokens: FxHashMap<u32, String> = added.iter().cloned().collect();
    Bpe::new(BpeOptions {
        merges: &enc,
        vocab,
        added_tokens,
        end_of_word_suffix: None,
        ignore_merges,
    })
    .map_err(|e| format!("{e}"))
}
