//! C11 engine: replay TLC-generated expression trees on the real
//! `rten_shape_inference::SymExpr` and record, for every node of every tree,
//! what `range()`, `is_positive()` and `simplify()` returned.  Nothing is
//! judged here: `specs/shape/Trace_SymExpr.tla` evaluates the trees under all
//! symbol assignments and decides.
//!
//! vh-shape symexpr --trees <jsonl> --out <prefix> [--shards K]
//!
//! Tree JSON (same shape as specs/lib/SymExpr.tla records):
//!   {"op": "Val"|"Var"|"Neg"|<binop>, "v": int, "s": name, "pos": bool, "a": [children]}
//! Output `<prefix>.<k>.ndjson`, per tree two records:
//!   {"ev":"case","id":n,"e":<tree>}
//!   {"ev":"res","id":n,"t":<annotated tree>}
//! where every node of the annotated tree additionally carries
//!   lo, hi (range(), rok=false if it panicked), ip (is_positive(), iok),
//!   simp (simplify() as a plain tree, sok=false and a `Val 0` placeholder if it panicked).

use std::sync::Arc;

use rayon::prelude::*;
use rten_shape_inference::{SymExpr, Symbol};
use vcommon::{Trace, Value, arg, arg_usize, guarded, json, quiet_panics, read_json_lines};

fn build(t: &Value) -> SymExpr {
    let op = t["op"].as_str().expect("op");
    let kid = |i: usize| Arc::new(build(&t["a"][i]));
    match op {
        "Val" => SymExpr::Value(t["v"].as_i64().expect("v") as i32),
        "Var" => SymExpr::Var(Arc::new(Symbol {
            name: t["s"].as_str().expect("s").to_string(),
            positive: t["pos"].as_bool().expect("pos"),
            synthetic: false,
        })),
        "Neg" => SymExpr::Neg(kid(0)),
        "Add" => SymExpr::Add(kid(0), kid(1)),
        "Sub" => SymExpr::Sub(kid(0), kid(1)),
        "Mul" => SymExpr::Mul(kid(0), kid(1)),
        "Div" => SymExpr::Div(kid(0), kid(1)),
        "DivCeil" => SymExpr::DivCeil(kid(0), kid(1)),
        "Max" => SymExpr::Max(kid(0), kid(1)),
        "Min" => SymExpr::Min(kid(0), kid(1)),
        "Broadcast" => SymExpr::Broadcast(kid(0), kid(1)),
        _ => panic!("unknown op {op}"),
    }
}

fn node(op: &str, v: i32, s: &str, pos: bool, a: Vec<Value>) -> Value {
    json!({"op": op, "v": v, "s": s, "pos": pos, "a": a})
}

/// Plain tree of a SymExpr.
pub fn plain(e: &SymExpr) -> Value {
    let bin = |op: &str, l: &SymExpr, r: &SymExpr| node(op, 0, "", false, vec![plain(l), plain(r)]);
    match e {
        SymExpr::Value(x) => node("Val", *x, "", false, vec![]),
        SymExpr::Var(sym) => node("Var", 0, &sym.name, sym.positive, vec![]),
        SymExpr::Neg(x) => node("Neg", 0, "", false, vec![plain(x)]),
        SymExpr::Add(l, r) => bin("Add", l, r),
        SymExpr::Sub(l, r) => bin("Sub", l, r),
        SymExpr::Mul(l, r) => bin("Mul", l, r),
        SymExpr::Div(l, r) => bin("Div", l, r),
        SymExpr::DivCeil(l, r) => bin("DivCeil", l, r),
        SymExpr::Max(l, r) => bin("Max", l, r),
        SymExpr::Min(l, r) => bin("Min", l, r),
        SymExpr::Broadcast(l, r) => bin("Broadcast", l, r),
    }
}

/// Annotated tree: the plain node fields plus what the real code reports for the
/// subexpression rooted at this node.
fn annotate(e: &SymExpr) -> Value {
    let mut n = plain_shallow(e);
    let kids: Vec<Value> = match e {
        SymExpr::Value(_) | SymExpr::Var(_) => vec![],
        SymExpr::Neg(x) => vec![annotate(x)],
        SymExpr::Add(l, r)
        | SymExpr::Sub(l, r)
        | SymExpr::Mul(l, r)
        | SymExpr::Div(l, r)
        | SymExpr::DivCeil(l, r)
        | SymExpr::Max(l, r)
        | SymExpr::Min(l, r)
        | SymExpr::Broadcast(l, r) => vec![annotate(l), annotate(r)],
    };
    let m = n.as_object_mut().unwrap();
    m.insert("a".into(), Value::Array(kids));
    match guarded(|| e.range()) {
        Ok((lo, hi)) => {
            m.insert("rok".into(), json!(true));
            m.insert("lo".into(), json!(lo));
            m.insert("hi".into(), json!(hi));
        }
        Err(_) => {
            m.insert("rok".into(), json!(false));
            m.insert("lo".into(), json!(0));
            m.insert("hi".into(), json!(0));
        }
    }
    match guarded(|| e.is_positive()) {
        Ok(p) => {
            m.insert("iok".into(), json!(true));
            m.insert("ip".into(), json!(p));
        }
        Err(_) => {
            m.insert("iok".into(), json!(false));
            m.insert("ip".into(), json!(false));
        }
    }
    match guarded(|| e.simplify()) {
        Ok(s) => {
            m.insert("sok".into(), json!(true));
            m.insert("simp".into(), plain(&s));
        }
        Err(_) => {
            m.insert("sok".into(), json!(false));
            m.insert("simp".into(), node("Val", 0, "", false, vec![]));
        }
    }
    n
}

fn plain_shallow(e: &SymExpr) -> Value {
    match e {
        SymExpr::Value(x) => node("Val", *x, "", false, vec![]),
        SymExpr::Var(sym) => node("Var", 0, &sym.name, sym.positive, vec![]),
        SymExpr::Neg(_) => node("Neg", 0, "", false, vec![]),
        SymExpr::Add(..) => node("Add", 0, "", false, vec![]),
        SymExpr::Sub(..) => node("Sub", 0, "", false, vec![]),
        SymExpr::Mul(..) => node("Mul", 0, "", false, vec![]),
        SymExpr::Div(..) => node("Div", 0, "", false, vec![]),
        SymExpr::DivCeil(..) => node("DivCeil", 0, "", false, vec![]),
        SymExpr::Max(..) => node("Max", 0, "", false, vec![]),
        SymExpr::Min(..) => node("Min", 0, "", false, vec![]),
        SymExpr::Broadcast(..) => node("Broadcast", 0, "", false, vec![]),
    }
}

pub fn main() {
    quiet_panics();
    let trees = read_json_lines(&arg("--trees").expect("--trees"));
    let prefix = arg("--out").expect("--out");
    let shards = arg_usize("--shards", 1).max(1);
    // The real code runs here (in parallel); the results are written in input order.
    let results: Vec<(Value, Value)> = trees
        .par_iter()
        .map(|t| {
            let e = build(t);
            // The case record is produced from the tree the harness was given, the
            // result from the expression that was actually built.
            (t.clone(), annotate(&e))
        })
        .collect();
    let mut traces: Vec<Trace> = (0..shards)
        .map(|k| Trace::create(&format!("{prefix}.{k}.ndjson")))
        .collect();
    for (i, (t, r)) in results.into_iter().enumerate() {
        let tr = &mut traces[i % shards];
        tr.emit(json!({"ev": "case", "id": i, "e": t}));
        tr.emit(json!({"ev": "res", "id": i, "t": r}));
    }
    for t in traces.iter_mut() {
        t.flush();
    }
}
