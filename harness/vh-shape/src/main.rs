//! vh-shape: engines for the symbolic-expression library (C11).
mod symexpr;

fn main() {
    let cmd = std::env::args().nth(1).unwrap_or_default();
    match cmd.as_str() {
        "symexpr" => symexpr::main(),
        _ => {
            eprintln!("usage: vh-shape <symexpr> [options]");
            std::process::exit(2);
        }
    }
}
