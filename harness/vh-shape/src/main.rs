fn main() {
    eprintln!("usage: vh-shape <subcommand> [options]");
    std::process::exit(2);
}
