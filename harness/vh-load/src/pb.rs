//! A tiny protobuf document model with *mutable length prefixes*.
//!
//! A message is a tree of `Item`s. Every length-delimited item is a "site":
//! the encoder can be told to write a different length varint for one site
//! (the content stays as it is), where the written length may depend on the
//! position right after the length varint (`p`) and on the total file length
//! (`n`), e.g. `2^64 - p` or `remaining + 1`.

use vcommon::onnx::varint;

#[derive(Clone, Debug)]
pub enum Item {
    Varint(u32, u64),
    Fixed32(u32, [u8; 4]),
    Fixed64(u32, [u8; 8]),
    /// Length-delimited leaf. `kind` is how the ONNX decoder consumes it:
    /// "string" | "bytes" | "skip" | "packed".
    Bytes(u32, &'static str, Vec<u8>),
    /// Embedded message the decoder descends into.
    Msg(u32, Vec<Item>),
    /// Group start/end tags (wire types 3, 4), no payload.
    Group(u32, u32),
}

/// Length expression for the mutated site.
#[derive(Clone, Copy, Debug, PartialEq)]
pub enum LenExpr {
    /// true length + d
    True(i64),
    /// remaining bytes of the file after the length varint + d
    Rem(i64),
    /// absolute value
    Abs(u64),
    /// 2^63 + d
    Half(i64),
    /// 2^63 + p + d
    HalfPos(i64),
    /// 2^64 - p + d  (wraps `p + len` to d)
    NegPos(i64),
}

impl LenExpr {
    pub fn name(&self) -> String {
        match self {
            LenExpr::True(d) => format!("true{:+}", d),
            LenExpr::Rem(d) => format!("rem{:+}", d),
            LenExpr::Abs(v) => format!("abs:{}", v),
            LenExpr::Half(d) => format!("2^63{:+}", d),
            LenExpr::HalfPos(d) => format!("2^63+pos{:+}", d),
            LenExpr::NegPos(d) => format!("2^64-pos{:+}", d),
        }
    }
    fn eval(&self, true_len: u64, p: u64, n: u64) -> Option<u64> {
        let v: i128 = match *self {
            LenExpr::True(d) => true_len as i128 + d as i128,
            LenExpr::Rem(d) => n as i128 - p as i128 + d as i128,
            LenExpr::Abs(v) => v as i128,
            LenExpr::Half(d) => (1i128 << 63) + d as i128,
            LenExpr::HalfPos(d) => (1i128 << 63) + p as i128 + d as i128,
            LenExpr::NegPos(d) => (1i128 << 64) - p as i128 + d as i128,
        };
        if v < 0 || v > u64::MAX as i128 {
            None
        } else {
            Some(v as u64)
        }
    }
}

fn varint_len(v: u64) -> usize {
    let mut b = Vec::new();
    varint(&mut b, v);
    b.len()
}

/// Description of one length-delimited site of an encoded document.
#[derive(Clone, Debug)]
pub struct Site {
    pub kind: &'static str,
    pub depth: usize,
    /// Offset of the field's tag.
    pub start: usize,
    /// Position right after the length varint.
    pub p: usize,
    /// True content length.
    pub true_len: usize,
    /// Length written.
    pub len: u64,
}

fn body_len(items: &[Item]) -> usize {
    encode_plain(items).len()
}

pub fn encode_plain(items: &[Item]) -> Vec<u8> {
    let mut out = Vec::new();
    let mut sites = Vec::new();
    let mut counter = 0;
    enc(items, &mut out, 0, &mut counter, usize::MAX, 0, &mut sites);
    out
}

fn tag(out: &mut Vec<u8>, field: u32, wire: u32) {
    varint(out, ((field as u64) << 3) | wire as u64);
}

/// Encode; site number `target` (DFS order over length-delimited items) gets
/// the length `forced` instead of its true length.
fn enc(
    items: &[Item],
    out: &mut Vec<u8>,
    depth: usize,
    counter: &mut usize,
    target: usize,
    forced: u64,
    sites: &mut Vec<Site>,
) {
    for it in items {
        match it {
            Item::Varint(f, v) => {
                tag(out, *f, 0);
                varint(out, *v);
            }
            Item::Fixed32(f, b) => {
                tag(out, *f, 5);
                out.extend_from_slice(b);
            }
            Item::Fixed64(f, b) => {
                tag(out, *f, 1);
                out.extend_from_slice(b);
            }
            Item::Group(f, w) => tag(out, *f, *w),
            Item::Bytes(f, kind, data) => {
                let start = out.len();
                tag(out, *f, 2);
                let idx = *counter;
                *counter += 1;
                let len = if idx == target { forced } else { data.len() as u64 };
                varint(out, len);
                sites.push(Site {
                    kind,
                    depth,
                    start,
                    p: out.len(),
                    true_len: data.len(),
                    len,
                });
                out.extend_from_slice(data);
            }
            Item::Msg(f, sub) => {
                let start = out.len();
                tag(out, *f, 2);
                let idx = *counter;
                *counter += 1;
                // Body with its own sites; positions fixed up afterwards.
                let mut body = Vec::new();
                let mut sub_sites = Vec::new();
                enc(sub, &mut body, depth + 1, counter, target, forced, &mut sub_sites);
                let len = if idx == target { forced } else { body.len() as u64 };
                varint(out, len);
                let p = out.len();
                sites.push(Site {
                    kind: "msg",
                    depth,
                    start,
                    p,
                    true_len: body.len(),
                    len,
                });
                for mut s in sub_sites {
                    s.start += p;
                    s.p += p;
                    sites.push(s);
                }
                out.extend_from_slice(&body);
            }
        }
    }
}


/// All sites of the plain encoding (sorted in DFS order = site index).
pub fn sites(items: &[Item]) -> Vec<Site> {
    let mut out = Vec::new();
    let mut sites = Vec::new();
    let mut c = 0;
    enc(items, &mut out, 0, &mut c, usize::MAX, 0, &mut sites);
    sort_sites(sites)
}

fn sort_sites(mut s: Vec<Site>) -> Vec<Site> {
    // DFS order == order of `start`; parent before child (same start impossible).
    s.sort_by_key(|x| x.start);
    s
}

/// Encode with site `target` carrying the length `expr`. Parent lengths are
/// kept consistent with the new size of the length varint (so that only the
/// one site is wrong). Returns the bytes and the mutated site.
pub fn encode_mutated(items: &[Item], target: usize, expr: LenExpr) -> Option<(Vec<u8>, Site)> {
    // The written value depends on p and n, which depend on the varint size:
    // find a consistent size.
    let plain_sites = sites(items);
    let true_len = plain_sites.get(target)?.true_len as u64;
    for size in 1..=10usize {
        // Try a placeholder value with this encoded size.
        let placeholder: u64 = if size == 10 { u64::MAX } else { (1u64 << (7 * size)) - 1 };
        let mut out = Vec::new();
        let mut ss = Vec::new();
        let mut c = 0;
        enc(items, &mut out, 0, &mut c, target, placeholder, &mut ss);
        let ss = sort_sites(ss);
        let site = &ss[target];
        let n = out.len() as u64;
        let Some(v) = expr.eval(true_len, site.p as u64, n) else {
            continue;
        };
        if varint_len(v) != size {
            continue;
        }
        let mut out = Vec::new();
        let mut ss = Vec::new();
        let mut c = 0;
        enc(items, &mut out, 0, &mut c, target, v, &mut ss);
        let ss = sort_sites(ss);
        return Some((out, ss[target].clone()));
    }
    None
}

#[allow(dead_code)]
pub fn total_len(items: &[Item]) -> usize {
    body_len(items)
}

/// Encode with site `target` declaring `declared` bytes (its content stays as
/// it is) and EVERY enclosing message inflated by the same amount, so that
/// each field still ends inside its parent and only the real input is short.
/// Returns `None` if an ancestor's length would not fit in a u64.
pub fn encode_inflated(items: &[Item], target: usize, declared: u64) -> Option<(Vec<u8>, Site)> {
    fn go(items: &[Item], out: &mut Vec<u8>, depth: usize, counter: &mut usize, target: usize, declared: u64,
          found: &mut Option<Site>, delta: &mut Option<u128>, overflow: &mut bool) {
        for it in items {
            match it {
                Item::Varint(f, v) => {
                    tag(out, *f, 0);
                    varint(out, *v);
                }
                Item::Fixed32(f, b) => {
                    tag(out, *f, 5);
                    out.extend_from_slice(b);
                }
                Item::Fixed64(f, b) => {
                    tag(out, *f, 1);
                    out.extend_from_slice(b);
                }
                Item::Group(f, w) => tag(out, *f, *w),
                Item::Bytes(f, kind, data) => {
                    let start = out.len();
                    tag(out, *f, 2);
                    let idx = *counter;
                    *counter += 1;
                    if idx == target {
                        varint(out, declared);
                        *found = Some(Site { kind, depth, start, p: out.len(), true_len: data.len(), len: declared });
                        *delta = Some(declared as u128 - (data.len() as u128).min(declared as u128));
                    } else {
                        varint(out, data.len() as u64);
                    }
                    out.extend_from_slice(data);
                }
                Item::Msg(f, sub) => {
                    let start = out.len();
                    tag(out, *f, 2);
                    let idx = *counter;
                    *counter += 1;
                    let mut body = Vec::new();
                    let mut sub_found = None;
                    let mut sub_delta = None;
                    go(sub, &mut body, depth + 1, counter, target, declared, &mut sub_found, &mut sub_delta, overflow);
                    let len: u128 = if idx == target {
                        *delta = Some(declared as u128 - (body.len() as u128).min(declared as u128));
                        declared as u128
                    } else if let Some(d) = sub_delta {
                        *delta = Some(d);
                        body.len() as u128 + d
                    } else {
                        body.len() as u128
                    };
                    if len > u64::MAX as u128 {
                        *overflow = true;
                    }
                    varint(out, len as u64);
                    let p = out.len();
                    if idx == target {
                        *found = Some(Site { kind: "msg", depth, start, p, true_len: body.len(), len: declared });
                    } else if let Some(mut s) = sub_found {
                        s.start += p;
                        s.p += p;
                        *found = Some(s);
                    }
                    out.extend_from_slice(&body);
                }
            }
        }
    }
    let mut out = Vec::new();
    let mut counter = 0;
    let mut found = None;
    let mut delta = None;
    let mut overflow = false;
    go(items, &mut out, 0, &mut counter, target, declared, &mut found, &mut delta, &mut overflow);
    if overflow {
        return None;
    }
    found.map(|s| (out, s))
}

pub fn hex(b: &[u8]) -> String {
    let mut s = String::with_capacity(b.len() * 2);
    for x in b {
        s.push_str(&format!("{:02x}", x));
    }
    s
}

pub fn unhex(s: &str) -> Vec<u8> {
    (0..s.len() / 2)
        .map(|i| u8::from_str_radix(&s[2 * i..2 * i + 2], 16).unwrap())
        .collect()
}
