mod child;
mod extdata;
mod fuzz;
mod pb;
mod proto;

fn main() {
    let cmd = std::env::args().nth(1).unwrap_or_default();
    match cmd.as_str() {
        "proto" => proto::main_proto(),
        "proto-batch" => proto::main_batch_child(),
        "extdata" => extdata::main_extdata(),
        "extdata-batch" => extdata::main_batch_child(),
        "fuzz" => fuzz::main_fuzz(),
        "fuzz-batch" => fuzz::main_batch_child(),
        _ => {
            eprintln!("usage: vh-load <proto|extdata|fuzz> [options]");
            std::process::exit(2);
        }
    }
}
