mod child;
mod extdata;
mod fuzz;
mod pb;
mod proto;

/// Allocator wrapper that records the largest single allocation requested
/// (observation only: "memory reserved in proportion to a declared length").
pub mod track {
    use std::alloc::{GlobalAlloc, Layout, System};
    use std::sync::atomic::{AtomicUsize, Ordering};

    pub struct Tracking;
    static MAX_REQ: AtomicUsize = AtomicUsize::new(0);

    unsafe impl GlobalAlloc for Tracking {
        unsafe fn alloc(&self, l: Layout) -> *mut u8 {
            MAX_REQ.fetch_max(l.size(), Ordering::Relaxed);
            unsafe { System.alloc(l) }
        }
        unsafe fn alloc_zeroed(&self, l: Layout) -> *mut u8 {
            MAX_REQ.fetch_max(l.size(), Ordering::Relaxed);
            unsafe { System.alloc_zeroed(l) }
        }
        unsafe fn dealloc(&self, p: *mut u8, l: Layout) {
            unsafe { System.dealloc(p, l) }
        }
        unsafe fn realloc(&self, p: *mut u8, l: Layout, new_size: usize) -> *mut u8 {
            MAX_REQ.fetch_max(new_size, Ordering::Relaxed);
            unsafe { System.realloc(p, l, new_size) }
        }
    }

    pub fn reset() {
        MAX_REQ.store(0, Ordering::Relaxed);
    }
    pub fn max_request() -> u64 {
        MAX_REQ.load(Ordering::Relaxed) as u64
    }
}

#[global_allocator]
static ALLOC: track::Tracking = track::Tracking;

fn main() {
    let cmd = std::env::args().nth(1).unwrap_or_default();
    match cmd.as_str() {
        "proto" => proto::main_proto(),
        "proto-batch" => proto::main_batch_child(),
        "extdata" => extdata::main_extdata(),
        "extdata-batch" => extdata::main_batch_child(),
        "fuzz" => fuzz::main_fuzz(),
        "fuzz-batch" => fuzz::main_batch_child(),
        _ => {
            eprintln!("usage: vh-load <proto|extdata|fuzz> [options]");
            std::process::exit(2);
        }
    }
}
