fn main() {
    eprintln!("usage: vh-load <subcommand> [options]");
    std::process::exit(2);
}
