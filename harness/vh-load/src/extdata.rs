//! C21 engine: replay TLC-generated external-data locations and
//! (offset, length) pairs on the three real loaders
//! (`ModelOptions::load_file` -> FileLoader, `load_mmap` -> MmapLoader,
//! `external_data(..)` + `load` -> MemLoader) and record what was loaded.
//!
//! Trace (validated by specs/load/Trace_ExtData.tla):
//!   {"ev":"env",  flen, memid, files:[{dir,name,id}]}
//!   {"ev":"case", id, loader, kind, t:[tokens], loc, off:[limbs], len:[limbs]}
//!   {"ev":"res",  outcome, data:[bytes], err}

use std::io::Write;
use std::path::{Path, PathBuf};

use rayon::prelude::*;
use vcommon::onnx::{self, f_bytes, f_str, f_varint};
use vcommon::{Trace, Value, arg, arg_or, arg_usize, json, limbs, read_json_lines};

use crate::child::{ItemResult, batch_child_main, run_batch};

pub const FLEN: usize = 64;
const MEM_ID: u64 = 50;

/// (directory, name used by the spec, file number). Directory "model" is the
/// directory of the model file, "sub" is model/sub, "root" its parent.
const FILES: &[(&str, &str, u64)] = &[
    ("model", "w.data", 1),
    ("model", "in.data", 2),
    ("model", "w.onnx_data_1", 3),
    ("model", "w.txt", 4),
    ("model", "w", 5),
    ("model", "u.data", 6),
    ("model", ".data", 7),
    ("model", "\\w.data", 8),
    ("model", "C:w.data", 9),
    ("model", "..w.data", 10),
    ("model", ".w.data", 11),
    ("sub", "in.data", 20),
    ("sub", "w.data", 21),
    ("root", "secret.data", 30),
    ("root", "w.data", 31),
];

fn byte_of(id: u64, i: u64) -> u8 {
    ((id * 37 + i * 7 + 11) % 251) as u8
}

fn content(id: u64) -> Vec<u8> {
    (0..FLEN as u64).map(|i| byte_of(id, i)).collect()
}

/// Text of a token on the real file system.
fn real_token(t: &str, root: &Path) -> String {
    match t {
        "u.data" => "\u{e9}.data".to_string(),
        "ABS" => root.join("secret.data").to_string_lossy().to_string(),
        _ => t.to_string(),
    }
}

fn real_name(name: &str) -> String {
    name.replace("u.data", "\u{e9}.data")
}

fn make_tree(root: &Path) {
    std::fs::create_dir_all(root.join("model/sub")).unwrap();
    for (dir, name, id) in FILES {
        let d: PathBuf = match *dir {
            "model" => root.join("model"),
            "sub" => root.join("model/sub"),
            _ => root.to_path_buf(),
        };
        std::fs::write(d.join(real_name(name)), content(*id)).unwrap();
    }
}

fn unlimbs(v: &Value) -> u64 {
    v.as_array()
        .map(|a| a.iter().rev().fold(0u64, |acc, x| (acc << 15) | x.as_u64().unwrap()))
        .unwrap_or(0)
}

/// ONNX model: initializer `w` (uint8, external data) -> Identity -> `y`.
fn model_bytes(location: &str, offset: u64, length: u64) -> Vec<u8> {
    let mut t = Vec::new();
    let dim = if length < (1 << 31) { length } else { 8 };
    f_varint(&mut t, 1, dim as i64);
    f_varint(&mut t, 2, onnx::UINT8 as i64);
    f_str(&mut t, 8, "w");
    for (k, v) in [
        ("location", location.to_string()),
        ("offset", offset.to_string()),
        ("length", length.to_string()),
    ] {
        let mut e = Vec::new();
        f_str(&mut e, 1, k);
        f_str(&mut e, 2, &v);
        f_bytes(&mut t, 13, &e);
    }
    f_varint(&mut t, 14, 1); // data_location = EXTERNAL
    let mut g = Vec::new();
    f_bytes(&mut g, 1, &onnx::Node::new("Identity", &["w"], &["y"]).encode());
    f_str(&mut g, 2, "g");
    f_bytes(&mut g, 5, &t);
    f_bytes(&mut g, 12, &onnx::ValueInfo::new("y", onnx::UINT8, None).encode());
    let mut m = Vec::new();
    f_varint(&mut m, 1, 9);
    f_str(&mut m, 2, "verif");
    f_bytes(&mut m, 7, &g);
    let mut ops = Vec::new();
    f_str(&mut ops, 1, "");
    f_varint(&mut ops, 2, 21);
    f_bytes(&mut m, 8, &ops);
    m
}

fn sanitize(s: &str) -> String {
    s.chars()
        .map(|c| if c.is_ascii_alphanumeric() || " _-:.,()".contains(c) { c } else { '?' })
        .take(80)
        .collect()
}

fn err_class(msg: &str) -> &'static str {
    for k in [
        "disallowed path",
        "file too short",
        "invalid data length",
        "invalid path",
        "io error",
        "does not match shape",
        "invalid external data",
        "incorrect alignment",
    ] {
        if msg.contains(k) {
            return k;
        }
    }
    "other"
}

/// Load through one loader; returns (outcome, bytes of constant `w`, error class).
fn load_one(root: &Path, loader: &str, location: &str, offset: u64, length: u64) -> (String, Vec<u8>, String) {
    let bytes = model_bytes(location, offset, length);
    let mpath = root.join("model/m.onnx");
    let res = std::panic::catch_unwind(std::panic::AssertUnwindSafe(|| {
        let mut opts = rten::ModelOptions::with_all_ops();
        opts.enable_optimization(false);
        let model = match loader {
            "file" => {
                std::fs::write(&mpath, &bytes).unwrap();
                opts.load_file(&mpath)
            }
            "mmap" => {
                std::fs::write(&mpath, &bytes).unwrap();
                unsafe { opts.load_mmap(&mpath) }
            }
            _ => {
                opts.external_data(location, content(MEM_ID));
                opts.load(bytes.clone())
            }
        };
        match model {
            Err(e) => ("err".to_string(), Vec::new(), err_class(&e.to_string()).to_string()),
            Ok(model) => {
                let mut data: Option<Vec<u8>> = None;
                for (_, node) in model.verif_graph().iter() {
                    if let rten::verif::Node::Constant(c) = node {
                        if c.name() == Some("w") {
                            if let rten::ValueView::UInt8Tensor(v) = c.as_view() {
                                data = Some(v.iter().copied().collect());
                            }
                        }
                    }
                }
                match data {
                    Some(d) => ("ok".to_string(), d, String::new()),
                    None => ("ok".to_string(), Vec::new(), "constant w not found".to_string()),
                }
            }
        }
    }));
    match res {
        Ok(r) => r,
        Err(e) => {
            let msg = if let Some(s) = e.downcast_ref::<&str>() {
                s.to_string()
            } else if let Some(s) = e.downcast_ref::<String>() {
                s.clone()
            } else {
                "panic".to_string()
            };
            ("panic".to_string(), Vec::new(), sanitize(&msg))
        }
    }
}

/// `vh-load extdata-batch <file> <from>`
pub fn main_batch_child() {
    crate::child::terse_panics();
    let dir = tempfile::tempdir().expect("temp dir");
    let root = dir.path().canonicalize().unwrap();
    make_tree(&root);
    batch_child_main(&|item: &Value| {
        let loader = item["loader"].as_str().unwrap_or("");
        let location: String = item["t"]
            .as_array()
            .map(|a| a.iter().map(|t| real_token(t.as_str().unwrap_or(""), &root)).collect::<Vec<_>>().join(""))
            .unwrap_or_default();
        let (outcome, data, err) = load_one(&root, loader, &location, unlimbs(&item["off"]), unlimbs(&item["len"]));
        println!("{}", json!({"ev": "res", "outcome": outcome, "data": data, "err": err}));
    });
}

const AS_LIMIT: u64 = 8 << 30;

/// `vh-load extdata --cases cases.jsonl --out trace.ndjson`
pub fn main_extdata() {
    let _scratch = crate::child::scratch_tmpdir();
    let out = arg_or("--out", "extdata.ndjson");
    let threads = arg_usize("--threads", 8);
    rayon::ThreadPoolBuilder::new().num_threads(threads).build_global().unwrap();
    let mut cases: Vec<Value> = Vec::new();
    if let Some(c) = arg("--only-case") {
        cases.push(serde_json::from_str(&c).expect("case json"));
    } else {
        let path = arg("--cases").expect("--cases");
        let max_tokens = arg_usize("--max-tokens", usize::MAX);
        for c in read_json_lines(&path) {
            if c["kind"] == "path" && c["t"].as_array().map(|a| a.len()).unwrap_or(0) > max_tokens {
                continue;
            }
            for loader in ["file", "mmap", "mem"] {
                let mut c = c.clone();
                c["loader"] = json!(loader);
                cases.push(c);
            }
        }
    }
    let chunk = 400usize;
    let nb = cases.len().div_ceil(chunk).max(1);
    let batches: Vec<Vec<usize>> = (0..nb).map(|b| (b..cases.len()).step_by(nb).collect()).collect();
    let dir = std::env::temp_dir();
    let pid = std::process::id();
    let res: Vec<Vec<(usize, ItemResult)>> = batches
        .par_iter()
        .enumerate()
        .map(|(ci, idxs)| {
            let path = dir.join(format!("vh-load-{pid}-ext-{ci}.jsonl"));
            {
                let mut f = std::io::BufWriter::new(std::fs::File::create(&path).unwrap());
                for &i in idxs {
                    writeln!(f, "{}", cases[i]).unwrap();
                }
            }
            let r = run_batch("extdata-batch", &path.to_string_lossy(), idxs.len(), 2000, 30_000, AS_LIMIT);
            let _ = std::fs::remove_file(&path);
            idxs.iter().cloned().zip(r.into_iter()).collect()
        })
        .collect();
    let mut results: Vec<Option<ItemResult>> = vec![None; cases.len()];
    for (i, r) in res.into_iter().flatten() {
        results[i] = Some(r);
    }
    let mut tr = Trace::create(&out);
    let files: Vec<Value> = FILES.iter().map(|(d, n, id)| json!({"dir": d, "name": n, "id": id})).collect();
    tr.emit(json!({"ev": "env", "flen": FLEN, "memid": MEM_ID, "files": files}));
    for (id, c) in cases.iter().enumerate() {
        let loc: String = c["t"].as_array().map(|a| a.iter().map(|t| t.as_str().unwrap_or("")).collect::<Vec<_>>().join("")).unwrap_or_default();
        tr.emit(json!({"ev": "case", "id": id, "build": crate::proto::build_name(), "loader": c["loader"], "kind": c["kind"], "t": c["t"], "loc": loc,
                       "off": limbs(unlimbs(&c["off"])), "len": limbs(unlimbs(&c["len"]))}));
        let r = results[id].as_ref().unwrap();
        let mut rec: Option<Value> = None;
        for l in &r.lines {
            if let Ok(v) = serde_json::from_str::<Value>(l) {
                if v["ev"] == "res" {
                    rec = Some(v);
                }
            }
        }
        let rec = match (r.status, rec) {
            ("done", Some(v)) => v,
            ("timeout", _) => json!({"ev": "res", "outcome": "timeout", "data": [], "err": ""}),
            ("signal", _) => json!({"ev": "res", "outcome": "abort", "data": [], "err": format!("signal {}", r.code)}),
            _ => json!({"ev": "res", "outcome": "panic", "data": [], "err": sanitize(&format!("exit {} {}", r.code, r.stderr))}),
        };
        tr.emit(rec);
    }
    tr.flush();
    println!("cases {}", cases.len());
}
