//! C38 engine: drive the real rten-onnx protobuf decoder with a tracing
//! reader underneath the crate's `LimitReader`, and black-box through
//! `ModelProto::parse_buf` / `parse_file` / `is_onnx_model` / `Model::load`,
//! every run in a child process with a timeout and an address-space limit.
//!
//! Trace (validated by specs/load/Trace_Proto.tla):
//!   {"ev":"case", id, n, gen, lenclass, site:{kind,depth,p,len,tlen}, b:[bytes]}
//!   {"ev":"run",  api}
//!   {"ev":"op",   k, len, p0, p1, ok}          (traced apis only)
//!   {"ev":"end",  api, outcome, nops, ret}

use std::io::Write;

use rayon::prelude::*;
use rten_onnx::onnx::{ModelProto, is_onnx_model};
use rten_onnx::protobuf::{
    DecodeMessage, FieldTypes, OwnedValues, ProtobufError, ReadValue, ValueReader,
};
use vcommon::{Rng, Trace, Value, arg, arg_or, arg_usize, json, limbs};

use crate::child::{ItemResult, batch_child_main, run_batch};
use crate::pb::{Item, LenExpr, Site, encode_mutated, encode_plain, hex, sites, unhex};

// ---------------------------------------------------------------- tracing

/// Panic payload used to stop a decode that exceeded the operation bound.
struct OpLimit;

/// `ReadValue` implementation that logs every primitive operation the
/// decoder issues to the wrapped reader.
struct TracingReader<R: ReadValue<Types = OwnedValues>> {
    inner: R,
    nops: u64,
    /// The decode is stopped once more than `budget` operations were issued.
    budget: u64,
}

impl<R: ReadValue<Types = OwnedValues>> TracingReader<R> {
    fn new(inner: R, budget: u64) -> Self {
        TracingReader {
            inner,
            nops: 0,
            budget,
        }
    }

    fn log(&mut self, k: &str, len: u64, p0: u64, ok: bool) {
        let p1 = self.inner.position();
        self.nops += 1;
        println!("{}", json!({"ev": "op", "k": k, "len": limbs(len), "p0": limbs(p0), "p1": limbs(p1), "ok": ok}));
        if self.nops > self.budget {
            // Linear bound exceeded: stop the decode here (unwinds to the
            // `guarded` call). The trace spec judges the operation count.
            std::panic::panic_any(OpLimit);
        }
    }
}

impl<R: ReadValue<Types = OwnedValues>> ReadValue for TracingReader<R> {
    type Types = OwnedValues;

    fn read_i32(&mut self) -> Result<i32, ProtobufError> {
        let p0 = self.inner.position();
        let r = self.inner.read_i32();
        self.log("i32", 4, p0, r.is_ok());
        r
    }
    fn read_i64(&mut self) -> Result<i64, ProtobufError> {
        let p0 = self.inner.position();
        let r = self.inner.read_i64();
        self.log("i64", 8, p0, r.is_ok());
        r
    }
    fn read_varint(&mut self) -> Result<u64, ProtobufError> {
        let p0 = self.inner.position();
        let r = self.inner.read_varint();
        self.log("varint", 0, p0, r.is_ok());
        r
    }
    fn read_bytes(&mut self, len: usize) -> Result<<Self::Types as FieldTypes>::Bytes, ProtobufError> {
        let p0 = self.inner.position();
        // The call may abort the process (allocation failure): log intent first.
        println!("{}", json!({"ev": "op", "k": "bytes_begin", "len": limbs(len as u64), "p0": limbs(p0), "p1": limbs(p0), "ok": false}));
        let r = self.inner.read_bytes(len);
        self.log("bytes", len as u64, p0, r.is_ok());
        r
    }
    fn read_string(&mut self, len: usize) -> Result<<Self::Types as FieldTypes>::String, ProtobufError> {
        let p0 = self.inner.position();
        println!("{}", json!({"ev": "op", "k": "string_begin", "len": limbs(len as u64), "p0": limbs(p0), "p1": limbs(p0), "ok": false}));
        let r = self.inner.read_string(len);
        self.log("string", len as u64, p0, r.is_ok());
        r
    }
    fn skip(&mut self, len: usize) -> Result<(), ProtobufError> {
        let p0 = self.inner.position();
        let r = self.inner.skip(len);
        self.log("skip", len as u64, p0, r.is_ok());
        r
    }
    fn position(&self) -> u64 {
        self.inner.position()
    }
}

/// Linear bound on primitive reader operations for an input of `n` bytes
/// (must equal `OpBound` in specs/load/ProtoReader.tla).
pub fn op_bound(n: usize) -> u64 {
    4 * n as u64 + 16
}

fn sanitize(s: &str) -> String {
    s.chars()
        .map(|c| if c.is_ascii_alphanumeric() || " _-:.,()".contains(c) { c } else { '?' })
        .take(120)
        .collect()
}

/// Run one API on `data`; prints `op` lines and returns (outcome, ret).
fn run_one(api: &str, data: &[u8]) -> (String, String) {
    let n = data.len();
    let budget = op_bound(n);
    let okerr = |r: Result<ModelProto, ProtobufError>| match r {
        Ok(_) => ("ok".to_string(), String::new()),
        Err(_) => ("err".to_string(), String::new()),
    };
    let res = std::panic::catch_unwind(std::panic::AssertUnwindSafe(|| match api {
        "traced_buf" => {
            let rd = TracingReader::new(ValueReader::from_buf(data), budget);
            okerr(ModelProto::decode(rd))
        }
        "traced_sniff" => {
            let rd = TracingReader::new(ValueReader::from_buf(data), budget);
            let is = is_onnx_model(rd);
            // A sniff has no error channel: "not ONNX" is its error outcome.
            (if is { "ok" } else { "err" }.to_string(), is.to_string())
        }
        "traced_file" => {
            let mut tf = tempfile::NamedTempFile::new().expect("temp file");
            tf.write_all(data).unwrap();
            tf.flush().unwrap();
            let file = std::fs::File::open(tf.path()).unwrap();
            let rd = TracingReader::new(ValueReader::from_file(file), budget);
            okerr(ModelProto::decode(rd))
        }
        "parse_buf" => okerr(ModelProto::parse_buf(data)),
        "parse_file" => {
            let mut tf = tempfile::NamedTempFile::new().expect("temp file");
            tf.write_all(data).unwrap();
            tf.flush().unwrap();
            let file = std::fs::File::open(tf.path()).unwrap();
            okerr(ModelProto::parse_file(file))
        }
        "sniff" => {
            let is = is_onnx_model(ValueReader::from_buf(data));
            (if is { "ok" } else { "err" }.to_string(), is.to_string())
        }
        "model_load" => match rten::Model::load(data.to_vec()) {
            Ok(_) => ("ok".to_string(), String::new()),
            Err(_) => ("err".to_string(), String::new()),
        },
        _ => {
            eprintln!("unknown api {api}");
            std::process::exit(2);
        }
    }));
    match res {
        Ok(r) => r,
        Err(e) => {
            if e.downcast_ref::<OpLimit>().is_some() {
                ("oplimit".to_string(), String::new())
            } else {
                let msg = if let Some(s) = e.downcast_ref::<&str>() {
                    s.to_string()
                } else if let Some(s) = e.downcast_ref::<String>() {
                    s.clone()
                } else {
                    "panic".to_string()
                };
                ("panic".to_string(), sanitize(&msg))
            }
        }
    }
}

fn item_bytes(item: &Value) -> Vec<u8> {
    if let Some(r) = item["deepnest"].as_u64() {
        if r > 0 {
            return deep_nest(r as usize);
        }
    }
    unhex(item["hex"].as_str().unwrap_or(""))
}

/// `vh-load proto-batch <file> <from>`: batch child.
pub fn main_batch_child() {
    crate::child::terse_panics();
    batch_child_main(&|item: &Value| {
        let api = item["api"].as_str().unwrap_or("");
        let data = item_bytes(item);
        crate::track::reset();
        let (outcome, ret) = run_one(api, &data);
        let maxalloc = crate::track::max_request();
        println!("{}", json!({"ev": "end", "outcome": outcome, "ret": ret, "maxalloc": limbs(maxalloc)}));
    });
}

// ---------------------------------------------------------------- inputs

fn s(field: u32, v: &str) -> Item {
    Item::Bytes(field, "string", v.as_bytes().to_vec())
}
fn skip(field: u32, v: &[u8]) -> Item {
    Item::Bytes(field, "skip", v.to_vec())
}
fn vint(field: u32, v: u64) -> Item {
    Item::Varint(field, v)
}
fn f32item(field: u32, v: f32) -> Item {
    Item::Fixed32(field, v.to_le_bytes())
}
fn sse(field: u32, k: &str, v: &str) -> Item {
    Item::Msg(field, vec![s(1, k), s(2, v)])
}

fn value_info(field: u32, name: &str, sym: bool) -> Item {
    let mut dims = vec![Item::Msg(1, vec![vint(1, 2)])];
    if sym {
        dims.push(Item::Msg(1, vec![s(2, "N"), skip(3, b"den")]));
    }
    let tensor_type = Item::Msg(1, vec![vint(1, 1), Item::Msg(2, dims)]);
    Item::Msg(field, vec![s(1, name), Item::Msg(2, vec![tensor_type]), skip(3, b"d")])
}

fn seq_value_info(field: u32, name: &str) -> Item {
    let tensor_type = Item::Msg(1, vec![vint(1, 6)]);
    let seq = Item::Msg(4, vec![Item::Msg(1, vec![tensor_type])]);
    Item::Msg(field, vec![s(1, name), Item::Msg(2, vec![seq])])
}

fn tensor_items(name: &str, variant: usize) -> Vec<Item> {
    let mut t = vec![vint(1, 2), vint(2, 1)];
    match variant {
        0 => {
            let mut raw = Vec::new();
            raw.extend_from_slice(&1.0f32.to_le_bytes());
            raw.extend_from_slice(&2.0f32.to_le_bytes());
            t.push(Item::Bytes(9, "bytes", raw));
        }
        1 => {
            let mut raw = Vec::new();
            raw.extend_from_slice(&1.0f32.to_le_bytes());
            raw.extend_from_slice(&2.0f32.to_le_bytes());
            t.push(Item::Bytes(4, "packed", raw)); // float_data packed
        }
        2 => {
            t[1] = vint(2, 6);
            t.push(Item::Bytes(5, "packed", vec![1, 0x96, 0x01])); // int32_data packed varints
            t.push(vint(5, 7)); // and one unpacked element
        }
        3 => {
            t[1] = vint(2, 7);
            t.push(Item::Bytes(7, "packed", vec![3, 4])); // int64_data
        }
        4 => {
            t[1] = vint(2, 11);
            let mut raw = Vec::new();
            raw.extend_from_slice(&1.0f64.to_le_bytes());
            raw.extend_from_slice(&2.0f64.to_le_bytes());
            t.push(Item::Bytes(10, "packed", raw)); // double_data
            t.push(Item::Fixed64(10, 3.0f64.to_le_bytes()));
        }
        _ => {
            t.push(sse(13, "location", "w.data"));
            t.push(sse(13, "offset", "0"));
            t.push(sse(13, "length", "8"));
            t.push(vint(14, 1));
        }
    }
    t.push(s(8, name));
    t.push(skip(12, b"doc"));
    t
}

fn node(op: &str, inp: &str, out: &str, attrs: Vec<Item>) -> Item {
    let mut n = vec![s(1, inp), s(2, out), s(3, "n"), s(4, op)];
    n.extend(attrs);
    n.push(skip(6, b"doc"));
    n.push(s(7, ""));
    Item::Msg(1, n)
}

fn attr(name: &str, body: Vec<Item>) -> Item {
    let mut a = vec![s(1, name)];
    a.extend(body);
    Item::Msg(5, a)
}

fn model(graph: Vec<Item>, extras: bool) -> Vec<Item> {
    let mut m = vec![vint(1, 9), s(2, "verif")];
    if extras {
        m.push(s(3, "1.0"));
        m.push(skip(4, b"dom"));
        m.push(vint(5, 1));
        m.push(skip(6, b"docstring"));
    }
    m.push(Item::Msg(7, graph));
    m.push(Item::Msg(8, vec![s(1, ""), vint(2, 21)]));
    if extras {
        m.push(sse(14, "key", "value"));
        m.push(skip(15, &[0x0a, 0x01, 0x41])); // unknown field holding a message
        m.push(Item::Fixed64(16, [1, 2, 3, 4, 5, 6, 7, 8]));
        m.push(Item::Fixed32(17, [1, 2, 3, 4]));
    }
    m
}

/// Base documents: (name, items).
pub fn base_docs() -> Vec<(&'static str, Vec<Item>)> {
    // 1. loadable Identity model with a raw-data initializer
    let g1 = vec![
        node("Identity", "w", "y", vec![]),
        skip(2, b"g"),
        Item::Msg(5, tensor_items("w", 0)),
        value_info(12, "y", false),
    ];
    // 2. every decoder branch, spread over three documents to keep each small
    let sub = vec![node("Identity", "a", "b", vec![]), value_info(12, "b", false)];
    let attrs_a = vec![
        attr("f", vec![f32item(2, 1.5), vint(20, 1)]),
        attr("i", vec![vint(3, 7), vint(20, 2)]),
        attr("s", vec![s(4, "str"), vint(20, 3)]),
        attr("fs", vec![f32item(7, 1.0), f32item(7, 2.0), vint(20, 6)]),
        attr("is", vec![vint(8, 1), vint(8, 2), vint(20, 7)]),
        attr("ss", vec![s(9, "p"), s(9, "q"), vint(20, 8), skip(13, b"doc")]),
    ];
    let attrs_b = vec![
        attr("t", vec![Item::Msg(5, tensor_items("t", 1)), vint(20, 4)]),
        attr("g", vec![Item::Msg(6, sub), vint(20, 5)]),
    ];
    let g2a = vec![node("Foo", "x", "y", attrs_a), skip(2, b"graph"), skip(10, b"doc")];
    let g2b = vec![node("Bar", "x", "y", attrs_b), value_info(11, "x", true), seq_value_info(13, "z")];
    let g2c = vec![
        Item::Msg(5, tensor_items("w2", 2)),
        Item::Msg(5, tensor_items("w3", 3)),
        Item::Msg(5, tensor_items("w4", 4)),
        Item::Msg(5, tensor_items("w5", 5)),
    ];
    // 3. minimal: one node and an unknown trailing field
    let g3 = vec![node("Relu", "x", "y", vec![])];
    let mut m3 = vec![vint(1, 9), Item::Msg(7, g3)];
    m3.push(skip(15, b"abcde"));
    // 4. groups and empty fields
    let g4 = vec![Item::Group(9, 3), Item::Group(9, 4), skip(2, b"")];
    let m4 = vec![vint(1, 9), Item::Msg(7, g4), s(2, ""), skip(15, b"")];
    vec![
        ("identity", model(g1, false)),
        ("attrs", model(g2a, true)),
        ("subgraph", model(g2b, false)),
        ("tensors", model(g2c, false)),
        ("minimal", m3),
        ("groups", m4),
    ]
}

/// Built-in boundary length classes for a site.
fn boundary_exprs(site: &Site) -> Vec<LenExpr> {
    let mut v = vec![
        LenExpr::True(-1),
        LenExpr::True(1),
        LenExpr::Rem(-1),
        LenExpr::Rem(0),
        LenExpr::Rem(1),
        LenExpr::Rem(2),
        LenExpr::Abs((1 << 31) - 1),
        LenExpr::Abs(1 << 31),
        LenExpr::Abs(1 << 32),
        LenExpr::Abs(1 << 40),
        LenExpr::Abs(1 << 62),
        LenExpr::Abs((1 << 63) - 1),
        LenExpr::Half(0),
        LenExpr::Half(1),
        LenExpr::HalfPos(0),
        LenExpr::HalfPos(-1),
        LenExpr::NegPos(-1),
        LenExpr::NegPos(0),
        LenExpr::NegPos(1),
        LenExpr::Abs(u64::MAX),
        LenExpr::Abs(u64::MAX - 1),
    ];
    // wrap back to the field's own tag and to the start of its content
    v.push(LenExpr::NegPos(site.start as i64));
    v.push(LenExpr::NegPos(site.p as i64 - 1));
    v
}

#[derive(Clone)]
struct Input {
    gen_name: String,
    lenclass: String,
    bytes: Vec<u8>,
    site: Option<Site>,
    /// Only black-box apis (too large to trace).
    blackbox_only: bool,
}

fn trunc_site(all: &[Site], cut: usize) -> Option<Site> {
    // Outermost length-delimited field whose content is cut short.
    all.iter()
        .filter(|s| s.depth == 0 && s.start < cut && cut < s.p + s.true_len && cut >= s.p)
        .next()
        .cloned()
}

fn deep_nest(rounds: usize) -> Vec<u8> {
    // graph{ node{ attribute{ g: graph{ node{ attribute{ g: ... }}}}}}
    // Built inside-out from the length prefixes only (linear time).
    let mut prefixes: Vec<Vec<u8>> = Vec::new();
    let mut len = 0usize;
    for _ in 0..rounds {
        for field in [6u32, 5, 1] {
            let mut p = Vec::new();
            vcommon::onnx::key(&mut p, field, 2);
            vcommon::onnx::varint(&mut p, len as u64);
            len += p.len();
            prefixes.push(p);
        }
    }
    let mut m = Vec::new();
    vcommon::onnx::f_varint(&mut m, 1, 9);
    vcommon::onnx::key(&mut m, 7, 2);
    vcommon::onnx::varint(&mut m, len as u64);
    for p in prefixes.iter().rev() {
        m.extend_from_slice(p);
    }
    m
}

pub const INFLATED_LENS: &[(&str, u64)] = &[
    ("2^31", 1 << 31),
    ("2^32", 1 << 32),
    ("2^40", 1 << 40),
    ("2^62", 1 << 62),
    ("2^63+8", (1 << 63) + 8),
    ("2^64-1", u64::MAX),
];

fn inflated_inputs(quick: bool) -> Vec<Input> {
    let mut out = Vec::new();
    for (name, items) in base_docs() {
        let all = sites(&items);
        for (i, site) in all.iter().enumerate() {
            // fields whose content the decoder stores (and could pre-size)
            let sized = matches!(site.kind, "packed" | "bytes" | "string" | "msg");
            for (lname, l) in INFLATED_LENS {
                if quick {
                    let core = *lname == "2^40" || *lname == "2^63+8";
                    let edge = *lname == "2^32" || *lname == "2^64-1";
                    let full_doc = name == "identity" || name == "tensors";
                    let pick = (core && (full_doc || site.kind == "packed" || site.kind == "bytes"))
                        || (edge && (site.kind == "packed" || site.kind == "bytes"));
                    if !pick {
                        continue;
                    }
                } else if !sized && *lname != "2^40" && *lname != "2^63+8" {
                    continue;
                }
                if let Some((bytes, s)) = crate::pb::encode_inflated(&items, i, *l) {
                    out.push(Input { gen_name: format!("inflate:{name}"), lenclass: format!("chain:{lname}"), bytes, site: Some(s), blackbox_only: false });
                }
            }
        }
    }
    out
}

/// `v` encoded as a varint of exactly `w` bytes (padded with continuation bytes).
fn wide_varint(v: u64, w: usize) -> Vec<u8> {
    let mut b = Vec::new();
    vcommon::onnx::varint(&mut b, v);
    assert!(b.len() <= w);
    if b.len() < w {
        let last = b.len() - 1;
        b[last] |= 0x80;
        while b.len() < w - 1 {
            b.push(0x80);
        }
        b.push(0x00);
    }
    b
}

/// Inputs in which a multi-byte varint (tag, varint value, length, packed
/// element) starts inside an embedded message / packed field and ends after
/// its declared end, with further bytes behind it, at every nesting level of
/// the ONNX schema. The reader's 1-byte limit check lets the varint through,
/// which leaves the position beyond the limit.
fn straddle_inputs(quick: bool) -> Vec<Input> {
    // message-typed field paths from ModelProto
    let msg_paths: &[(&str, &[u32])] = &[
        ("graph", &[7]),
        ("opset", &[8]),
        ("metadata", &[14]),
        ("node", &[7, 1]),
        ("attr", &[7, 1, 5]),
        ("attr.t", &[7, 1, 5, 5]),
        ("attr.g", &[7, 1, 5, 6]),
        ("attr.g.node", &[7, 1, 5, 6, 1]),
        ("init", &[7, 5]),
        ("init.ext", &[7, 5, 13]),
        ("input", &[7, 11]),
        ("input.type", &[7, 11, 2]),
        ("tensor_type", &[7, 11, 2, 1]),
        ("shape", &[7, 11, 2, 1, 2]),
        ("dim", &[7, 11, 2, 1, 2, 1]),
        ("seq", &[7, 11, 2, 4]),
        ("seq.elem", &[7, 11, 2, 4, 1]),
        ("output", &[7, 12]),
        ("value_info", &[7, 13]),
    ];
    // packed repeated varint fields (the last number is the packed field)
    let packed_paths: &[(&str, &[u32])] = &[
        ("init.int32_data", &[7, 5, 5]),
        ("init.int64_data", &[7, 5, 7]),
        ("attr.t.int64_data", &[7, 1, 5, 5, 7]),
    ];
    let widths: Vec<usize> = if quick { vec![2, 10] } else { vec![2, 3, 4, 6, 10] };
    let trailer: &[u8] = &[0xf8, 0x01, 0x01]; // unknown varint field 31 = 1
    let mut out = Vec::new();
    let mut n = 0usize;
    let mut emit = |name: &str, role: &str, path: &[u32], prefix: &[u8], crafted: &[u8], voff: usize, w: usize, out: &mut Vec<Input>| {
        let ks: Vec<usize> = if quick { if w == 2 { vec![1] } else { vec![1, w - 1] } } else { (1..w).collect() };
        for k in ks {
            for cover in [true, false] {
                if !cover && path.len() < 2 {
                    continue; // the parent is the unbounded top-level reader
                }
                n += 1;
                if quick && n % 2 == 0 && prefix.is_empty() {
                    continue;
                }
                // innermost region: physical bytes and declared length
                let mut phys: Vec<u8> = prefix.to_vec();
                phys.extend_from_slice(crafted);
                phys.extend_from_slice(trailer);
                let declared = prefix.len() + voff + k;
                let mut bytes: Vec<u8> = Vec::new();
                vcommon::onnx::key(&mut bytes, *path.last().unwrap(), 2);
                vcommon::onnx::varint(&mut bytes, declared as u64);
                let head = bytes.len();
                bytes.extend_from_slice(&phys);
                // offset of the region content within `bytes`, carried outwards
                let mut content_at = head;
                let mut inner_decl_extent = head + declared;
                for (i, f) in path[..path.len() - 1].iter().enumerate().rev() {
                    let exact = !cover && i == path.len() - 2;
                    let decl = if exact { inner_decl_extent } else { bytes.len() };
                    let mut b = Vec::new();
                    vcommon::onnx::key(&mut b, *f, 2);
                    vcommon::onnx::varint(&mut b, decl as u64);
                    content_at += b.len();
                    inner_decl_extent = b.len() + decl;
                    b.extend_from_slice(&bytes);
                    bytes = b;
                }
                let mut doc = vec![0x08, 0x09];
                content_at += doc.len();
                doc.extend_from_slice(&bytes);
                doc.extend_from_slice(trailer);
                out.push(Input {
                    gen_name: format!("straddle:{name}:{role}"),
                    lenclass: format!("w{w}k{k}{}{}", if cover { "" } else { ":parent-ends-too" }, if prefix.is_empty() { "" } else { ":prefix" }),
                    bytes: doc,
                    site: Some(Site { kind: "region", depth: path.len() - 1, start: 0, p: content_at, true_len: phys.len(), len: declared as u64 }),
                    blackbox_only: false,
                });
            }
        }
    };
    for &w in &widths {
        for (name, path) in msg_paths {
            for prefix in [&[][..], &[0xf8, 0x01, 0x01][..]] {
                // tag of an unknown varint field, then its value
                let mut c = wide_varint(31 << 3, w);
                c.push(0x01);
                emit(name, "tag", path, prefix, &c, 0, w, &mut out);
                // tag, then a wide varint value
                let mut c = vec![0xf8, 0x01];
                c.extend(wide_varint(1, w));
                emit(name, "value", path, prefix, &c, 2, w, &mut out);
                // tag of an unknown length-delimited field, wide length, payload
                let mut c = vec![0xfa, 0x01];
                c.extend(wide_varint(1, w));
                c.push(0x41);
                emit(name, "len", path, prefix, &c, 2, w, &mut out);
            }
        }
        for (name, path) in packed_paths {
            for prefix in [&[][..], &[0x01, 0x02][..]] {
                let c = wide_varint(3, w);
                emit(name, "elem", path, prefix, &c, 0, w, &mut out);
            }
        }
    }
    out
}

fn gen_inputs(rng: &mut Rng, quick: bool, cands: &[(String, LenExpr)], scale: usize) -> Vec<Input> {
    let sc = |n: usize| (n * scale).div_ceil(100);
    let mut v: Vec<Input> = Vec::new();
    // 0. the pinned inputs
    v.push(Input {
        gen_name: "pinned".into(),
        lenclass: "2^64-pos+0".into(),
        bytes: vec![0x7a, 0xf5, 0xff, 0xff, 0xff, 0xff, 0xff, 0xff, 0xff, 0xff, 0x01],
        site: Some(Site { kind: "skip", depth: 0, start: 0, p: 11, true_len: 0, len: u64::MAX - 10 }),
        blackbox_only: false,
    });
    // varints with 10 and more continuation bytes
    let extras: &[usize] = if quick { &[0, 1, 5] } else { &[0, 1, 2, 3, 5, 20] };
    for &extra in extras {
        let mut b = vec![0x08];
        b.extend(std::iter::repeat(0xff).take(9 + extra));
        b.push(0x01);
        b.extend_from_slice(&[0x08, 0x01]);
        v.push(Input { gen_name: "longvarint".into(), lenclass: format!("cont{}", 9 + extra), bytes: b, site: None, blackbox_only: false });
    }
    v.push(Input { gen_name: "empty".into(), lenclass: "".into(), bytes: vec![], site: None, blackbox_only: false });

    let docs = base_docs();
    for (name, items) in &docs {
        let plain = encode_plain(items);
        let all = sites(items);
        v.push(Input { gen_name: format!("valid:{name}"), lenclass: "".into(), bytes: plain.clone(), site: None, blackbox_only: false });
        // 1. length mutations
        let mut combos: Vec<(usize, LenExpr)> = Vec::new();
        for (i, site) in all.iter().enumerate() {
            for e in boundary_exprs(site) {
                combos.push((i, e));
            }
            for (kind, e) in cands {
                let k: &str = match site.kind {
                    "string" | "bytes" => "bytes",
                    "msg" => "msg",
                    "packed" => "packed",
                    _ => "skip",
                };
                if kind == k && !combos.contains(&(i, *e)) {
                    combos.push((i, *e));
                }
            }
        }
        let budget = sc(if quick { 80 } else { 1200 });
        if combos.len() > budget {
            rng.shuffle(&mut combos);
            combos.truncate(budget);
            combos.sort_by_key(|c| c.0);
        }
        for (i, e) in combos {
            if let Some((bytes, site)) = encode_mutated(items, i, e) {
                v.push(Input { gen_name: format!("mutlen:{name}"), lenclass: e.name(), bytes, site: Some(site), blackbox_only: false });
            }
        }
        // 2. truncations
        let step = (if quick && plain.len() > 60 { 3 } else { 1 }) * (100 / scale.clamp(1, 100));
        let mut cut = 1;
        while cut < plain.len() {
            v.push(Input {
                gen_name: format!("truncate:{name}"),
                lenclass: "".into(),
                bytes: plain[..cut].to_vec(),
                site: trunc_site(&all, cut),
                blackbox_only: false,
            });
            cut += step;
        }
        // 3. seeded byte flips
        let nflip = sc(if quick { 20 } else { 300 });
        for _ in 0..nflip {
            let mut b = plain.clone();
            for _ in 0..1 + rng.below(3) {
                let i = rng.below(b.len());
                b[i] = match rng.below(4) {
                    0 => 0xff,
                    1 => b[i] ^ (1 << rng.below(8)),
                    2 => 0x80 | b[i],
                    _ => rng.below(256) as u8,
                };
            }
            v.push(Input { gen_name: format!("flip:{name}"), lenclass: "".into(), bytes: b, site: None, blackbox_only: false });
        }
    }
    // 4. seeded random byte strings, biased towards protobuf-looking bytes
    let nrand = sc(if quick { 60 } else { 1500 });
    for _ in 0..nrand {
        let n = rng.below(48);
        let b: Vec<u8> = (0..n)
            .map(|_| match rng.below(6) {
                0 => 0xff,
                1 => [0x0a, 0x12, 0x3a, 0x7a, 0x08, 0x2a][rng.below(6)],
                2 => rng.below(8) as u8,
                3 => 0x80 | rng.below(128) as u8,
                _ => rng.below(256) as u8,
            })
            .collect();
        v.push(Input { gen_name: "random".into(), lenclass: "".into(), bytes: b, site: None, blackbox_only: false });
    }
    // 5a. consistently inflated chains: one field declares far more bytes than
    // the input holds and every enclosing message is inflated by the same
    // amount, so each field still ends inside its parent
    v.extend(inflated_inputs(quick));
    // 5. varints that straddle the end of an embedded message / packed field
    v.extend(straddle_inputs(quick));
    // 6. deep nesting (black-box only)
    let rounds: &[usize] = if quick { &[50, 3000] } else { &[50, 3000, 20000, 60000] };
    for &r in rounds {
        v.push(Input { gen_name: "deepnest".into(), lenclass: format!("rounds{r}"), bytes: deep_nest(r), site: None, blackbox_only: true });
    }
    v
}

// ---------------------------------------------------------------- driver

const AS_LIMIT: u64 = 8 << 30;

fn case_record(id: usize, inp: &Input) -> Value {
    let site = match &inp.site {
        Some(s) => json!({"kind": s.kind, "depth": s.depth, "p": limbs(s.p as u64), "len": limbs(s.len), "tlen": s.true_len}),
        None => json!({"kind": "none", "depth": 0, "p": [], "len": [], "tlen": 0}),
    };
    // Large inputs are referenced by generator parameters, not by content.
    let b: Vec<u8> = if inp.bytes.len() <= 4096 { inp.bytes.clone() } else { Vec::new() };
    json!({"ev": "case", "id": id, "n": inp.bytes.len(), "gen": inp.gen_name, "lenclass": inp.lenclass, "site": site, "b": b, "build": build_name()})
}

/// Cargo profile this binary was built with ("release": overflow checks off;
/// "checked": overflow checks and debug assertions on).
pub fn build_name() -> &'static str {
    if cfg!(debug_assertions) { "checked" } else { "release" }
}

/// One (input, api) job of a batch.
struct Job {
    input: usize,
    api: &'static str,
}

fn write_batch(path: &str, inputs: &[Input], jobs: &[&Job]) {
    let mut f = std::io::BufWriter::new(std::fs::File::create(path).expect("batch file"));
    for j in jobs {
        let inp = &inputs[j.input];
        let item = if inp.blackbox_only {
            let r: u64 = inp.lenclass.trim_start_matches("rounds").parse().unwrap_or(0);
            json!({"api": j.api, "hex": "", "deepnest": r})
        } else {
            json!({"api": j.api, "hex": hex(&inp.bytes), "deepnest": 0})
        };
        writeln!(f, "{}", item).unwrap();
    }
    f.flush().unwrap();
}

/// Turn the result of one job into the records `run`, `op`*, `end`.
fn job_records(api: &str, r: &ItemResult) -> Vec<String> {
    let mut recs = vec![json!({"ev": "run", "api": api}).to_string()];
    let mut nops = 0u64;
    let mut end: Option<Value> = None;
    for l in &r.lines {
        if l.starts_with("{\"ev\":\"op\"") {
            if !l.contains("_begin\"") {
                nops += 1;
            }
            recs.push(l.clone());
        } else if let Ok(v) = serde_json::from_str::<Value>(l) {
            if v["ev"] == "end" {
                end = Some(v);
            }
        }
    }
    let maxalloc = end.as_ref().map(|e| e["maxalloc"].clone()).filter(|v| v.is_array()).unwrap_or(json!([]));
    let (outcome, ret) = match (r.status, &end) {
        ("done", Some(e)) => (e["outcome"].as_str().unwrap_or("err").to_string(), e["ret"].as_str().unwrap_or("").to_string()),
        ("timeout", _) => ("timeout".to_string(), String::new()),
        ("signal", _) => ("abort".to_string(), format!("signal {}", r.code)),
        (_, _) => ("panic".to_string(), sanitize(&format!("exit {} {}", r.code, r.stderr))),
    };
    recs.push(json!({"ev": "end", "api": api, "outcome": outcome, "nops": nops, "ret": ret, "maxalloc": maxalloc}).to_string());
    recs
}

/// Run jobs in parallel batches; returns the record lines of every job.
/// Jobs are dealt round-robin to the batches so that the (expensive)
/// non-terminating runs, which cluster in the input list, spread evenly.
fn run_jobs(tag: &str, inputs: &[Input], jobs: &[Job], chunk: usize, timeout_ms: u64) -> Vec<Vec<String>> {
    let dir = std::env::temp_dir();
    let pid = std::process::id();
    let nb = jobs.len().div_ceil(chunk).max(1);
    let batches: Vec<Vec<usize>> = (0..nb).map(|b| (b..jobs.len()).step_by(nb).collect()).collect();
    let res: Vec<Vec<(usize, Vec<String>)>> = batches
        .par_iter()
        .enumerate()
        .map(|(ci, idxs)| {
            let js: Vec<&Job> = idxs.iter().map(|&i| &jobs[i]).collect();
            let path = dir.join(format!("vh-load-{pid}-{tag}-{ci}.jsonl"));
            let path_s = path.to_string_lossy().to_string();
            write_batch(&path_s, inputs, &js);
            let mut results = run_batch("proto-batch", &path_s, js.len(), timeout_ms, timeout_ms * 20, AS_LIMIT);
            // A timeout counts only if it reproduces when the item is run alone.
            for (k, r) in results.iter_mut().enumerate() {
                if r.status == "timeout" {
                    write_batch(&path_s, inputs, &js[k..k + 1]);
                    let again = run_batch("proto-batch", &path_s, 1, timeout_ms, timeout_ms * 40, AS_LIMIT);
                    *r = again.into_iter().next().unwrap();
                }
            }
            let _ = std::fs::remove_file(&path);
            idxs.iter().zip(results.iter()).map(|(&i, r)| (i, job_records(jobs[i].api, r))).collect()
        })
        .collect();
    let mut out: Vec<Vec<String>> = vec![Vec::new(); jobs.len()];
    for (i, recs) in res.into_iter().flatten() {
        out[i] = recs;
    }
    out
}

const TRACED: &[&str] = &["traced_buf", "traced_file", "traced_sniff"];

fn parse_cands(path: &str) -> Vec<(String, LenExpr)> {
    let mut v = Vec::new();
    for c in vcommon::read_json_lines(path) {
        let kind = c["k"].as_str().unwrap_or("").to_string();
        let d = c["d"].as_i64().unwrap_or(0);
        let e = match c["cls"].as_str().unwrap_or("") {
            "negpos" => LenExpr::NegPos(d),
            "half" => LenExpr::Half(d),
            "rem" => LenExpr::Rem(d),
            _ => continue,
        };
        if !v.contains(&(kind.clone(), e)) {
            v.push((kind, e));
        }
    }
    v
}

/// `vh-load proto --out trace.ndjson [--cands file] [--only-case json]`
pub fn main_proto() {
    let _scratch = crate::child::scratch_tmpdir();
    let out = arg_or("--out", "proto.ndjson");
    let quick = std::env::var("VERIF_TIER").map(|t| t != "thorough").unwrap_or(true);
    let threads = arg_usize("--threads", 8);
    // CPU-time budget per run (a decode of these inputs takes well under 10 ms).
    let timeout_ms = arg_usize("--cpu-ms", 300) as u64;
    let hang_samples = arg_usize("--hang-samples", if quick { 3 } else { 40 });
    rayon::ThreadPoolBuilder::new().num_threads(threads).build_global().unwrap();
    let mut rng = Rng::from_env();
    let cands = arg("--cands").map(|p| parse_cands(&p)).unwrap_or_default();

    let inputs: Vec<Input> = if let Some(c) = arg("--only-case") {
        let c: Value = serde_json::from_str(&c).expect("case json");
        let bytes = if c["gen"] == "deepnest" {
            let r: usize = c["lenclass"].as_str().unwrap().trim_start_matches("rounds").parse().unwrap();
            deep_nest(r)
        } else {
            c["b"].as_array().map(|a| a.iter().map(|x| x.as_u64().unwrap_or(0) as u8).collect()).unwrap_or_default()
        };
        let kind: &'static str = match c["site"]["kind"].as_str().unwrap_or("none") {
            "skip" => "skip",
            "string" => "string",
            "bytes" => "bytes",
            "msg" => "msg",
            "packed" => "packed",
            "region" => "region",
            _ => "none",
        };
        let unl = |v: &Value| -> u64 {
            v.as_array().map(|a| a.iter().rev().fold(0u64, |acc, x| (acc << 15) | x.as_u64().unwrap())).unwrap_or(0)
        };
        let site = if kind == "none" {
            None
        } else {
            Some(Site {
                kind,
                depth: c["site"]["depth"].as_u64().unwrap_or(0) as usize,
                start: 0,
                p: unl(&c["site"]["p"]) as usize,
                true_len: c["site"]["tlen"].as_u64().unwrap_or(0) as usize,
                len: unl(&c["site"]["len"]),
            })
        };
        vec![Input {
            gen_name: c["gen"].as_str().unwrap_or("").to_string(),
            lenclass: c["lenclass"].as_str().unwrap_or("").to_string(),
            blackbox_only: c["gen"] == "deepnest",
            bytes,
            site,
        }]
    } else {
        let mut v = gen_inputs(&mut rng, quick, &cands, arg_usize("--scale", 100));
        if let Some(lim) = arg("--limit").and_then(|s| s.parse::<usize>().ok()) {
            v.truncate(lim);
        }
        v
    };

    let mut per_input: Vec<Vec<String>> = vec![Vec::new(); inputs.len()];
    let spun = |recs: &Vec<String>| {
        let last = recs.last().cloned().unwrap_or_default();
        last.contains("\"outcome\":\"oplimit\"") || last.contains("\"outcome\":\"timeout\"")
    };
    // A run that does not terminate costs its full CPU budget, and the traced
    // runs predict which black-box runs will spin (parse_buf/parse_file like
    // traced_buf/traced_file; sniff and Model::load like traced_sniff). Only
    // a deterministic sample of the predicted spinners goes through the
    // black-box apis; every other input goes through all of them.
    // Phase 1: the traced apis.
    let mut jobs1: Vec<Job> = Vec::new();
    for i in 0..inputs.len() {
        if !inputs[i].blackbox_only {
            for api in TRACED {
                jobs1.push(Job { input: i, api });
            }
        }
    }
    let t0 = std::time::Instant::now();
    let res1 = run_jobs("p1", &inputs, &jobs1, 96, timeout_ms);
    eprintln!("phase 1: {} jobs {:.1}s", jobs1.len(), t0.elapsed().as_secs_f64());
    let mut spin_parse = vec![false; inputs.len()];
    let mut spin_sniff = vec![false; inputs.len()];
    for (j, recs) in jobs1.iter().zip(res1.into_iter()) {
        if spun(&recs) {
            if j.api == "traced_sniff" {
                spin_sniff[j.input] = true;
            } else {
                spin_parse[j.input] = true;
            }
        }
        per_input[j.input].extend(recs);
    }
    // Phase 2: the black-box apis.
    let mut left_parse = hang_samples;
    let mut left_sniff = hang_samples;
    let mut jobs2: Vec<Job> = Vec::new();
    for i in 0..inputs.len() {
        let mut do_parse = true;
        let mut do_sniff = true;
        // the pinned inputs always go through every api
        let sampled = !(inputs[i].gen_name == "pinned" || inputs[i].gen_name == "longvarint");
        if sampled && spin_parse[i] {
            if left_parse > 0 {
                left_parse -= 1;
            } else {
                do_parse = false;
            }
        }
        if sampled && (spin_sniff[i] || spin_parse[i]) {
            if left_sniff > 0 {
                left_sniff -= 1;
            } else {
                do_sniff = false;
            }
        }
        if do_parse {
            jobs2.push(Job { input: i, api: "parse_buf" });
            jobs2.push(Job { input: i, api: "parse_file" });
        }
        if do_sniff {
            jobs2.push(Job { input: i, api: "sniff" });
            jobs2.push(Job { input: i, api: "model_load" });
        }
    }
    // Large inputs (deep nesting, > 4 KB) get a CPU budget proportional to
    // their size: 10 ms per KB on top of the base budget.
    let (big, small): (Vec<Job>, Vec<Job>) = jobs2.into_iter().partition(|j| inputs[j.input].blackbox_only);
    let max_kb = big.iter().map(|j| inputs[j.input].bytes.len() / 1024).max().unwrap_or(0) as u64;
    let mut res2 = run_jobs("p2", &inputs, &small, 128, timeout_ms);
    res2.extend(run_jobs("p2big", &inputs, &big, 4, timeout_ms + 10 * max_kb));
    let jobs2: Vec<Job> = small.into_iter().chain(big.into_iter()).collect();
    eprintln!("phase 2: {} jobs {:.1}s", jobs2.len(), t0.elapsed().as_secs_f64());
    for (j, recs) in jobs2.iter().zip(res2.into_iter()) {
        per_input[j.input].extend(recs);
    }

    let mut tr = Trace::create(&out);
    let mut nrun = 0usize;
    for (id, inp) in inputs.iter().enumerate() {
        tr.emit(case_record(id, inp));
        for l in &per_input[id] {
            let v: Value = serde_json::from_str(l).expect("record");
            if v["ev"] == "run" {
                nrun += 1;
            }
            tr.emit(v);
        }
    }
    tr.flush();
    println!("inputs {} runs {}", inputs.len(), nrun);
}
