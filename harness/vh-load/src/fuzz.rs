//! C05 engine: load structured mutations of valid ONNX and .rten models (and
//! seeded byte flips / truncations) through `Model::load`, `load_file` and
//! `load_mmap`, every load in a child process (CPU-time and address-space
//! limits); for a loaded model record every constant's shape, reported element
//! count and backing storage length (via `Model::verif_graph()`), then do a
//! bounded smoke run.
//!
//! Trace (validated by specs/load/Trace_Loader.tla):
//!   {"ev":"case",  id, fmt, api, gen, mutation, n}
//!   {"ev":"load",  outcome, err, errclass}
//!   {"ev":"const", name, dtype, shape:[[limbs]], count:[limbs], backing:[limbs]}
//!   {"ev":"run",   outcome, detail}

use std::io::Write;

use rayon::prelude::*;
use rten_model_file::header::Header;
use rten_model_file::schema as sg;
use rten_tensor::Storage;
use rten_tensor::prelude::*;
use vcommon::onnx::{self, f_bytes, f_str, f_varint, key, varint};
use vcommon::{Rng, Trace, Value, arg, arg_or, arg_usize, json, limbs, read_json_lines};

use crate::child::{ItemResult, batch_child_main, run_batch};
use crate::pb::{hex, unhex};

// ------------------------------------------------------------------ ONNX

#[derive(Clone, Debug)]
enum Src {
    /// raw_data bytes
    Raw(Vec<u8>),
    /// typed repeated field with `n` elements
    Typed(usize),
    /// external data: (file content, offset, length)
    External(#[allow(dead_code)] Vec<u8>, u64, u64),
}

const DTYPES: &[(i32, usize, &str)] = &[
    (onnx::FLOAT, 4, "f32"),
    (onnx::INT32, 4, "i32"),
    (onnx::UINT8, 1, "u8"),
    (onnx::INT8, 1, "i8"),
    (onnx::INT64, 8, "i64"),
    (onnx::BOOL, 1, "bool"),
    (onnx::DOUBLE, 8, "f64"),
    (10, 2, "f16"),
];

fn onnx_tensor(dtype: i32, dims: &[i64], src: &Src, name: &str) -> Vec<u8> {
    let mut t = Vec::new();
    for d in dims {
        f_varint(&mut t, 1, *d);
    }
    f_varint(&mut t, 2, dtype as i64);
    match src {
        Src::Raw(b) => f_bytes(&mut t, 9, b),
        Src::Typed(n) => {
            // packed repeated field matching the data type
            let mut p = Vec::new();
            match dtype {
                onnx::FLOAT => {
                    for i in 0..*n {
                        p.extend_from_slice(&(i as f32).to_le_bytes());
                    }
                    f_bytes(&mut t, 4, &p);
                }
                onnx::DOUBLE => {
                    for i in 0..*n {
                        p.extend_from_slice(&(i as f64).to_le_bytes());
                    }
                    f_bytes(&mut t, 10, &p);
                }
                onnx::INT64 => {
                    for i in 0..*n {
                        varint(&mut p, i as u64);
                    }
                    f_bytes(&mut t, 7, &p);
                }
                _ => {
                    for i in 0..*n {
                        varint(&mut p, (i % 2) as u64);
                    }
                    f_bytes(&mut t, 5, &p);
                }
            }
        }
        Src::External(_, off, len) => {
            for (k, v) in [("location", "w.data".to_string()), ("offset", off.to_string()), ("length", len.to_string())] {
                let mut e = Vec::new();
                f_str(&mut e, 1, k);
                f_str(&mut e, 2, &v);
                f_bytes(&mut t, 13, &e);
            }
            f_varint(&mut t, 14, 1);
        }
    }
    f_str(&mut t, 8, name);
    t
}

/// Identity(w) -> y with `w` an initializer, or a Constant op producing `w`.
fn onnx_model(dtype: i32, dims: &[i64], src: &Src, constant_op: bool) -> Vec<u8> {
    let t = onnx_tensor(dtype, dims, src, "w");
    let mut g = Vec::new();
    if constant_op {
        let mut a = Vec::new();
        f_str(&mut a, 1, "value");
        f_bytes(&mut a, 5, &t);
        f_varint(&mut a, 20, 4);
        let mut n = Vec::new();
        f_str(&mut n, 2, "w");
        f_str(&mut n, 3, "const_w");
        f_str(&mut n, 4, "Constant");
        f_bytes(&mut n, 5, &a);
        f_bytes(&mut g, 1, &n);
    }
    f_bytes(&mut g, 1, &onnx::Node::new("Identity", &["w"], &["y"]).encode());
    f_str(&mut g, 2, "g");
    if !constant_op {
        f_bytes(&mut g, 5, &t);
    }
    f_bytes(&mut g, 12, &onnx::ValueInfo::new("y", dtype, None).encode());
    let mut m = Vec::new();
    f_varint(&mut m, 1, 9);
    f_str(&mut m, 2, "verif");
    f_bytes(&mut m, 7, &g);
    let mut ops = Vec::new();
    f_str(&mut ops, 1, "");
    f_varint(&mut ops, 2, 21);
    f_bytes(&mut m, 8, &ops);
    m
}

// ------------------------------------------------------------------ .rten

#[derive(Clone, Debug)]
struct RConst {
    shape: Vec<u32>,
    /// 0 i32, 1 f32, 2 i8, 3 u8 (ConstantDataType), other values = unknown
    dtype: u16,
    /// number of elements actually stored
    stored: usize,
    inline: bool,
    /// override of the data_offset field (external constants)
    offset_override: Option<u64>,
    /// node index listed as the graph output (1 = the value node `y`)
    out_id: u32,
    /// node indices used as the Identity operator's input / output
    /// (nodes: 0 = constant `w`, 1 = value `y`, 2 = the operator itself)
    op_in: i32,
    op_out: i32,
    /// if set: a second value node `z` (3) and a second Identity operator (4)
    /// whose input is this node index (2 = the first OPERATOR node)
    op2_in: Option<i32>,
}

struct RtenFile {
    bytes: Vec<u8>,
    /// positions of the header fields for later mutation (v2 only)
    v2: bool,
}

fn rten_model(c: &RConst, v2: bool) -> RtenFile {
    let mut b = flatbuffers::FlatBufferBuilder::with_capacity(1024);
    let mut tensor_data: Vec<u8> = Vec::new();
    let shape_vec = b.create_vector(&c.shape[..]);
    let esize = match c.dtype {
        0 | 1 => 4usize,
        _ => 1,
    };
    let args = if c.inline || !v2 {
        let (ty, data) = match c.dtype {
            1 => {
                let v: Vec<f32> = (0..c.stored).map(|i| i as f32).collect();
                let dv = b.create_vector(&v);
                (sg::ConstantData::FloatData, sg::FloatData::create(&mut b, &sg::FloatDataArgs { data: Some(dv) }).as_union_value())
            }
            2 => {
                let v: Vec<i8> = (0..c.stored).map(|i| i as i8).collect();
                let dv = b.create_vector(&v);
                (sg::ConstantData::Int8Data, sg::Int8Data::create(&mut b, &sg::Int8DataArgs { data: Some(dv) }).as_union_value())
            }
            3 => {
                let v: Vec<u8> = (0..c.stored).map(|i| i as u8).collect();
                let dv = b.create_vector(&v);
                (sg::ConstantData::UInt8Data, sg::UInt8Data::create(&mut b, &sg::UInt8DataArgs { data: Some(dv) }).as_union_value())
            }
            _ => {
                let v: Vec<i32> = (0..c.stored).map(|i| i as i32).collect();
                let dv = b.create_vector(&v);
                (sg::ConstantData::Int32Data, sg::Int32Data::create(&mut b, &sg::Int32DataArgs { data: Some(dv) }).as_union_value())
            }
        };
        sg::ConstantNodeArgs {
            shape: Some(shape_vec),
            data_type: ty,
            data: Some(data),
            dtype: Some(sg::ConstantDataType(c.dtype)),
            data_offset: None,
        }
    } else {
        // 8 bytes of padding so that offsets below the data exist
        tensor_data.extend_from_slice(&[0xEE; 8]);
        let off = tensor_data.len() as u64;
        for i in 0..c.stored * esize {
            tensor_data.push((i % 251) as u8);
        }
        sg::ConstantNodeArgs {
            shape: Some(shape_vec),
            data_type: sg::ConstantData::NONE,
            data: None,
            dtype: Some(sg::ConstantDataType(c.dtype)),
            data_offset: Some(c.offset_override.unwrap_or(off)),
        }
    };
    let cn = sg::ConstantNode::create(&mut b, &args);
    let name_w = b.create_string("w");
    let n0 = sg::Node::create(&mut b, &sg::NodeArgs { name: Some(name_w), data_type: sg::NodeKind::ConstantNode, data: Some(cn.as_union_value()) });
    let vn = sg::ValueNode::create(&mut b, &sg::ValueNodeArgs { shape: None, dtype: None });
    let name_y = b.create_string("y");
    let n1 = sg::Node::create(&mut b, &sg::NodeArgs { name: Some(name_y), data_type: sg::NodeKind::ValueNode, data: Some(vn.as_union_value()) });
    let ins = b.create_vector(&[c.op_in]);
    let outs = b.create_vector(&[c.op_out]);
    let op = sg::OperatorNode::create(
        &mut b,
        &sg::OperatorNodeArgs { type_: sg::OperatorType::Identity, attrs_type: sg::OperatorAttrs::NONE, attrs: None, inputs: Some(ins), outputs: Some(outs) },
    );
    let name_op = b.create_string("id");
    let n2 = sg::Node::create(&mut b, &sg::NodeArgs { name: Some(name_op), data_type: sg::NodeKind::OperatorNode, data: Some(op.as_union_value()) });
    let mut node_list = vec![n0, n1, n2];
    if let Some(in2) = c.op2_in {
        let vz = sg::ValueNode::create(&mut b, &sg::ValueNodeArgs { shape: None, dtype: None });
        let name_z = b.create_string("z");
        node_list.push(sg::Node::create(&mut b, &sg::NodeArgs { name: Some(name_z), data_type: sg::NodeKind::ValueNode, data: Some(vz.as_union_value()) }));
        let ins2 = b.create_vector(&[in2]);
        let outs2 = b.create_vector(&[3i32]);
        let op2 = sg::OperatorNode::create(
            &mut b,
            &sg::OperatorNodeArgs { type_: sg::OperatorType::Identity, attrs_type: sg::OperatorAttrs::NONE, attrs: None, inputs: Some(ins2), outputs: Some(outs2) },
        );
        let name_op2 = b.create_string("id2");
        node_list.push(sg::Node::create(&mut b, &sg::NodeArgs { name: Some(name_op2), data_type: sg::NodeKind::OperatorNode, data: Some(op2.as_union_value()) }));
    }
    let nodes = b.create_vector(&node_list[..]);
    let g_in = b.create_vector::<u32>(&[]);
    let g_out = b.create_vector(&[c.out_id]);
    let graph = sg::Graph::create(&mut b, &sg::GraphArgs { nodes: Some(nodes), inputs: Some(g_in), outputs: Some(g_out), captures: None });
    let model = sg::Model::create(&mut b, &sg::ModelArgs { schema_version: 1, graph: Some(graph), metadata: None });
    b.finish(model, None);
    let model_data = b.finished_data().to_vec();
    if v2 {
        let header = Header {
            version: 2,
            model_len: model_data.len() as u64,
            model_offset: Header::LEN as u64,
            tensor_data_offset: Header::LEN as u64 + model_data.len() as u64,
        };
        let mut f = header.to_buf();
        f.extend(model_data);
        f.extend(tensor_data);
        RtenFile { bytes: f, v2: true }
    } else {
        RtenFile { bytes: model_data, v2: false }
    }
}

// ------------------------------------------------------------------ cases

#[derive(Clone)]
struct FCase {
    fmt: &'static str,
    gen_name: String,
    mutation: String,
    bytes: Vec<u8>,
    ext: Option<Vec<u8>>,
}

const P16: i64 = 1 << 16;
const P31: i64 = 1 << 31;
const P32: i64 = 1 << 32;
const P62: i64 = 1 << 62;

/// (label, dims, number of elements stored)
fn onnx_shape_mutations(cands: &[Vec<i64>]) -> Vec<(String, Vec<i64>, usize)> {
    let mut v: Vec<(String, Vec<i64>, usize)> = vec![
        ("true".into(), vec![2, 3], 6),
        ("count-1".into(), vec![2, 3], 5),
        ("count+1".into(), vec![2, 3], 7),
        ("empty data".into(), vec![2, 3], 0),
        ("zero dim, data".into(), vec![0, 3], 6),
        ("zero dim, no data".into(), vec![0, 3], 0),
        ("negative dim".into(), vec![-1, 6], 6),
        ("negative dim".into(), vec![2, -3], 6),
        ("negative dims".into(), vec![-2, -3], 6),
        ("dim 2^31".into(), vec![P31, 1], 6),
        ("dim 2^32".into(), vec![P32], 6),
        ("dim 2^63-1".into(), vec![i64::MAX], 6),
        ("dim 2^63-1".into(), vec![i64::MAX, 1], 0),
        ("product 2^64 wraps to 0".into(), vec![P32, P32], 0),
        ("product 2^64 wraps to 0".into(), vec![P16, P16, P16, P16], 0),
        ("product 2^64 wraps to 0".into(), vec![P62, 4], 0),
        ("product 2^65 wraps to 0".into(), vec![P32, P32, 2], 0),
        ("product 2^64 wraps to 0, data".into(), vec![P32, P32], 6),
        // 3 * ((2^64 + 2) / 3) = 2^64 + 2  and  5 * ((2^64 + 4) / 5) = 2^64 + 4
        ("product wraps to the data length".into(), vec![3, 6148914691236517206], 2),
        ("product wraps to the data length".into(), vec![5, 3689348814741910324], 4),
        ("product 2^63".into(), vec![P62, 2], 0),
        ("scalar".into(), vec![], 1),
        ("scalar, 2 elements".into(), vec![], 2),
        ("scalar, no data".into(), vec![], 0),
        ("rank 1".into(), vec![6], 6),
    ];
    for c in cands {
        v.push(("TLC candidate: product wraps to 0".into(), c.clone(), 0));
    }
    v
}

fn gen_onnx(rng: &mut Rng, quick: bool, cands: &[Vec<i64>], scale: usize) -> Vec<FCase> {
    let mut v = Vec::new();
    let muts = onnx_shape_mutations(cands);
    for (dtype, esize, dname) in DTYPES {
        for (label, dims, stored) in &muts {
            for srck in ["raw", "typed", "external"] {
                if quick && label.starts_with("TLC") && (*dname != "f32" || srck != "raw") {
                    continue;
                }
                let raw: Vec<u8> = (0..stored * esize).map(|i| (i % 7) as u8).collect();
                let (src, ext) = match srck {
                    "raw" => (Src::Raw(raw), None),
                    "typed" => (Src::Typed(*stored), None),
                    _ => {
                        let mut file = vec![0xAAu8; 8];
                        file.extend_from_slice(&raw);
                        file.extend_from_slice(&[0xBB; 8]);
                        (Src::External(file.clone(), 8, raw.len() as u64), Some(file))
                    }
                };
                for cop in [false, true] {
                    if cop && (srck == "external" || (quick && *dname != "f32" && *dname != "i64")) {
                        continue;
                    }
                    v.push(FCase {
                        fmt: "onnx",
                        gen_name: format!("{dname}/{srck}{}", if cop { "/constant-op" } else { "" }),
                        mutation: label.clone(),
                        bytes: onnx_model(*dtype, dims, &src, cop),
                        ext: ext.clone(),
                    });
                }
            }
        }
        // raw data whose length is not a multiple of the element size
        if *esize > 1 {
            let raw = vec![1u8; 6 * esize + 1];
            v.push(FCase { fmt: "onnx", gen_name: format!("{dname}/raw"), mutation: "raw length not a multiple of the element size".into(), bytes: onnx_model(*dtype, &[2, 3], &Src::Raw(raw), false), ext: None });
        }
    }
    // probes: read one element far outside the (empty) backing buffer of a
    // constant whose dims product wrapped to 0
    for (label, dims) in [("product 2^64 wraps to 0", vec![P32, P32]), ("true", vec![2, 3])] {
        let stored = if dims[0] == 2 { 6 } else { 0 };
        let t = onnx_tensor(onnx::FLOAT, &dims, &Src::Raw(vec![0u8; stored * 4]), "w");
        let idx_raw: Vec<u8> = [1i64, 1].iter().flat_map(|x| x.to_le_bytes()).collect();
        let idx = onnx_tensor(onnx::INT64, &[1, 2], &Src::Raw(idx_raw), "idx");
        let mut g = Vec::new();
        f_bytes(&mut g, 1, &onnx::Node::new("GatherND", &["w", "idx"], &["y"]).encode());
        f_str(&mut g, 2, "g");
        f_bytes(&mut g, 5, &t);
        f_bytes(&mut g, 5, &idx);
        f_bytes(&mut g, 12, &onnx::ValueInfo::new("y", onnx::FLOAT, None).encode());
        let mut m = Vec::new();
        f_varint(&mut m, 1, 9);
        f_str(&mut m, 2, "verif");
        f_bytes(&mut m, 7, &g);
        let mut ops = Vec::new();
        f_str(&mut ops, 1, "");
        f_varint(&mut ops, 2, 21);
        f_bytes(&mut m, 8, &ops);
        v.push(FCase { fmt: "onnx", gen_name: "f32/raw/gathernd-probe".into(), mutation: label.into(), bytes: m, ext: None });
    }
    // consistently inflated chains of lengths (a field declares far more bytes
    // than the file holds, every enclosing message agrees), every site of
    // three documents incl. packed float/double/int data, raw_data, strings
    for (name, items) in crate::proto::base_docs() {
        if !(name == "identity" || name == "tensors" || name == "subgraph") {
            continue;
        }
        let nsites = crate::pb::sites(&items).len();
        for i in 0..nsites {
            for (lname, l) in crate::proto::INFLATED_LENS {
                if quick && !(*lname == "2^40" || *lname == "2^63+8") {
                    continue;
                }
                if let Some((bytes, s)) = crate::pb::encode_inflated(&items, i, *l) {
                    v.push(FCase { fmt: "onnx", gen_name: format!("inflate:{name}"), mutation: format!("{} field at depth {} declares {lname} bytes, ancestors agree", s.kind, s.depth), bytes, ext: None });
                }
            }
        }
    }
    // unsupported / missing data types, external data that is missing
    for dt in [0, 8, 12, 16, 99] {
        v.push(FCase { fmt: "onnx", gen_name: "dtype".into(), mutation: format!("data type {dt}"), bytes: onnx_model(dt, &[2], &Src::Raw(vec![0; 8]), false), ext: None });
    }
    v.push(FCase { fmt: "onnx", gen_name: "f32/external".into(), mutation: "external data not provided".into(), bytes: onnx_model(onnx::FLOAT, &[2], &Src::External(vec![], 0, 8), false), ext: None });
    for (off, len) in [(0u64, 9u64), (8, u64::MAX), (u64::MAX, 8), (1 << 63, 1 << 63), (u64::MAX - 7, 8), (1, 4)] {
        let file = vec![0x11u8; 16];
        v.push(FCase { fmt: "onnx", gen_name: "f32/external".into(), mutation: format!("external offset {off} length {len}"), bytes: onnx_model(onnx::FLOAT, &[2], &Src::External(file.clone(), off, len), false), ext: Some(file) });
    }
    // decoder-level inputs (the protobuf decoder is judged in detail by C38)
    v.push(FCase { fmt: "onnx", gen_name: "protobuf".into(), mutation: "skipped field of length 2^64-11".into(), bytes: vec![0x08, 0x09, 0x3a, 0x00, 0x7a, 0xf1, 0xff, 0xff, 0xff, 0xff, 0xff, 0xff, 0xff, 0xff, 0x01], ext: None });
    {
        let mut b = vec![0x08, 0x09, 0x3a, 0x00, 0x12];
        varint(&mut b, 1 << 63);
        v.push(FCase { fmt: "onnx", gen_name: "protobuf".into(), mutation: "string field of length 2^63".into(), bytes: b, ext: None });
        let mut b = vec![0x08, 0x09, 0x3a, 0x00, 0x12];
        varint(&mut b, 1 << 40);
        v.push(FCase { fmt: "onnx", gen_name: "protobuf".into(), mutation: "string field of length 2^40".into(), bytes: b, ext: None });
        let mut b = vec![0x08, 0x09, 0x3a, 0x00, 0x08];
        b.extend_from_slice(&[0xff; 10]);
        b.push(0x01);
        v.push(FCase { fmt: "onnx", gen_name: "protobuf".into(), mutation: "varint with 10 continuation bytes".into(), bytes: b, ext: None });
    }
    // seeded flips and truncations of valid models
    let bases: Vec<Vec<u8>> = vec![
        onnx_model(onnx::FLOAT, &[2, 3], &Src::Raw(vec![0; 24]), false),
        onnx_model(onnx::INT64, &[2, 3], &Src::Typed(6), false),
        onnx_model(onnx::UINT8, &[2, 3], &Src::Raw(vec![0; 6]), true),
    ];
    let nflip = (if quick { 120 } else { 6000 }) * scale / 100;
    for i in 0..nflip {
        let base = &bases[i % bases.len()];
        let mut b = base.clone();
        if rng.chance(1, 6) {
            b.truncate(rng.below(b.len()));
        } else {
            for _ in 0..1 + rng.below(3) {
                let k = rng.below(b.len());
                b[k] = match rng.below(4) {
                    0 => 0xff,
                    1 => b[k] ^ (1 << rng.below(8)),
                    2 => b[k].wrapping_add(1),
                    _ => rng.below(256) as u8,
                };
            }
        }
        v.push(FCase { fmt: "onnx", gen_name: "seeded".into(), mutation: "flip/truncate".into(), bytes: b, ext: None });
    }
    v
}

fn put_u64(b: &mut [u8], at: usize, v: u64) {
    b[at..at + 8].copy_from_slice(&v.to_le_bytes());
}

fn gen_rten(rng: &mut Rng, quick: bool, cands: &[Vec<i64>], scale: usize) -> Vec<FCase> {
    let mut v = Vec::new();
    let p16 = 1u32 << 16;
    let p31 = 1u32 << 31;
    let mut shapes: Vec<(String, Vec<u32>, usize)> = vec![
        ("true".into(), vec![2, 3], 6),
        ("count-1".into(), vec![2, 3], 5),
        ("count+1".into(), vec![2, 3], 7),
        ("empty data".into(), vec![2, 3], 0),
        ("zero dim, data".into(), vec![0, 3], 6),
        ("zero dim, no data".into(), vec![0, 3], 0),
        ("dim 2^31".into(), vec![p31], 6),
        ("dim 2^32-1".into(), vec![u32::MAX], 6),
        ("product 2^64 wraps to 0".into(), vec![p16, p16, p16, p16], 0),
        ("product 2^64 wraps to 0, data".into(), vec![p16, p16, p16, p16], 6),
        ("product 2^62: byte length wraps for 4-byte elements".into(), vec![p31, p31], 0),
        ("product 2^62: byte length wraps for 4-byte elements".into(), vec![p31, p31], 6),
        ("product 2^63".into(), vec![p31, p31, 2], 0),
        // 3 * 1431655766 = 2^32 + 2; ((2^32+2)^2 = 2^64 + 2^34 + 4 wraps to 2^34 + 4: too large to store)
        ("product wraps to the data length".into(), vec![p31, p31, 4, 1], 0),
        ("scalar".into(), vec![], 1),
        ("scalar, 2 elements".into(), vec![], 2),
        ("scalar, no data".into(), vec![], 0),
    ];
    for c in cands {
        // split each 2^(16a) into a dims of 2^16 (the file format stores u32 dims)
        let mut s: Vec<u32> = Vec::new();
        for d in c {
            let mut e = d.trailing_zeros();
            if e == 0 {
                s.push(1);
            }
            while e >= 16 {
                s.push(p16);
                e -= 16;
            }
            if e > 0 {
                s.push(1u32 << e);
            }
        }
        shapes.push(("TLC candidate: product wraps to 0".into(), s, 0));
    }
    for (dtype, dname) in [(0u16, "i32"), (1, "f32"), (2, "i8"), (3, "u8"), (99, "dtype99")] {
        for (label, shape, stored) in &shapes {
            for (inline, v2) in [(true, true), (false, true), (true, false)] {
                if quick && label.starts_with("TLC") && dtype > 1 {
                    continue;
                }
                let c = RConst { shape: shape.clone(), dtype, stored: *stored, inline, offset_override: None, out_id: 1, op_in: 0, op_out: 1, op2_in: None };
                v.push(FCase {
                    fmt: "rten",
                    gen_name: format!("{dname}/{}{}", if inline { "inline" } else { "offset" }, if v2 { "" } else { "/v1" }),
                    mutation: label.clone(),
                    bytes: rten_model(&c, v2).bytes,
                    ext: None,
                });
            }
        }
        // data_offset boundaries (external constants)
        for off in [0u64, 1, 7, 8, 9, 32, 33, 1 << 31, 1 << 32, (1 << 63) - 1, 1 << 63, u64::MAX - 600, u64::MAX - 7, u64::MAX] {
            let c = RConst { shape: vec![2, 3], dtype, stored: 6, inline: false, offset_override: Some(off), out_id: 1, op_in: 0, op_out: 1, op2_in: None };
            v.push(FCase { fmt: "rten", gen_name: format!("{dname}/offset"), mutation: format!("data_offset {off}"), bytes: rten_model(&c, true).bytes, ext: None });
        }
    }
    // graph output ids that do not name a value node
    for out_id in [0u32, 2, 3, 7, 1 << 31, u32::MAX] {
        let c = RConst { shape: vec![2, 3], dtype: 1, stored: 6, inline: true, offset_override: None, out_id, op_in: 0, op_out: 1, op2_in: None };
        v.push(FCase { fmt: "rten", gen_name: "graph".into(), mutation: format!("output id {out_id}"), bytes: rten_model(&c, true).bytes, ext: None });
    }
    // operator inputs / outputs that do not name a value or constant node
    for (op_in, op_out) in [(2, 1), (1, 1), (0, 0), (0, 2), (2, 2), (3, 1), (0, 3), (-1, 1), (0, -1), (i32::MAX, 1), (i32::MIN, 1)] {
        let c = RConst { shape: vec![2, 3], dtype: 1, stored: 6, inline: true, offset_override: None, out_id: 1, op_in, op_out, op2_in: None };
        v.push(FCase { fmt: "rten", gen_name: "graph".into(), mutation: format!("operator input {op_in} output {op_out}"), bytes: rten_model(&c, true).bytes, ext: None });
    }
    // a second operator whose input names a value (valid), the first OPERATOR node, or itself
    for in2 in [1, 0, 2, 3, 4] {
        let c = RConst { shape: vec![2, 3], dtype: 1, stored: 6, inline: true, offset_override: None, out_id: 3, op_in: 0, op_out: 1, op2_in: Some(in2) };
        v.push(FCase { fmt: "rten", gen_name: "graph".into(), mutation: format!("second operator input {in2}"), bytes: rten_model(&c, true).bytes, ext: None });
    }
    // header fields at each boundary
    let base = rten_model(&RConst { shape: vec![2, 3], dtype: 1, stored: 6, inline: false, offset_override: None, out_id: 1, op_in: 0, op_out: 1, op2_in: None }, true);
    assert!(base.v2);
    let fs = base.bytes.len() as u64;
    let ml = u64::from_le_bytes(base.bytes[16..24].try_into().unwrap());
    let vals = |x: u64| -> Vec<u64> { vec![0, 1, 31, 32, 33, x.wrapping_sub(1), x, x + 1, fs - 1, fs, fs + 1, 1 << 31, 1 << 32, (1 << 63) - 1, 1 << 63, u64::MAX - fs, u64::MAX - 32, u64::MAX] };
    for (field, at, cur) in [("model_offset", 8usize, 32u64), ("model_len", 16, ml), ("tensor_data_offset", 24, 32 + ml)] {
        for x in vals(cur) {
            let mut b = base.bytes.clone();
            put_u64(&mut b, at, x);
            v.push(FCase { fmt: "rten", gen_name: "header".into(), mutation: format!("{field} {x}"), bytes: b, ext: None });
        }
    }
    for ver in [0u32, 1, 3, u32::MAX] {
        let mut b = base.bytes.clone();
        b[4..8].copy_from_slice(&ver.to_le_bytes());
        v.push(FCase { fmt: "rten", gen_name: "header".into(), mutation: format!("version {ver}"), bytes: b, ext: None });
    }
    for cut in [0usize, 3, 4, 8, 16, 24, 31, 32, 33] {
        v.push(FCase { fmt: "rten", gen_name: "header".into(), mutation: format!("truncated to {cut}"), bytes: base.bytes[..cut].to_vec(), ext: None });
    }
    // seeded flips / truncations of valid files (built ones and the repository's test models)
    let mut bases: Vec<Vec<u8>> = vec![
        base.bytes.clone(),
        rten_model(&RConst { shape: vec![2, 3], dtype: 0, stored: 6, inline: true, offset_override: None, out_id: 1, op_in: 0, op_out: 1, op2_in: None }, true).bytes,
        rten_model(&RConst { shape: vec![2, 3], dtype: 3, stored: 6, inline: true, offset_override: None, out_id: 1, op_in: 0, op_out: 1, op2_in: None }, false).bytes,
    ];
    for p in ["/repo/model-load-file-test.rten", "/repo/model-load-mmap-test.rten"] {
        if let Ok(b) = std::fs::read(p) {
            v.push(FCase { fmt: "rten", gen_name: "repo file".into(), mutation: "true".into(), bytes: b.clone(), ext: None });
            // node indices are small integers: overwrite single bytes with 0..4
            // (all positions in the thorough tier; quick: the positions that hold a 1..4)
            for k in 0..b.len() {
                if quick && !(1..=4).contains(&b[k]) {
                    continue;
                }
                for val in 0u8..=4 {
                    if b[k] != val && (!quick || val == 1 || val == 0) {
                        let mut m = b.clone();
                        m[k] = val;
                        v.push(FCase { fmt: "rten", gen_name: "repo file".into(), mutation: format!("byte {k} := {val}"), bytes: m, ext: None });
                    }
                }
            }
            bases.push(b);
        }
    }
    let nflip = (if quick { 300 } else { 12000 }) * scale / 100;
    for i in 0..nflip {
        let base = &bases[i % bases.len()];
        let mut b = base.clone();
        let hdr = if b.starts_with(b"RTEN") { 32 } else { 0 };
        if rng.chance(1, 8) {
            b.truncate(rng.below(b.len()));
        } else {
            for _ in 0..1 + rng.below(3) {
                // favour the flatbuffers part (offsets, vtables, lengths)
                let k = if rng.chance(3, 4) && b.len() > hdr + 64 { hdr + rng.below(b.len() - hdr) } else { rng.below(b.len()) };
                b[k] = match rng.below(5) {
                    0 => 0xff,
                    1 => b[k] ^ (1 << rng.below(8)),
                    2 => b[k].wrapping_add(4),
                    3 => 0,
                    _ => rng.below(256) as u8,
                };
            }
        }
        v.push(FCase { fmt: "rten", gen_name: "seeded".into(), mutation: "flip/truncate".into(), bytes: b, ext: None });
    }
    v
}

// ------------------------------------------------------------------ child

fn sanitize(s: &str) -> String {
    s.chars()
        .map(|c| if c.is_ascii_alphanumeric() || " _-:.,()".contains(c) { c } else { '?' })
        .take(100)
        .collect()
}

/// Coarse class of a panic / error message (used in signatures only).
fn err_class(msg: &str) -> &'static str {
    for k in [
        "attempt to multiply with overflow",
        "attempt to add with overflow",
        "attempt to subtract with overflow",
        "attempt to negate with overflow",
        "attempt to shift",
        "attempt to divide",
        "unsafe precondition",
        "entered unreachable code",
        "does not match shape",
        "assertion failed", "capacity overflow", "out of range", "out of bounds", "overflow", "unwrap", "storage does not contain data"] {
        if msg.contains(k) {
            return k;
        }
    }
    ""
}

fn panic_msg(e: Box<dyn std::any::Any + Send>) -> String {
    if let Some(s) = e.downcast_ref::<&str>() {
        s.to_string()
    } else if let Some(s) = e.downcast_ref::<String>() {
        s.clone()
    } else {
        "panic".to_string()
    }
}

fn const_record<T>(name: &str, dtype: &str, v: rten_tensor::TensorView<T>) -> Value {
    let shape: Vec<Value> = v.shape().iter().map(|d| limbs(*d as u64)).collect();
    json!({"ev": "const", "name": name, "dtype": dtype, "shape": shape,
           "count": limbs(v.len() as u64), "backing": limbs(v.storage().len() as u64)})
}

fn run_case(item: &Value) {
    let api = item["api"].as_str().unwrap_or("");
    let fmt = item["fmt"].as_str().unwrap_or("");
    let bytes = unhex(item["hex"].as_str().unwrap_or(""));
    let ext = item["ext"].as_str().map(unhex);
    let dir = tempfile::tempdir().expect("temp dir");
    let path = dir.path().join(if fmt == "onnx" { "m.onnx" } else { "m.rten" });
    crate::track::reset();
    let loaded = std::panic::catch_unwind(std::panic::AssertUnwindSafe(|| {
        let mut opts = rten::ModelOptions::with_all_ops();
        match api {
            "load" => {
                if let Some(e) = &ext {
                    opts.external_data("w.data", e.clone());
                }
                opts.load(bytes.clone())
            }
            "load_file" | "load_mmap" => {
                std::fs::write(&path, &bytes).unwrap();
                if let Some(e) = &ext {
                    std::fs::write(dir.path().join("w.data"), e).unwrap();
                }
                if api == "load_file" { opts.load_file(&path) } else { unsafe { opts.load_mmap(&path) } }
            }
            _ => {
                eprintln!("unknown api {api}");
                std::process::exit(2);
            }
        }
    }));
    let maxalloc = limbs(crate::track::max_request());
    let model = match loaded {
        Err(e) => {
            let m = panic_msg(e);
            println!("{}", json!({"ev": "load", "outcome": "panic", "err": sanitize(&m), "errclass": err_class(&m), "maxalloc": maxalloc}));
            println!("{}", json!({"ev": "run", "outcome": "skipped", "detail": ""}));
            return;
        }
        Ok(Err(e)) => {
            println!("{}", json!({"ev": "load", "outcome": "err", "err": sanitize(&e.to_string()), "errclass": "", "maxalloc": maxalloc}));
            println!("{}", json!({"ev": "run", "outcome": "skipped", "detail": ""}));
            return;
        }
        Ok(Ok(m)) => m,
    };
    println!("{}", json!({"ev": "load", "outcome": "ok", "err": "", "errclass": "", "maxalloc": maxalloc}));
    let mut n = 0;
    for (_, node) in model.verif_graph().iter() {
        if let rten::verif::Node::Constant(c) = node {
            if n >= 32 {
                break;
            }
            n += 1;
            let name = sanitize(c.name().unwrap_or(""));
            let rec = match c.as_view() {
                rten::ValueView::FloatTensor(v) => const_record(&name, "f32", v),
                rten::ValueView::Int32Tensor(v) => const_record(&name, "i32", v),
                rten::ValueView::Int8Tensor(v) => const_record(&name, "i8", v),
                rten::ValueView::UInt8Tensor(v) => const_record(&name, "u8", v),
                _ => continue,
            };
            println!("{}", rec);
        }
    }
    // Bounded smoke run: only models without inputs.
    if !model.input_ids().is_empty() || model.output_ids().is_empty() {
        println!("{}", json!({"ev": "run", "outcome": "skipped", "detail": "model has inputs"}));
        return;
    }
    let outs = model.output_ids().to_vec();
    let r = std::panic::catch_unwind(std::panic::AssertUnwindSafe(|| model.run(vec![], &outs, None)));
    let rec = match r {
        Ok(Ok(_)) => json!({"ev": "run", "outcome": "ok", "detail": ""}),
        Ok(Err(e)) => json!({"ev": "run", "outcome": "err", "detail": sanitize(&e.to_string())}),
        Err(e) => json!({"ev": "run", "outcome": "panic", "detail": sanitize(&panic_msg(e))}),
    };
    println!("{}", rec);
}

/// `vh-load fuzz-batch <file> <from>`
pub fn main_batch_child() {
    crate::child::terse_panics();
    batch_child_main(&run_case);
}

// ------------------------------------------------------------------ driver

const AS_LIMIT: u64 = 8 << 30;

fn parse_cands(path: &str) -> Vec<Vec<i64>> {
    // power-of-two shapes accepted with an empty buffer at word size 2^4 (or 2^6):
    // 2^a scales to 2^(a * ceil(64 / log2 W))
    let mut out: Vec<Vec<i64>> = Vec::new();
    for c in read_json_lines(path) {
        let w = c["w"].as_u64().unwrap_or(16);
        let bits = w.trailing_zeros().max(1);
        let scale = (64 + bits - 1) / bits; // total exponent >= log2 W  =>  scaled total >= 64
        if c["kind"] != "fromdata" || c["dlen"].as_u64() != Some(0) {
            continue;
        }
        let dims: Vec<u64> = c["shape"].as_array().map(|a| a.iter().map(|x| x.as_u64().unwrap_or(0)).collect()).unwrap_or_default();
        if dims.is_empty() || dims.iter().any(|d| *d == 0 || !d.is_power_of_two()) {
            continue;
        }
        let scaled: Vec<i64> = dims.iter().map(|d| d.trailing_zeros() * scale).map(|e| if e >= 63 { -1 } else { 1i64 << e }).collect();
        if scaled.iter().any(|d| *d < 0) || scaled.iter().all(|d| *d == 1) {
            continue;
        }
        if !out.contains(&scaled) {
            out.push(scaled);
        }
    }
    out
}

/// Attribution of a load that did not return: does the traced protobuf decode
/// (C38's tracing reader, `proto-batch traced_buf`) of the same bytes exceed
/// its operation bound or its CPU budget?
fn decoder_spins(bytes: &[u8]) -> bool {
    let path = std::env::temp_dir().join(format!("vh-load-{}-probe.jsonl", std::process::id()));
    std::fs::write(&path, format!("{}\n", json!({"api": "traced_buf", "hex": hex(bytes), "deepnest": 0}))).unwrap();
    let r = run_batch("proto-batch", &path.to_string_lossy(), 1, 500, 20_000, AS_LIMIT);
    let _ = std::fs::remove_file(&path);
    match r.first() {
        Some(it) => it.status == "timeout" || it.lines.iter().any(|l| l.contains("\"outcome\":\"oplimit\"")),
        None => false,
    }
}

/// `vh-load fuzz --out trace.ndjson [--cands file] [--only-case json]`
pub fn main_fuzz() {
    let _scratch = crate::child::scratch_tmpdir();
    let out = arg_or("--out", "fuzz.ndjson");
    let quick = std::env::var("VERIF_TIER").map(|t| t != "thorough").unwrap_or(true);
    let threads = arg_usize("--threads", 8);
    rayon::ThreadPoolBuilder::new().num_threads(threads).build_global().unwrap();
    let mut rng = Rng::from_env();
    let cands = arg("--cands").map(|p| parse_cands(&p)).unwrap_or_default();
    // (case, api)
    let mut jobs: Vec<(FCase, &'static str)> = Vec::new();
    if let Some(c) = arg("--only-case") {
        let c: Value = serde_json::from_str(&c).expect("case json");
        let fmt: &'static str = if c["fmt"] == "rten" { "rten" } else { "onnx" };
        let api: &'static str = match c["api"].as_str().unwrap_or("") {
            "load_file" => "load_file",
            "load_mmap" => "load_mmap",
            _ => "load",
        };
        jobs.push((
            FCase {
                fmt,
                gen_name: c["gen"].as_str().unwrap_or("").into(),
                mutation: c["mutation"].as_str().unwrap_or("").into(),
                bytes: unhex(c["hex"].as_str().unwrap_or("")),
                ext: c["ext"].as_str().filter(|s| !s.is_empty()).map(unhex),
            },
            api,
        ));
    } else {
        // a deterministic spread of the TLC candidates (every k-th of the sorted list)
        let mut sorted = cands.clone();
        sorted.sort();
        let want = if quick { 12 } else { 150 };
        let stride = sorted.len().div_ceil(want).max(1);
        let cands_used: Vec<Vec<i64>> = sorted.into_iter().step_by(stride).collect();
        let scale = arg_usize("--scale", 100);
        let mut cases = gen_onnx(&mut rng, quick, &cands_used, scale);
        cases.extend(gen_rten(&mut rng, quick, &cands_used, scale));
        for c in cases {
            let apis: &[&'static str] = if c.fmt == "rten" || !quick || c.gen_name.starts_with("inflate") { &["load", "load_file", "load_mmap"] } else { &["load", "load_file"] };
            for api in apis {
                jobs.push((c.clone(), api));
            }
        }
    }
    let chunk = 200usize;
    let nb = jobs.len().div_ceil(chunk).max(1);
    let batches: Vec<Vec<usize>> = (0..nb).map(|b| (b..jobs.len()).step_by(nb).collect()).collect();
    let dir = std::env::temp_dir();
    let pid = std::process::id();
    let res: Vec<Vec<(usize, ItemResult)>> = batches
        .par_iter()
        .enumerate()
        .map(|(ci, idxs)| {
            let path = dir.join(format!("vh-load-{pid}-fuzz-{ci}.jsonl"));
            {
                let mut f = std::io::BufWriter::new(std::fs::File::create(&path).unwrap());
                for &i in idxs {
                    let (c, api) = &jobs[i];
                    let item = json!({"api": api, "fmt": c.fmt, "hex": hex(&c.bytes), "ext": c.ext.as_ref().map(|e| hex(e))});
                    writeln!(f, "{}", item).unwrap();
                }
            }
            let path_s = path.to_string_lossy().to_string();
            let mut r = run_batch("fuzz-batch", &path_s, idxs.len(), 1500, 40_000, AS_LIMIT);
            // a timeout counts only if it reproduces when the item runs alone
            for (k, item) in r.iter_mut().enumerate() {
                if item.status == "timeout" {
                    let (c, api) = &jobs[idxs[k]];
                    let one = json!({"api": api, "fmt": c.fmt, "hex": hex(&c.bytes), "ext": c.ext.as_ref().map(|e| hex(e))});
                    std::fs::write(&path, format!("{}\n", one)).unwrap();
                    *item = run_batch("fuzz-batch", &path_s, 1, 1500, 40_000, AS_LIMIT).into_iter().next().unwrap();
                }
            }
            let _ = std::fs::remove_file(&path);
            idxs.iter().cloned().zip(r.into_iter()).collect()
        })
        .collect();
    let mut results: Vec<Option<ItemResult>> = vec![None; jobs.len()];
    for (i, r) in res.into_iter().flatten() {
        results[i] = Some(r);
    }
    let mut tr = Trace::create(&out);
    for (id, (c, api)) in jobs.iter().enumerate() {
        tr.emit(json!({"ev": "case", "id": id, "build": crate::proto::build_name(), "fmt": c.fmt, "api": api, "gen": c.gen_name, "mutation": c.mutation,
                       "n": c.bytes.len(), "hex": if c.bytes.len() <= 2048 { hex(&c.bytes) } else { String::new() },
                       "ext": c.ext.as_ref().map(|e| hex(e)).unwrap_or_default()}));
        let r = results[id].as_ref().unwrap();
        let mut have_load = false;
        let mut have_run = false;
        for l in &r.lines {
            if let Ok(v) = serde_json::from_str::<Value>(l) {
                match v["ev"].as_str() {
                    Some("load") => have_load = true,
                    Some("run") => have_run = true,
                    Some("const") => {}
                    _ => continue,
                }
                tr.emit(v);
            }
        }
        let died = match r.status {
            "done" => "",
            "timeout" => "timeout",
            "signal" => "abort",
            _ => "panic",
        };
        let detail = if r.status == "signal" { format!("signal {}", r.code) } else { sanitize(&r.stderr) };
        // class of a failure that killed the child, from what it printed / from a decoder probe
        let errclass = if r.stderr.contains("unsafe precondition") {
            "unsafe precondition violated (std UB check)"
        } else if r.stderr.contains("memory allocation") {
            "memory allocation failed"
        } else if r.stderr.contains("overflowed its stack") {
            "stack overflow"
        } else if r.status == "timeout" && c.fmt == "onnx" && decoder_spins(&c.bytes) {
            "protobuf decoder does not terminate"
        } else {
            ""
        };
        if !have_load {
            tr.emit(json!({"ev": "load", "outcome": if died.is_empty() { "panic" } else { died }, "err": detail.clone(), "errclass": errclass, "maxalloc": []}));
            tr.emit(json!({"ev": "run", "outcome": "skipped", "detail": ""}));
        } else if !have_run {
            tr.emit(json!({"ev": "run", "outcome": if died.is_empty() { "panic" } else { died }, "detail": detail}));
        }
    }
    tr.flush();
    println!("cases {}", jobs.len());
}

#[allow(dead_code)]
fn unused(_: &mut Vec<u8>) {
    // keep helper imports used in all configurations
    let mut v = Vec::new();
    key(&mut v, 1, 0);
}
