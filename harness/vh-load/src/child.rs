//! Child-process runner that keeps the child's stdout in every case (the
//! shared `vcommon::run_child` drops it when the child dies).

use std::io::{Read, Write};
use std::os::unix::process::{CommandExt, ExitStatusExt};
use std::process::{Command, Stdio};

// ------------------------------------------------------------------ batches
//
// Spawning a process costs 50-100 ms on a loaded machine, so the cases are
// run in batches: one child runs many items and prints `#begin k` / `#end k`
// around the output of item k. When the child hangs or dies inside item k,
// that becomes the result of item k and a fresh child resumes at k + 1.

use std::sync::mpsc;
use std::time::{Duration, Instant};

#[derive(Clone, Debug)]
pub struct ItemResult {
    /// Output lines of the item (without the #begin/#end markers).
    pub lines: Vec<String>,
    /// "done" | "timeout" | "signal" | "exit"
    pub status: &'static str,
    pub code: i32,
    pub stderr: String,
}

/// CPU time (user + system) consumed so far by process `pid`, in ms.
fn cpu_ms(pid: u32) -> Option<u64> {
    let stat = std::fs::read_to_string(format!("/proc/{pid}/stat")).ok()?;
    // Fields after the ")" that closes the command name.
    let rest = &stat[stat.rfind(')')? + 2..];
    let f: Vec<&str> = rest.split_whitespace().collect();
    let utime: u64 = f.get(11)?.parse().ok()?;
    let stime: u64 = f.get(12)?.parse().ok()?;
    let hz = unsafe { libc::sysconf(libc::_SC_CLK_TCK) }.max(1) as u64;
    Some((utime + stime) * 1000 / hz)
}

/// Run items `0..n` of the batch file `file` with `<exe> <sub> <file> <from>`.
///
/// An item is a `timeout` when it consumed more than `cpu_limit_ms` of CPU
/// time (a spinning decoder; independent of machine load) or when it took
/// more than `wall_limit_ms` of wall-clock time.
pub fn run_batch(sub: &str, file: &str, n: usize, cpu_limit_ms: u64, wall_limit_ms: u64, as_limit: u64) -> Vec<ItemResult> {
    let mut results: Vec<Option<ItemResult>> = vec![None; n];
    let mut from = 0usize;
    while from < n {
        let exe = std::env::current_exe().unwrap();
        let mut cmd = Command::new(exe);
        cmd.args([sub, file, &from.to_string()])
            .env("RUST_BACKTRACE", "0")
            // loading is single-threaded work; idle pool threads only spin
            .env("RTEN_NUM_THREADS", "1")
            .env("RAYON_NUM_THREADS", "1")
            .stdin(Stdio::null())
            .stdout(Stdio::piped())
            .stderr(Stdio::piped());
        unsafe {
            cmd.pre_exec(move || {
                if as_limit > 0 {
                    let lim = libc::rlimit { rlim_cur: as_limit, rlim_max: as_limit };
                    libc::setrlimit(libc::RLIMIT_AS, &lim);
                }
                let nocore = libc::rlimit { rlim_cur: 0, rlim_max: 0 };
                libc::setrlimit(libc::RLIMIT_CORE, &nocore);
                Ok(())
            });
        }
        let mut child = cmd.spawn().expect("spawn batch child");
        let pid = child.id();
        let so = child.stdout.take().unwrap();
        let mut se = child.stderr.take().unwrap();
        let (tx, rx) = mpsc::channel::<String>();
        let t_out = std::thread::spawn(move || {
            use std::io::BufRead;
            let rd = std::io::BufReader::new(so);
            for line in rd.split(b'\n') {
                match line {
                    Ok(l) => {
                        if tx.send(String::from_utf8_lossy(&l).into_owned()).is_err() {
                            break;
                        }
                    }
                    Err(_) => break,
                }
            }
        });
        let t_err = std::thread::spawn(move || {
            let mut buf = Vec::new();
            let _ = se.read_to_end(&mut buf);
            buf
        });
        let mut cur: Option<usize> = None;
        let mut cur_lines: Vec<String> = Vec::new();
        let mut began = Instant::now();
        let mut began_cpu = 0u64;
        let mut idle_since = Instant::now();
        let mut timed_out = false;
        let handle = |line: String, cur: &mut Option<usize>, cur_lines: &mut Vec<String>, results: &mut Vec<Option<ItemResult>>, from: &mut usize| -> bool {
            // returns true when a new item began
            if let Some(k) = line.strip_prefix("#begin ") {
                *cur = k.trim().parse().ok();
                *cur_lines = Vec::new();
                return true;
            } else if line.starts_with("#end ") {
                if let Some(k) = cur.take() {
                    results[k] = Some(ItemResult { lines: std::mem::take(cur_lines), status: "done", code: 0, stderr: String::new() });
                    *from = k + 1;
                }
            } else if cur.is_some() {
                cur_lines.push(line);
            }
            false
        };
        let mut last_poll = Instant::now();
        loop {
            if cur.is_some() && last_poll.elapsed().as_millis() >= 40 {
                last_poll = Instant::now();
                let spun = cpu_ms(pid).map(|c| c.saturating_sub(began_cpu)).unwrap_or(0);
                if spun > cpu_limit_ms || began.elapsed().as_millis() as u64 > wall_limit_ms {
                    timed_out = true;
                    let _ = child.kill();
                    break;
                }
            } else if cur.is_none() && idle_since.elapsed().as_millis() as u64 > wall_limit_ms.max(60_000) {
                timed_out = true;
                let _ = child.kill();
                break;
            }
            match rx.recv_timeout(Duration::from_millis(40)) {
                Ok(line) => {
                    let was = cur.is_some();
                    if handle(line, &mut cur, &mut cur_lines, &mut results, &mut from) {
                        began = Instant::now();
                        began_cpu = cpu_ms(pid).unwrap_or(0);
                    }
                    if was && cur.is_none() {
                        idle_since = Instant::now();
                    }
                }
                Err(mpsc::RecvTimeoutError::Timeout) => {}
                Err(mpsc::RecvTimeoutError::Disconnected) => break,
            }
        }
        let st = child.wait().ok();
        let _ = t_out.join();
        // Lines that arrived between the last recv and the end.
        while let Ok(line) = rx.try_recv() {
            handle(line, &mut cur, &mut cur_lines, &mut results, &mut from);
        }
        let err = t_err.join().unwrap_or_default();
        // the tail: what the child printed last is what killed it
        let all = String::from_utf8_lossy(&err);
        let skip = all.chars().count().saturating_sub(500);
        let stderr: String = all.chars().skip(skip).collect();
        let (status, code): (&'static str, i32) = if timed_out {
            ("timeout", 0)
        } else {
            match st {
                Some(s) if s.success() => ("exit0", 0),
                Some(s) => match s.signal() {
                    Some(sig) => ("signal", sig),
                    None => ("exit", s.code().unwrap_or(-1)),
                },
                None => ("exit", -1),
            }
        };
        if from >= n && status == "exit0" {
            break;
        }
        // The child stopped early: blame the item that was running (or the
        // first pending item if none had begun, so that progress is made).
        let k = cur.unwrap_or(from);
        if k < n && results[k].is_none() {
            results[k] = Some(ItemResult {
                lines: std::mem::take(&mut cur_lines),
                status: if status == "exit0" { "exit" } else { status },
                code,
                stderr,
            });
        }
        from = k + 1;
    }
    results
        .into_iter()
        .map(|r| r.unwrap_or(ItemResult { lines: vec![], status: "exit", code: -2, stderr: "no result".into() }))
        .collect()
}

/// Make a scratch directory and route every temporary file of this process and
/// of its children into it (TMPDIR), so that files left behind by killed
/// children disappear with it. Call before any thread is started.
pub fn scratch_tmpdir() -> tempfile::TempDir {
    let dir = tempfile::tempdir().expect("scratch dir");
    // Safety: called at the start of main, before other threads exist.
    unsafe { std::env::set_var("TMPDIR", dir.path()) };
    dir
}

/// Panic hook of the children: one line (location and message) instead of a
/// backtrace, so that the parent can classify a panic that kills the process
/// (non-unwinding panics of std's debug assertions). `VH_LOUD=1` keeps the
/// default hook for triage.
pub fn terse_panics() {
    if std::env::var("VH_LOUD").is_ok() {
        return;
    }
    std::panic::set_hook(Box::new(|info| {
        let msg: String = info.to_string().chars().map(|c| if c == '\n' { ' ' } else { c }).take(240).collect();
        eprintln!("PANIC {msg}");
    }));
}

/// Child side: run `handler(item)` for the items `from..` of the batch file.
pub fn batch_child_main(handler: &dyn Fn(&vcommon::Value)) {
    let file = std::env::args().nth(2).expect("batch file");
    let from: usize = std::env::args().nth(3).and_then(|s| s.parse().ok()).unwrap_or(0);
    let items = vcommon::read_json_lines(&file);
    for (k, item) in items.iter().enumerate().skip(from) {
        println!("#begin {k}");
        let _ = std::io::stdout().flush();
        handler(item);
        println!("#end {k}");
        let _ = std::io::stdout().flush();
    }
}
