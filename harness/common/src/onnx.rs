//! Minimal hand-written ONNX protobuf encoder, enough to build models that
//! `rten::ModelOptions::load` accepts.

pub const FLOAT: i32 = 1;
pub const UINT8: i32 = 2;
pub const INT8: i32 = 3;
pub const INT32: i32 = 6;
pub const INT64: i32 = 7;
pub const BOOL: i32 = 9;
pub const DOUBLE: i32 = 11;

pub fn varint(out: &mut Vec<u8>, mut v: u64) {
    loop {
        let b = (v & 0x7f) as u8;
        v >>= 7;
        if v == 0 {
            out.push(b);
            break;
        }
        out.push(b | 0x80);
    }
}

pub fn key(out: &mut Vec<u8>, field: u32, wire: u32) {
    varint(out, ((field << 3) | wire) as u64);
}

pub fn f_varint(out: &mut Vec<u8>, field: u32, v: i64) {
    key(out, field, 0);
    varint(out, v as u64);
}

pub fn f_bytes(out: &mut Vec<u8>, field: u32, b: &[u8]) {
    key(out, field, 2);
    varint(out, b.len() as u64);
    out.extend_from_slice(b);
}

pub fn f_str(out: &mut Vec<u8>, field: u32, s: &str) {
    f_bytes(out, field, s.as_bytes());
}

pub fn f_f32(out: &mut Vec<u8>, field: u32, v: f32) {
    key(out, field, 5);
    out.extend_from_slice(&v.to_le_bytes());
}

#[derive(Clone, Debug)]
pub enum Dim {
    Fixed(i64),
    Sym(String),
}

#[derive(Clone, Debug)]
pub enum TensorData {
    F32(Vec<f32>),
    I32(Vec<i32>),
    I64(Vec<i64>),
    U8(Vec<u8>),
    I8(Vec<i8>),
    Bool(Vec<bool>),
    /// Raw bytes with explicit data type
    Raw(i32, Vec<u8>),
}

#[derive(Clone, Debug)]
pub struct Tensor {
    pub name: String,
    pub dims: Vec<i64>,
    pub data: TensorData,
}

impl Tensor {
    pub fn encode(&self) -> Vec<u8> {
        let mut o = Vec::new();
        for d in &self.dims {
            f_varint(&mut o, 1, *d);
        }
        match &self.data {
            TensorData::F32(v) => {
                f_varint(&mut o, 2, FLOAT as i64);
                let mut raw = Vec::new();
                for x in v {
                    raw.extend_from_slice(&x.to_le_bytes());
                }
                f_bytes(&mut o, 9, &raw);
            }
            TensorData::I32(v) => {
                f_varint(&mut o, 2, INT32 as i64);
                let mut raw = Vec::new();
                for x in v {
                    raw.extend_from_slice(&x.to_le_bytes());
                }
                f_bytes(&mut o, 9, &raw);
            }
            TensorData::I64(v) => {
                f_varint(&mut o, 2, INT64 as i64);
                let mut raw = Vec::new();
                for x in v {
                    raw.extend_from_slice(&x.to_le_bytes());
                }
                f_bytes(&mut o, 9, &raw);
            }
            TensorData::U8(v) => {
                f_varint(&mut o, 2, UINT8 as i64);
                f_bytes(&mut o, 9, v);
            }
            TensorData::I8(v) => {
                f_varint(&mut o, 2, INT8 as i64);
                let raw: Vec<u8> = v.iter().map(|x| *x as u8).collect();
                f_bytes(&mut o, 9, &raw);
            }
            TensorData::Bool(v) => {
                f_varint(&mut o, 2, BOOL as i64);
                let raw: Vec<u8> = v.iter().map(|x| *x as u8).collect();
                f_bytes(&mut o, 9, &raw);
            }
            TensorData::Raw(dt, raw) => {
                f_varint(&mut o, 2, *dt as i64);
                f_bytes(&mut o, 9, raw);
            }
        }
        if !self.name.is_empty() {
            f_str(&mut o, 8, &self.name);
        }
        o
    }
}

#[derive(Clone, Debug)]
pub enum Attr {
    Int(i64),
    Float(f32),
    Str(String),
    Ints(Vec<i64>),
    Floats(Vec<f32>),
    Strs(Vec<String>),
    Tensor(Tensor),
    Graph(Graph),
}

#[derive(Clone, Debug)]
pub struct Node {
    pub op: String,
    pub domain: String,
    pub name: String,
    /// Empty string = omitted optional input.
    pub inputs: Vec<String>,
    pub outputs: Vec<String>,
    pub attrs: Vec<(String, Attr)>,
}

impl Node {
    pub fn new(op: &str, inputs: &[&str], outputs: &[&str]) -> Node {
        Node {
            op: op.to_string(),
            domain: String::new(),
            name: format!("{}_{}", op, outputs.first().copied().unwrap_or("")),
            inputs: inputs.iter().map(|s| s.to_string()).collect(),
            outputs: outputs.iter().map(|s| s.to_string()).collect(),
            attrs: Vec::new(),
        }
    }
    pub fn attr(mut self, name: &str, a: Attr) -> Node {
        self.attrs.push((name.to_string(), a));
        self
    }
    pub fn domain(mut self, d: &str) -> Node {
        self.domain = d.to_string();
        self
    }

    pub fn encode(&self) -> Vec<u8> {
        let mut o = Vec::new();
        for i in &self.inputs {
            f_str(&mut o, 1, i);
        }
        for i in &self.outputs {
            f_str(&mut o, 2, i);
        }
        f_str(&mut o, 3, &self.name);
        f_str(&mut o, 4, &self.op);
        for (name, a) in &self.attrs {
            let mut ab = Vec::new();
            f_str(&mut ab, 1, name);
            match a {
                Attr::Int(v) => {
                    f_varint(&mut ab, 3, *v);
                    f_varint(&mut ab, 20, 2);
                }
                Attr::Float(v) => {
                    f_f32(&mut ab, 2, *v);
                    f_varint(&mut ab, 20, 1);
                }
                Attr::Str(s) => {
                    f_str(&mut ab, 4, s);
                    f_varint(&mut ab, 20, 3);
                }
                Attr::Ints(v) => {
                    for x in v {
                        f_varint(&mut ab, 8, *x);
                    }
                    f_varint(&mut ab, 20, 7);
                }
                Attr::Floats(v) => {
                    for x in v {
                        f_f32(&mut ab, 7, *x);
                    }
                    f_varint(&mut ab, 20, 6);
                }
                Attr::Strs(v) => {
                    for x in v {
                        f_str(&mut ab, 9, x);
                    }
                    f_varint(&mut ab, 20, 8);
                }
                Attr::Tensor(t) => {
                    f_bytes(&mut ab, 5, &t.encode());
                    f_varint(&mut ab, 20, 4);
                }
                Attr::Graph(g) => {
                    f_bytes(&mut ab, 6, &g.encode());
                    f_varint(&mut ab, 20, 5);
                }
            }
            f_bytes(&mut o, 5, &ab);
        }
        if !self.domain.is_empty() {
            f_str(&mut o, 7, &self.domain);
        }
        o
    }
}

#[derive(Clone, Debug)]
pub struct ValueInfo {
    pub name: String,
    pub elem_type: i32,
    /// None = no shape information.
    pub shape: Option<Vec<Dim>>,
}

impl ValueInfo {
    pub fn new(name: &str, elem_type: i32, shape: Option<Vec<Dim>>) -> ValueInfo {
        ValueInfo {
            name: name.to_string(),
            elem_type,
            shape,
        }
    }
    pub fn fixed(name: &str, elem_type: i32, dims: &[i64]) -> ValueInfo {
        ValueInfo::new(
            name,
            elem_type,
            Some(dims.iter().map(|d| Dim::Fixed(*d)).collect()),
        )
    }
    pub fn encode(&self) -> Vec<u8> {
        let mut o = Vec::new();
        f_str(&mut o, 1, &self.name);
        let mut tt = Vec::new();
        f_varint(&mut tt, 1, self.elem_type as i64);
        if let Some(shape) = &self.shape {
            let mut sh = Vec::new();
            for d in shape {
                let mut db = Vec::new();
                match d {
                    Dim::Fixed(v) => f_varint(&mut db, 1, *v),
                    Dim::Sym(s) => f_str(&mut db, 2, s),
                }
                f_bytes(&mut sh, 1, &db);
            }
            f_bytes(&mut tt, 2, &sh);
        }
        let mut ty = Vec::new();
        f_bytes(&mut ty, 1, &tt);
        f_bytes(&mut o, 2, &ty);
        o
    }
}

#[derive(Clone, Debug, Default)]
pub struct Graph {
    pub name: String,
    pub nodes: Vec<Node>,
    pub initializers: Vec<Tensor>,
    pub inputs: Vec<ValueInfo>,
    pub outputs: Vec<ValueInfo>,
    pub value_info: Vec<ValueInfo>,
}

impl Graph {
    pub fn encode(&self) -> Vec<u8> {
        let mut o = Vec::new();
        for n in &self.nodes {
            f_bytes(&mut o, 1, &n.encode());
        }
        f_str(&mut o, 2, if self.name.is_empty() { "g" } else { &self.name });
        for t in &self.initializers {
            f_bytes(&mut o, 5, &t.encode());
        }
        for v in &self.inputs {
            f_bytes(&mut o, 11, &v.encode());
        }
        for v in &self.outputs {
            f_bytes(&mut o, 12, &v.encode());
        }
        for v in &self.value_info {
            f_bytes(&mut o, 13, &v.encode());
        }
        o
    }

    /// Encode as a complete ModelProto.
    pub fn to_model(&self) -> Vec<u8> {
        let mut o = Vec::new();
        f_varint(&mut o, 1, 9); // ir_version
        f_str(&mut o, 2, "verif");
        f_bytes(&mut o, 7, &self.encode());
        let mut ops = Vec::new();
        f_str(&mut ops, 1, "");
        f_varint(&mut ops, 2, 21);
        f_bytes(&mut o, 8, &ops);
        let mut ops2 = Vec::new();
        f_str(&mut ops2, 1, "com.microsoft");
        f_varint(&mut ops2, 2, 1);
        f_bytes(&mut o, 8, &ops2);
        o
    }
}
