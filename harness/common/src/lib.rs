//! Shared plumbing for the verification harness binaries: NDJSON trace
//! writer, deterministic RNG, limb encoding of 64-bit values for TLC (whose
//! integers are 32-bit), panic capture and a child-process case runner.

use std::fs::File;
use std::io::{BufRead, BufReader, BufWriter, Write};
use std::panic::{AssertUnwindSafe, catch_unwind};
use std::path::Path;

pub use serde_json::{Value, json};

pub mod onnx;

/// NDJSON trace writer. Every event gets a `seq` number.
pub struct Trace {
    out: BufWriter<Box<dyn Write + Send>>,
    pub seq: u64,
}

impl Trace {
    pub fn create(path: &str) -> Trace {
        let w: Box<dyn Write + Send> = if path == "-" {
            Box::new(std::io::stdout())
        } else {
            Box::new(File::create(path).unwrap_or_else(|e| {
                eprintln!("cannot create trace {path}: {e}");
                std::process::exit(2)
            }))
        };
        Trace {
            out: BufWriter::with_capacity(1 << 20, w),
            seq: 0,
        }
    }

    /// Write one event. `ev` must be a JSON object; `seq` is added.
    pub fn emit(&mut self, mut ev: Value) {
        self.seq += 1;
        if let Value::Object(m) = &mut ev {
            m.insert("seq".into(), json!(self.seq));
        }
        serde_json::to_writer(&mut self.out, &ev).unwrap();
        self.out.write_all(b"\n").unwrap();
    }

    pub fn flush(&mut self) {
        self.out.flush().unwrap();
    }
}

impl Drop for Trace {
    fn drop(&mut self) {
        let _ = self.out.flush();
    }
}

/// Deterministic RNG (splitmix64). All random choices of the harness derive
/// from `VERIF_SEED`.
#[derive(Clone)]
pub struct Rng(pub u64);

impl Rng {
    pub fn new(seed: u64) -> Rng {
        Rng(seed ^ 0x9E37_79B9_7F4A_7C15)
    }
    pub fn from_env() -> Rng {
        Rng::new(seed_from_env())
    }
    pub fn next_u64(&mut self) -> u64 {
        self.0 = self.0.wrapping_add(0x9E37_79B9_7F4A_7C15);
        let mut z = self.0;
        z = (z ^ (z >> 30)).wrapping_mul(0xBF58_476D_1CE4_E5B9);
        z = (z ^ (z >> 27)).wrapping_mul(0x94D0_49BB_1331_11EB);
        z ^ (z >> 31)
    }
    /// Uniform in `0..n` (n > 0).
    pub fn below(&mut self, n: usize) -> usize {
        (self.next_u64() % (n as u64)) as usize
    }
    /// Uniform in `lo..=hi`.
    pub fn range(&mut self, lo: i64, hi: i64) -> i64 {
        lo + (self.next_u64() % ((hi - lo + 1) as u64)) as i64
    }
    pub fn chance(&mut self, num: usize, den: usize) -> bool {
        self.below(den) < num
    }
    pub fn pick<'a, T>(&mut self, xs: &'a [T]) -> &'a T {
        &xs[self.below(xs.len())]
    }
    pub fn shuffle<T>(&mut self, xs: &mut [T]) {
        for i in (1..xs.len()).rev() {
            let j = self.below(i + 1);
            xs.swap(i, j);
        }
    }
}

pub fn seed_from_env() -> u64 {
    std::env::var("VERIF_SEED")
        .ok()
        .and_then(|s| s.parse::<u64>().ok())
        .unwrap_or(20260921)
}

/// Little-endian base-2^15 limbs of a u64 (for `Word.tla`). Zero is `[]`.
pub fn limbs(mut x: u64) -> Value {
    let mut v = Vec::new();
    while x != 0 {
        v.push(json!(x & 0x7fff));
        x >>= 15;
    }
    Value::Array(v)
}

pub fn limbs_u128(mut x: u128) -> Value {
    let mut v = Vec::new();
    while x != 0 {
        v.push(json!((x & 0x7fff) as u64));
        x >>= 15;
    }
    Value::Array(v)
}

/// Run `f`, converting a panic into `Err(message)`. The default panic hook is
/// silenced by `quiet_panics()`.
pub fn guarded<R>(f: impl FnOnce() -> R) -> Result<R, String> {
    match catch_unwind(AssertUnwindSafe(f)) {
        Ok(r) => Ok(r),
        Err(e) => {
            let msg = if let Some(s) = e.downcast_ref::<&str>() {
                s.to_string()
            } else if let Some(s) = e.downcast_ref::<String>() {
                s.clone()
            } else {
                "panic".to_string()
            };
            Err(msg)
        }
    }
}

pub fn quiet_panics() {
    std::panic::set_hook(Box::new(|_| {}));
}

/// Read a file of JSON lines.
pub fn read_json_lines(path: &str) -> Vec<Value> {
    let f = File::open(Path::new(path)).unwrap_or_else(|e| {
        eprintln!("cannot open {path}: {e}");
        std::process::exit(2)
    });
    BufReader::new(f)
        .lines()
        .map(|l| l.unwrap())
        .filter(|l| !l.trim().is_empty())
        .map(|l| {
            serde_json::from_str(&l).unwrap_or_else(|e| {
                eprintln!("bad json line in {path}: {e}: {l}");
                std::process::exit(2)
            })
        })
        .collect()
}

/// Outcome of running a case in a child process.
pub enum ChildOutcome {
    /// Child exited 0; its stdout is returned.
    Ok(Vec<u8>),
    /// Child exited with a panic exit code (101) or other non-zero status.
    Panic(String),
    /// Child was killed by a signal (abort, segv, ...).
    Abort(i32),
    Timeout,
}

/// Re-execute the current binary with `args`, feeding `stdin_data`, with a
/// wall-clock timeout and optional address-space limit (bytes, 0 = none).
pub fn run_child(args: &[&str], stdin_data: &[u8], timeout_ms: u64, as_limit: u64) -> ChildOutcome {
    use std::os::unix::process::{CommandExt, ExitStatusExt};
    use std::process::{Command, Stdio};
    let exe = std::env::current_exe().unwrap();
    let mut cmd = Command::new(exe);
    cmd.args(args)
        .stdin(Stdio::piped())
        .stdout(Stdio::piped())
        .stderr(Stdio::piped());
    if as_limit > 0 {
        unsafe {
            cmd.pre_exec(move || {
                let lim = libc::rlimit {
                    rlim_cur: as_limit,
                    rlim_max: as_limit,
                };
                libc::setrlimit(libc::RLIMIT_AS, &lim);
                Ok(())
            });
        }
    }
    let mut child = cmd.spawn().expect("spawn child");
    {
        let mut si = child.stdin.take().unwrap();
        let _ = si.write_all(stdin_data);
    }
    let mut so = child.stdout.take().unwrap();
    let mut se = child.stderr.take().unwrap();
    let t_out = std::thread::spawn(move || {
        let mut buf = Vec::new();
        let _ = std::io::Read::read_to_end(&mut so, &mut buf);
        buf
    });
    let t_err = std::thread::spawn(move || {
        let mut buf = Vec::new();
        let _ = std::io::Read::read_to_end(&mut se, &mut buf);
        buf
    });
    let start = std::time::Instant::now();
    let status = loop {
        match child.try_wait().unwrap() {
            Some(st) => break Some(st),
            None => {
                if start.elapsed().as_millis() as u64 > timeout_ms {
                    let _ = child.kill();
                    let _ = child.wait();
                    break None;
                }
                std::thread::sleep(std::time::Duration::from_millis(2));
            }
        }
    };
    let out = t_out.join().unwrap();
    let err = t_err.join().unwrap();
    match status {
        None => ChildOutcome::Timeout,
        Some(st) => {
            if st.success() {
                ChildOutcome::Ok(out)
            } else if let Some(sig) = st.signal() {
                ChildOutcome::Abort(sig)
            } else {
                let msg = String::from_utf8_lossy(&err);
                let msg: String = msg.chars().take(300).collect();
                ChildOutcome::Panic(msg)
            }
        }
    }
}

/// Simple argument lookup: `--name value`.
pub fn arg(name: &str) -> Option<String> {
    let args: Vec<String> = std::env::args().collect();
    args.iter()
        .position(|a| a == name)
        .and_then(|i| args.get(i + 1).cloned())
}

pub fn arg_or(name: &str, default: &str) -> String {
    arg(name).unwrap_or_else(|| default.to_string())
}

pub fn arg_usize(name: &str, default: usize) -> usize {
    arg(name).and_then(|s| s.parse().ok()).unwrap_or(default)
}

/// Run `n` cases in child processes of the current binary so that a hang or
/// abort of the code under test becomes data.
///
/// The child is invoked as `<exe> <args...> --child-from A --child-to N --out TMP`
/// and must write, for every case `i` in `A..N`, a record containing
/// `"ev":"case"` and `"idx":i` *before* running it (flushing the trace), then
/// its result records. One child normally runs all cases; if its trace file
/// stops growing for `timeout_ms` (hang) or it dies, `outcome(kind)` is
/// appended as the result of the case that was running (`kind` = "timeout" |
/// "abort" | "panic") and a new child resumes with the next case. All child
/// traces are concatenated into `out`. `_chunk` is unused (kept for callers).
pub fn run_chunked(
    out: &str,
    args: &[String],
    n: usize,
    _chunk: usize,
    timeout_ms: u64,
    outcome: &dyn Fn(&str, u64) -> Value,
) {
    use std::io::Read;
    use std::os::unix::process::ExitStatusExt;
    use std::process::{Command, Stdio};
    let mut main = File::create(out).expect("create trace");
    let tmp = format!("{out}.chunk");
    let mut start = 0usize;
    let mut seq = 0u64;
    // After this many hangs/aborts stop running further cases: each one costs
    // a full timeout and the failures already recorded decide the verdict.
    let max_fail: usize = std::env::var("VERIF_MAX_FAIL")
        .ok()
        .and_then(|s| s.parse().ok())
        .unwrap_or(4);
    let mut nfail = 0usize;
    while start < n && nfail < max_fail {
        let mut a: Vec<String> = args.to_vec();
        a.extend([
            "--child-from".to_string(),
            start.to_string(),
            "--child-to".to_string(),
            n.to_string(),
            "--out".to_string(),
            tmp.clone(),
        ]);
        let _ = std::fs::remove_file(&tmp);
        let exe = std::env::current_exe().unwrap();
        let mut child = Command::new(exe)
            .args(&a)
            .stdin(Stdio::null())
            .stdout(Stdio::null())
            .stderr(Stdio::null())
            .spawn()
            .expect("spawn child");
        let mut last_size = 0u64;
        let mut last_change = std::time::Instant::now();
        // kind: None = finished ok
        let kind: Option<&str> = loop {
            match child.try_wait().unwrap() {
                Some(st) => {
                    if st.success() {
                        break None;
                    } else if st.signal().is_some() {
                        break Some("abort");
                    } else {
                        break Some("panic");
                    }
                }
                None => {
                    let size = std::fs::metadata(&tmp).map(|m| m.len()).unwrap_or(0);
                    if size != last_size {
                        last_size = size;
                        last_change = std::time::Instant::now();
                    } else if last_change.elapsed().as_millis() as u64
                        > (if last_size == 0 { (timeout_ms * 10).max(120_000) } else { timeout_ms })
                    {
                        // (before the first record is written the child is still reading its input
                        // file: allow a generous start-up time on a loaded machine)
                        let _ = child.kill();
                        let _ = child.wait();
                        break Some("timeout");
                    }
                    std::thread::sleep(std::time::Duration::from_millis(20));
                }
            }
        };
        let mut content = String::new();
        if let Ok(mut f) = File::open(&tmp) {
            let _ = f.read_to_string(&mut content);
        }
        // Keep complete lines only.
        let complete = match content.rfind('\n') {
            Some(p) => &content[..p + 1],
            None => "",
        };
        main.write_all(complete.as_bytes()).unwrap();
        seq += complete.lines().count() as u64;
        match kind {
            None => {
                start = n;
            }
            Some(kind) => {
                nfail += 1;
                // Find the case that was running: scan backwards.
                let mut last_idx: Option<usize> = None;
                let mut last_is_case = false;
                for (k, line) in complete.lines().rev().enumerate() {
                    if line.contains("\"ev\":\"case\"") {
                        if let Ok(v) = serde_json::from_str::<Value>(line) {
                            last_idx = v.get("idx").and_then(|i| i.as_u64()).map(|i| i as usize);
                            last_is_case = k == 0;
                            break;
                        }
                    }
                }
                match last_idx {
                    Some(i) if last_is_case => {
                        seq += 1;
                        let rec = outcome(kind, seq);
                        serde_json::to_writer(&mut main, &rec).unwrap();
                        main.write_all(b"\n").unwrap();
                        start = i + 1;
                    }
                    Some(i) => {
                        // died between cases; resume after the last started case
                        start = i + 1;
                    }
                    None => {
                        eprintln!("child failed before starting a case ({kind}); giving up");
                        std::process::exit(2);
                    }
                }
            }
        }
    }
    let _ = std::fs::remove_file(&tmp);
    main.flush().unwrap();
}
