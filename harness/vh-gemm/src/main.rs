mod bq;
mod f32;
mod int8;
mod qops;
mod util;

fn main() {
    let cmd = std::env::args().nth(1).unwrap_or_default();
    match cmd.as_str() {
        "f32" => f32::main_f32(),
        "int8" => int8::main_int8(),
        "qops" => qops::main_qops(),
        "bq" => bq::main_bq(),
        "int8-repro" => {
            int8::main_repro();
            qops::main_repro()
        }
        "f32-kernels" => println!(
            "{}",
            vcommon::json!(rten_gemm::verif::f32_kernel_names())
        ),
        "int8-kernels" => println!(
            "{}",
            vcommon::json!(rten_gemm::verif::int8_kernel_names())
        ),
        _ => {
            eprintln!("usage: vh-gemm <f32|int8|qops|bq> [options]");
            std::process::exit(2);
        }
    }
}
