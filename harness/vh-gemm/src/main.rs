fn main() {
    eprintln!("usage: vh-gemm <subcommand> [options]");
    std::process::exit(2);
}
