//! C16 engine: drive every f32 GEMM kernel over boundary and random shapes,
//! layouts, alpha/beta/bias, prepacked / im2col operands and batched calls on
//! integer-valued data, and record inputs and outputs as integers.
//!
//! The harness never computes an expected result.  Outputs are logged as
//! `2 * value` (alpha and beta may be 1/2) when that is an integer; anything
//! else (NaN poison, fractions, huge values) is listed in `nonint`.

use std::mem::MaybeUninit;

use rten_gemm::verif::{f32_executor, f32_kernel_names};
use rten_gemm::{
    BiasVector, GemmExecutor, GemmInputA, GemmInputB, GemmOptions, GemmUninitOptions,
    PackedAMatrix, PackedBMatrix,
};
use rten_tensor::NdTensorView;
use vcommon::{Rng, Trace, Value, arg, arg_or, arg_usize, guarded, json};

use crate::util::*;

const SENTINEL: i32 = 1_000_000_007;

/// Which step of a call is executing (reported with a panic).
static PHASE: std::sync::atomic::AtomicUsize = std::sync::atomic::AtomicUsize::new(0);
const PHASES: &[&str] = &["setup", "prepack_a", "prepack_b", "call"];
fn set_phase(p: usize) {
    PHASE.store(p, std::sync::atomic::Ordering::SeqCst);
}
fn phase() -> &'static str {
    PHASES[PHASE.load(std::sync::atomic::Ordering::SeqCst)]
}
const FILLER: f32 = 777.0;

#[derive(Clone)]
struct Member {
    fam: &'static str, // dense | struct | im2col
    a: Vec<i32>,       // logical A (M*K), always materialised for running
    b: Vec<i32>,       // logical B (K*N); empty for im2col
    // struct family description
    av: Vec<i32>,
    p: Vec<i32>,
    lo: Vec<i32>,
    hi: Vec<i32>,
    q1: Vec<i32>,
    v1: Vec<i32>,
    q2: Vec<i32>,
    v2: Vec<i32>,
    // im2col
    geom: ImGeom,
    img: Vec<i32>,
    a_form: &'static str,
    b_form: &'static str,
    a_layout: &'static str,
    b_layout: &'static str,
}

struct Call {
    api: &'static str, // gemm | gemm_uninit | batched
    m: usize,
    n: usize,
    k: usize,
    alpha2: i32,
    beta2: i32,
    bias_kind: &'static str,
    bias: Vec<i32>,
    c0: Vec<i32>,
    poison: bool,
    class: &'static str,
    members: Vec<Member>,
}

fn boundary_dims(mr: usize, nr: usize) -> (Vec<usize>, Vec<usize>, Vec<usize>) {
    let mc = 64usize.next_multiple_of(mr);
    let nc = 128usize.next_multiple_of(nr);
    let kc = 256usize;
    let dm = dedup_sorted(vec![
        0,
        1,
        2,
        mr - 1,
        mr,
        mr + 1,
        mc - 1,
        mc,
        mc + 1,
        2 * mc + 1,
    ]);
    let dn = dedup_sorted(vec![
        0,
        1,
        nr - 1,
        nr,
        nr + 1,
        nc - 1,
        nc,
        nc + 1,
        2 * nc + 1,
    ]);
    let dk = dedup_sorted(vec![0, 1, 2, 3, 5, 8, 9, kc - 1, kc, kc + 1, 2 * kc + 1]);
    (dm, dn, dk)
}

/// All boundary triples of a kernel, in a seeded order.
fn boundary_shapes(kernel: &str) -> Vec<(usize, usize, usize)> {
    let (mr, nr) = f32_tile(kernel);
    let (dm, dn, dk) = boundary_dims(mr, nr);
    let mut v = Vec::new();
    for &m in &dm {
        for &n in &dn {
            for &k in &dk {
                v.push((m, n, k));
            }
        }
    }
    // gemv-specific boundaries (vector-matrix fast path: column tiles of the
    // gemv kernels, depth blocks of 8 / 512).
    for &n in &[1usize, 7, 8, 9, 31, 32, 33, 63, 64, 65, 127, 128, 129, 200, 257] {
        for &k in &[1usize, 7, 8, 9, 15, 16, 17, 511, 512, 513, 1025] {
            v.push((1, n, k));
        }
    }
    let mut rng = case_rng(stream_id(kernel) ^ 0xB0, 0);
    rng.shuffle(&mut v);
    v
}

fn pick_layout(rng: &mut Rng) -> &'static str {
    if rng.chance(2, 5) {
        "rm"
    } else {
        LAYOUTS[rng.below(LAYOUTS.len())]
    }
}

fn gen_member(rng: &mut Rng, m: usize, n: usize, k: usize, allow_im2col: bool, step: usize) -> Member {
    let work = m * n * k;
    let mut mem = Member {
        fam: "dense",
        a: vec![],
        b: vec![],
        av: vec![],
        p: vec![],
        lo: vec![],
        hi: vec![],
        q1: vec![],
        v1: vec![],
        q2: vec![],
        v2: vec![],
        geom: ImGeom::none(),
        img: vec![],
        a_form: "unpacked",
        b_form: "unpacked",
        a_layout: pick_layout(rng),
        b_layout: pick_layout(rng),
    };
    let _ = step;
    if allow_im2col {
        mem.fam = "im2col";
        mem.a = rand_vec(rng, m * k, -8, 8);
        mem.b_form = "im2col";
        mem.b_layout = "rm";
        return mem;
    }
    let dense = work <= 30_000 && (work <= 4000 || rng.chance(2, 3));
    if dense {
        mem.a = rand_vec(rng, m * k, -8, 8);
        mem.b = rand_vec(rng, k * n, -8, 8);
    } else {
        mem.fam = "struct";
        mem.av = rand_vec(rng, m, -3, 3);
        for x in mem.av.iter_mut() {
            if *x == 0 && rng.chance(4, 5) {
                *x = 1 + rng.below(3) as i32;
            }
        }
        mem.p = rand_vec(rng, k, -3, 3);
        for x in mem.p.iter_mut() {
            if *x == 0 && rng.chance(4, 5) {
                *x = -1 - rng.below(3) as i32;
            }
        }
        let style = rng.below(4); // 0 full rows, 1 one-hot, 2 intervals, 3 mixed
        for _ in 0..m {
            let s = if style == 3 { rng.below(3) } else { style };
            let (lo, hi) = if k == 0 {
                (0, 0)
            } else {
                match s {
                    0 => (0, k),
                    1 => {
                        let r = rng.below(k);
                        (r, r + 1)
                    }
                    _ => {
                        let a = rng.below(k + 1);
                        let b = rng.below(k + 1);
                        (a.min(b), a.max(b))
                    }
                }
            };
            mem.lo.push(lo as i32);
            mem.hi.push(hi as i32);
        }
        mem.q1 = rand_vec(rng, k, -3, 3);
        mem.q2 = rand_vec(rng, k, -3, 3);
        mem.v1 = rand_vec(rng, n, -3, 3);
        mem.v2 = rand_vec(rng, n, -3, 3);
        mem.a = vec![0; m * k];
        for i in 0..m {
            for kk in mem.lo[i] as usize..mem.hi[i] as usize {
                mem.a[i * k + kk] = mem.av[i] * mem.p[kk];
            }
        }
        mem.b = vec![0; k * n];
        for kk in 0..k {
            for j in 0..n {
                mem.b[kk * n + j] = mem.q1[kk] * mem.v1[j] + mem.q2[kk] * mem.v2[j];
            }
        }
    }
    if rng.chance(1, 4) {
        mem.a_form = "packed";
    }
    if rng.chance(1, 4) {
        mem.b_form = "packed";
    }
    mem
}

fn gen_call(kernel: &str, idx: usize, step: usize, shapes: &[(usize, usize, usize)], threads: usize) -> Call {
    let mut rng = case_rng(stream_id(kernel) ^ (threads as u64) << 40, idx as u64 + 1);
    // Interleave: two boundary shapes, then one random / special case.
    let (class, (m, n, k), im): (&'static str, (usize, usize, usize), Option<ImGeom>) = {
        let slot = idx % 4;
        let bidx = (idx / 4) * 2 + slot;
        if slot < 2 && bidx < shapes.len() {
            ("boundary", shapes[bidx], None)
        } else if slot < 3 {
            let big = rng.chance(1, 3);
            let hi = if big { 300 } else { 40 };
            (
                "random",
                (rng.below(hi + 1), rng.below(hi + 1), rng.below(hi + 1)),
                None,
            )
        } else if rng.chance(1, 2) {
            let g = ImGeom::random(&mut rng, 300);
            let m = 1 + rng.below(12);
            ("im2col", (m, g.n(), g.k()), Some(g))
        } else {
            // small shapes: every combination 0..=4 shows up quickly
            ("small", (rng.below(5), rng.below(5), rng.below(5)), None)
        }
    };

    let alpha2 = *rng.pick(&[2, 2, 2, 2, 2, 0, -2, 4, 1]);
    let beta2 = *rng.pick(&[0, 0, 0, 0, 2, 2, -2, 4, 1]);
    let bias_kind = *rng.pick(&["none", "none", "row", "col"]);
    let bias = match bias_kind {
        "row" => rand_vec(&mut rng, n, -8, 8),
        "col" => rand_vec(&mut rng, m, -8, 8),
        _ => vec![],
    };
    let api = if beta2 != 0 {
        "gemm"
    } else {
        *rng.pick(&["gemm", "gemm_uninit", "gemm_uninit", "batched"])
    };
    let c0 = if beta2 != 0 {
        rand_vec(&mut rng, m * n, -8, 8)
    } else {
        vec![]
    };
    let nmem = if api == "batched" {
        *rng.pick(&[0usize, 1, 2, 2, 3])
    } else {
        1
    };
    let mut members = Vec::new();
    for _ in 0..nmem {
        let mut mem = gen_member(&mut rng, m, n, k, im.is_some(), step);
        if let Some(g) = &im {
            mem.geom = g.clone();
            mem.img = rand_vec(&mut rng, g.c * g.h * g.w, -8, 8);
        }
        members.push(mem);
    }
    Call {
        api,
        m,
        n,
        k,
        alpha2,
        beta2,
        bias_kind,
        bias,
        c0,
        poison: beta2 == 0,
        class,
        members,
    }
}

fn member_json(kernel: &str, idx: usize, mi: usize, c: &Call, mem: &Member, threads: usize) -> Value {
    // Dense operands are logged in full; structured operands by description.
    let dense = mem.fam == "dense" || mem.fam == "im2col";
    json!({
        "ev": "case",
        "id": format!("{kernel}:t{threads}:{idx}.{mi}"),
        "kernel": kernel,
        "api": c.api,
        "cls": c.class,
        "threads": threads,
        "nmem": c.members.len(),
        "member": mi,
        "m": c.m, "n": c.n, "k": c.k,
        "fam": mem.fam,
        "a": if dense { ints(&mem.a) } else { json!([]) },
        "b": if mem.fam == "dense" { ints(&mem.b) } else { json!([]) },
        "av": ints(&mem.av), "p": ints(&mem.p), "lo": ints(&mem.lo), "hi": ints(&mem.hi),
        "q1": ints(&mem.q1), "v1": ints(&mem.v1), "q2": ints(&mem.q2), "v2": ints(&mem.v2),
        "im": mem.geom.to_json(&mem.img),
        "alpha2": c.alpha2, "beta2": c.beta2,
        "bias_kind": c.bias_kind, "bias": ints(&c.bias),
        "c0": ints(&c.c0),
        "poison": c.poison,
        "a_form": mem.a_form, "b_form": mem.b_form,
        "a_layout": mem.a_layout, "b_layout": mem.b_layout,
    })
}

/// Operand storage that must outlive the GEMM call.
struct Operands {
    a: Strided<f32>,
    b: Strided<f32>,
    img: Vec<f32>,
    packed_a: Option<PackedAMatrix<f32>>,
    packed_b: Option<PackedBMatrix<f32>>,
}

fn to_f32(v: &[i32]) -> Vec<f32> {
    v.iter().map(|x| *x as f32).collect()
}

fn prepare(gemm: &GemmExecutor, c: &Call, mem: &Member) -> Operands {
    let a = Strided::new(&to_f32(&mem.a), c.m, c.k, mem.a_layout, FILLER);
    let b_logical = if mem.fam == "im2col" {
        vec![0.0; 0]
    } else {
        to_f32(&mem.b)
    };
    let b = if mem.fam == "im2col" {
        Strided::new(&b_logical, 0, 0, "rm", FILLER)
    } else {
        Strided::new(&b_logical, c.k, c.n, mem.b_layout, FILLER)
    };
    set_phase(1);
    let packed_a = (mem.a_form == "packed").then(|| gemm.prepack_a(a.view()));
    set_phase(2);
    let packed_b = (mem.b_form == "packed").then(|| gemm.prepack_b(b.view()));
    set_phase(0);
    Operands {
        a,
        b,
        img: to_f32(&mem.img),
        packed_a,
        packed_b,
    }
}

fn encode_out(out: &[f32]) -> (Vec<i32>, Vec<Value>, usize) {
    let mut v = Vec::with_capacity(out.len());
    let mut nonint = Vec::new();
    let mut count = 0;
    for (i, x) in out.iter().enumerate() {
        let y = *x * 2.0;
        if y.is_finite() && y.fract() == 0.0 && y.abs() < 1.0e9 {
            v.push(y as i32);
        } else {
            v.push(SENTINEL);
            count += 1;
            if nonint.len() < 8 {
                nonint.push(json!([i, x.to_bits() as i32]));
            }
        }
    }
    (v, nonint, count)
}

fn run_call(gemm: &GemmExecutor, c: &Call) -> Result<Result<Vec<f32>, String>, String> {
    // Preparation (strided views, prepacking) is part of the API under test too.
    set_phase(0);
    guarded(|| run_call_inner(gemm, c)).and_then(|r| r)
}

fn run_call_inner(gemm: &GemmExecutor, c: &Call) -> Result<Result<Vec<f32>, String>, String> {
    let ops: Vec<Operands> = c.members.iter().map(|mem| prepare(gemm, c, mem)).collect();
    let step_c = gemm.im2col_col_count_step();
    let step_r = gemm.im2col_row_count_step();
    let im2cols: Vec<Option<rten_gemm::Im2Col<f32>>> = c
        .members
        .iter()
        .zip(&ops)
        .map(|(mem, op)| {
            (mem.fam == "im2col").then(|| {
                let g = &mem.geom;
                let image = NdTensorView::from_data([g.c, g.h, g.w], op.img.as_slice());
                build_im2col(image, g, step_c, step_r)
            })
        })
        .collect();
    let a_in: Vec<GemmInputA<f32>> = ops
        .iter()
        .map(|op| match &op.packed_a {
            Some(p) => GemmInputA::Packed(p),
            None => GemmInputA::Unpacked(op.a.view()),
        })
        .collect();
    let b_in: Vec<GemmInputB<f32>> = ops
        .iter()
        .zip(&im2cols)
        .map(|(op, im)| match (&op.packed_b, im) {
            (_, Some(im)) => GemmInputB::Im2Col(im),
            (Some(p), _) => GemmInputB::Packed(p),
            _ => GemmInputB::Unpacked(op.b.view()),
        })
        .collect();
    let bias_f = to_f32(&c.bias);
    let bias = match c.bias_kind {
        "row" => Some(BiasVector::Row(bias_f.as_slice())),
        "col" => Some(BiasVector::Column(bias_f.as_slice())),
        _ => None,
    };
    let alpha = c.alpha2 as f32 / 2.0;
    let beta = c.beta2 as f32 / 2.0;
    let poison = f32::from_bits(0x7fc0_beef);
    let out_len = c.m * c.n * c.members.len();

    set_phase(3);
    guarded(|| match c.api {
        "gemm" => {
            let mut out: Vec<f32> = if c.beta2 != 0 {
                to_f32(&c.c0)
            } else {
                vec![poison; out_len]
            };
            gemm.gemm(
                &mut out,
                a_in[0],
                b_in[0],
                GemmOptions {
                    alpha,
                    beta,
                    bias,
                    a_quant: None,
                    b_quant: None,
                },
            )
            .map(|_| out)
            .map_err(|e| format!("{e:?}"))
        }
        "gemm_uninit" => {
            let mut out: Vec<MaybeUninit<f32>> = vec![MaybeUninit::new(poison); out_len];
            gemm.gemm_uninit(
                &mut out,
                a_in[0],
                b_in[0],
                GemmUninitOptions {
                    alpha,
                    bias,
                    a_quant: None,
                    b_quant: None,
                },
            )
            .map(|o| o.to_vec())
            .map_err(|e| format!("{e:?}"))
        }
        _ => {
            let mut out: Vec<MaybeUninit<f32>> = vec![MaybeUninit::new(poison); out_len];
            gemm.batched_gemm_uninit(
                &mut out,
                &a_in,
                &b_in,
                GemmUninitOptions {
                    alpha,
                    bias,
                    a_quant: None,
                    b_quant: None,
                },
            )
            .map(|o| o.to_vec())
            .map_err(|e| format!("{e:?}"))
        }
    })
}

pub fn main_f32() {
    let out = arg_or("--out", "-");
    let ncases = arg_usize("--cases", 100);
    let only = arg("--only-id");
    let kfilter = arg("--kernel");
    let threads = rayon::current_num_threads();
    vcommon::quiet_panics();
    let mut tr = Trace::create(&out);
    let names = f32_kernel_names();
    tr.emit(json!({"ev": "info", "kernels": names, "threads": threads}));
    for kernel in &names {
        if let Some(k) = &kfilter {
            if k != kernel {
                continue;
            }
        }
        let gemm = f32_executor(kernel).expect("kernel");
        let shapes = boundary_shapes(kernel);
        for idx in 0..ncases {
            if let Some(o) = &only {
                // id = "<kernel>:<idx>.<member>"
                let want = o.split('.').next().unwrap_or("");
                if want != format!("{kernel}:t{threads}:{idx}") {
                    continue;
                }
            }
            let call = gen_call(kernel, idx, gemm.im2col_col_count_step(), &shapes, threads);
            if call.members.is_empty() {
                // batched call with zero members: nothing to compute; record the outcome only
                tr.emit(json!({"ev": "empty_batch", "id": format!("{kernel}:t{threads}:{idx}"), "kernel": kernel,
                               "m": call.m, "n": call.n, "k": call.k}));
                let r = run_call(&gemm, &call);
                let (outcome, err, len) = match &r {
                    Ok(Ok(v)) => ("ok", String::new(), v.len()),
                    Ok(Err(e)) => ("err", e.clone(), 0),
                    Err(p) => ("panic", p.clone(), 0),
                };
                tr.emit(json!({"ev": "empty_ret", "outcome": outcome, "err": err, "len": len}));
                continue;
            }
            for (mi, mem) in call.members.iter().enumerate() {
                tr.emit(member_json(kernel, idx, mi, &call, mem, threads));
            }
            tr.flush();
            let r = run_call(&gemm, &call);
            let mn = call.m * call.n;
            for mi in 0..call.members.len() {
                let id = format!("{kernel}:t{threads}:{idx}.{mi}");
                match &r {
                    Ok(Ok(v)) => {
                        let chunk: &[f32] = if v.len() == mn * call.members.len() {
                            &v[mi * mn..(mi + 1) * mn]
                        } else {
                            &v[..]
                        };
                        let (o, nonint, cnt) = encode_out(chunk);
                        tr.emit(json!({"ev": "ret", "id": id, "outcome": "ok", "err": "", "phase": "",
                                       "out2": ints(&o), "nonint": nonint, "nonint_count": cnt}));
                    }
                    Ok(Err(e)) => {
                        tr.emit(json!({"ev": "ret", "id": id, "outcome": "err", "err": e, "phase": phase(),
                                       "out2": [], "nonint": [], "nonint_count": 0}));
                    }
                    Err(p) => {
                        let msg: String = p.chars().take(160).collect();
                        tr.emit(json!({"ev": "ret", "id": id, "outcome": "panic", "err": msg, "phase": phase(),
                                       "out2": [], "nonint": [], "nonint_count": 0}));
                    }
                }
            }
        }
    }
    tr.flush();
}
