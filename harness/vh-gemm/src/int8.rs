//! C17 engine (kernel level): drive every u8 x i8 -> i32 GEMM kernel with
//! per-row / per-column zero points over all value pairs, extremes, shapes
//! around tile and block sizes, prepacked and im2col operands, and record
//! inputs and outputs.  The expected product is computed by the trace spec.

use std::mem::MaybeUninit;

use rten_gemm::verif::{int8_executor, int8_kernel_names};
use rten_gemm::{
    BiasVector, GemmExecutor, GemmInputA, GemmInputB, GemmOptions, GemmUninitOptions, QuantParams,
};
use rten_tensor::NdTensorView;
use vcommon::{Rng, Trace, Value, arg, arg_or, arg_usize, guarded, json};

use crate::util::*;

type Gemm8 = GemmExecutor<u8, i8, i32>;

const ZA: [i32; 5] = [0, 1, 127, 128, 255];
const ZB: [i32; 4] = [-128, -1, 0, 127];

struct Case {
    class: &'static str,
    api: &'static str,
    m: usize,
    n: usize,
    k: usize,
    fam: &'static str, // dense | add | im2col
    a: Vec<i32>,
    b: Vec<i32>,
    av: Vec<i32>,
    p: Vec<i32>,
    q: Vec<i32>,
    v: Vec<i32>,
    geom: ImGeom,
    img: Vec<i32>,
    za: Option<Vec<i32>>,
    zb: Option<Vec<i32>>,
    beta: i32,
    c0: Vec<i32>,
    bias_kind: &'static str,
    bias: Vec<i32>,
    a_form: &'static str,
    b_form: &'static str,
    a_layout: &'static str,
    b_layout: &'static str,
}

fn pick_layout(rng: &mut Rng) -> &'static str {
    if rng.chance(2, 5) {
        "rm"
    } else {
        LAYOUTS[rng.below(LAYOUTS.len())]
    }
}

fn boundary_shapes(kernel: &str) -> Vec<(usize, usize, usize)> {
    let (mr, nr) = int8_tile(kernel);
    let mc = 64usize.next_multiple_of(mr);
    let nc = 128usize.next_multiple_of(nr);
    let dm = dedup_sorted(vec![1, 2, mr - 1, mr, mr + 1, mc - 1, mc, mc + 1, 2 * mc + 1]);
    let dn = dedup_sorted(vec![1, nr - 1, nr, nr + 1, nc - 1, nc, nc + 1, 2 * nc + 1]);
    let dk = dedup_sorted(vec![1, 2, 3, 4, 5, 7, 8, 9, 63, 64, 65, 1023, 1024, 1025, 2049]);
    let mut v = Vec::new();
    for &m in &dm {
        for &n in &dn {
            for &k in &dk {
                v.push((m, n, k));
            }
        }
    }
    // zero-sized shapes
    for &(m, n, k) in &[(0, 5, 3), (4, 0, 3), (4, 5, 0), (0, 0, 0), (1, 7, 0), (1, 0, 4)] {
        v.push((m, n, k));
    }
    // gemv boundaries (int8 gemv: 32/64-column tiles, depth tiles of 4, depth blocks 8 / 512)
    for &n in &[1usize, 3, 31, 32, 33, 63, 64, 65, 127, 128, 129, 200] {
        for &k in &[1usize, 3, 4, 5, 7, 8, 9, 31, 32, 33, 63, 64, 65, 511, 512, 513] {
            v.push((1, n, k));
        }
    }
    let mut rng = case_rng(stream_id(kernel) ^ 0xB8, 0);
    rng.shuffle(&mut v);
    v
}

fn zero_points(rng: &mut Rng, len: usize, set: &[i32], lo: i64, hi: i64) -> Option<Vec<i32>> {
    match rng.below(10) {
        0 | 1 => None,
        2 | 3 => Some(vec![*rng.pick(set); len]),
        4 | 5 => Some(vec![rng.range(lo, hi) as i32; len]),
        6 => Some(vec![0; len]),
        7 => Some((0..len).map(|_| *rng.pick(set)).collect()),
        _ => Some((0..len).map(|_| rng.range(lo, hi) as i32).collect()),
    }
}

/// Exhaustive value-pair case `combo` in 0..20: row i holds the u8 value i in
/// every column, column j the i8 value j - 128 in every row (K = 4, one
/// dot-product group), so every (u8, i8) pair is one output element; the zero
/// points are the `combo`-th element of ZA x ZB (the same for every row /
/// column).
fn pairs_case(combo: usize) -> Case {
    let combo = combo % 20;
    let (m, n, k) = (256usize, 256usize, 4usize);
    let mut a = vec![0; m * k];
    let mut b = vec![0; k * n];
    for i in 0..m {
        for kk in 0..k {
            a[i * k + kk] = i as i32;
        }
    }
    for kk in 0..k {
        for j in 0..n {
            b[kk * n + j] = j as i32 - 128;
        }
    }
    let (za0, zb0) = (ZA[combo % 5], ZB[combo / 5]);
    Case {
        class: "pairs",
        api: "gemm_uninit",
        m,
        n,
        k,
        fam: "dense",
        a,
        b,
        av: vec![],
        p: vec![],
        q: vec![],
        v: vec![],
        geom: ImGeom::none(),
        img: vec![],
        za: Some(vec![za0; m]),
        zb: Some(vec![zb0; n]),
        beta: 0,
        c0: vec![],
        bias_kind: "none",
        bias: vec![],
        a_form: if za0 == 0 && combo % 2 == 0 { "packed" } else { "unpacked" },
        b_form: if zb0 == 0 { "packed" } else { "unpacked" },
        a_layout: "rm",
        b_layout: if combo % 4 == 2 { "tr" } else { "rm" },
    }
}

fn gen_case(kernel: &str, idx: usize, shapes: &[(usize, usize, usize)], sat: bool, npairs: usize) -> Case {
    if idx < npairs {
        // fewer than 20: a seed-dependent selection of the zero-point combinations
        let start = if npairs >= 20 { 0 } else { (vcommon::seed_from_env() as usize).wrapping_mul(7) % 20 };
        return pairs_case(start + idx * if npairs >= 20 { 1 } else { 7 });
    }
    let idx = idx - npairs;
    let mut rng = case_rng(stream_id(kernel) ^ 0x18, idx as u64 + 1);
    let slot = idx % 4;
    let bidx = (idx / 4) * 2 + slot;
    let mut geom = ImGeom::none();
    let (class, (m, n, k)): (&'static str, (usize, usize, usize)) = if slot < 2 && bidx < shapes.len() {
        ("boundary", shapes[bidx])
    } else if slot < 3 {
        let hi = if rng.chance(1, 4) { 200 } else { 40 };
        ("random", (rng.below(hi + 1), rng.below(hi + 1), rng.below(hi + 1)))
    } else if rng.chance(1, 2) {
        geom = ImGeom::random(&mut rng, 300);
        ("im2col", (1 + rng.below(12), geom.n(), geom.k()))
    } else {
        ("small", (rng.below(6), rng.below(6), rng.below(10)))
    };
    // value range: kernels that may saturate are judged only in the reduced range, so
    // give them mostly reduced-range data; others get full-range and extreme data.
    let range = if sat {
        *rng.pick(&["reduced", "reduced", "reduced", "full", "lhs_only", "rhs_only"])
    } else {
        *rng.pick(&["full", "full", "extreme", "reduced"])
    };
    let (alo, ahi, blo, bhi): (i64, i64, i64, i64) = match range {
        "reduced" => (0, 127, -64, 63),
        "lhs_only" => (0, 127, -128, 127),
        "rhs_only" => (0, 255, -64, 63),
        _ => (0, 255, -128, 127),
    };
    let extreme = range == "extreme";
    let val_a = |rng: &mut Rng| -> i32 {
        if extreme {
            *rng.pick(&[0, 255, 255, 254, 1, 128, 127])
        } else {
            rng.range(alo, ahi) as i32
        }
    };
    let val_b = |rng: &mut Rng| -> i32 {
        if extreme {
            *rng.pick(&[-128, 127, -128, 127, -1, 0, 1])
        } else {
            rng.range(blo, bhi) as i32
        }
    };
    let mut c = Case {
        class,
        api: "gemm",
        m,
        n,
        k,
        fam: "dense",
        a: vec![],
        b: vec![],
        av: vec![],
        p: vec![],
        q: vec![],
        v: vec![],
        geom: geom.clone(),
        img: vec![],
        za: zero_points(&mut rng, m, &ZA, 0, 255),
        zb: zero_points(&mut rng, n, &ZB, -128, 127),
        beta: if rng.chance(1, 4) { 1 } else { 0 },
        c0: vec![],
        bias_kind: *rng.pick(&["none", "none", "row", "col"]),
        bias: vec![],
        a_form: if rng.chance(1, 4) { "packed" } else { "unpacked" },
        b_form: if rng.chance(1, 3) { "packed" } else { "unpacked" },
        a_layout: pick_layout(&mut rng),
        b_layout: pick_layout(&mut rng),
    };
    if m * n * k == 0 {
        // prepacking zero-sized operands panics (registered under C16); not this property's subject
        c.a_form = "unpacked";
        c.b_form = "unpacked";
    }
    if c.beta == 0 {
        c.api = *rng.pick(&["gemm", "gemm_uninit"]);
    } else {
        c.c0 = rand_vec(&mut rng, m * n, -100_000, 100_000);
    }
    c.bias = match c.bias_kind {
        "row" => rand_vec(&mut rng, n, -100_000, 100_000),
        "col" => rand_vec(&mut rng, m, -100_000, 100_000),
        _ => vec![],
    };
    if class == "im2col" {
        c.fam = "im2col";
        c.a = (0..m * k).map(|_| val_a(&mut rng)).collect();
        c.img = (0..geom.c * geom.h * geom.w).map(|_| val_b(&mut rng)).collect();
        c.b_form = "im2col";
        c.b_layout = "rm";
        // im2col B: the zero point is the same for every column
        c.zb = c.zb.map(|z| vec![z[0]; n]);
        return c;
    }
    let work = m * n * k;
    if work <= 60_000 && (work <= 6000 || rng.chance(2, 3)) {
        c.a = (0..m * k).map(|_| val_a(&mut rng)).collect();
        c.b = (0..k * n).map(|_| val_b(&mut rng)).collect();
    } else {
        // additive structure: A[i,k] = av[i] + p[k], B[k,j] = q[k] + v[j]
        c.fam = "add";
        let ah = ahi / 2;
        let (bl, bh) = (blo / 2, bhi / 2);
        c.av = rand_vec(&mut rng, m, alo, ah);
        c.p = rand_vec(&mut rng, k, 0, ahi - ah);
        c.q = rand_vec(&mut rng, k, bl, bh);
        c.v = rand_vec(&mut rng, n, blo - bl, bhi - bh);
        c.a = vec![0; m * k];
        for i in 0..m {
            for kk in 0..k {
                c.a[i * k + kk] = c.av[i] + c.p[kk];
            }
        }
        c.b = vec![0; k * n];
        for kk in 0..k {
            for j in 0..n {
                c.b[kk * n + j] = c.q[kk] + c.v[j];
            }
        }
    }
    c
}

fn opt_ints(v: &Option<Vec<i32>>) -> Value {
    match v {
        Some(v) => ints(v),
        None => json!([]),
    }
}

fn case_json(kernel: &str, idx: usize, c: &Case, sat: bool, threads: usize) -> Value {
    let dense = c.fam == "dense" || c.fam == "im2col";
    json!({
        "ev": "case", "id": format!("{kernel}:t{threads}:{idx}"), "kernel": kernel, "sat": sat,
        "mr": int8_tile(kernel).0, "nr": int8_tile(kernel).1,
        "api": c.api, "cls": c.class, "threads": threads,
        "m": c.m, "n": c.n, "k": c.k, "fam": c.fam,
        "a": if dense { ints(&c.a) } else { json!([]) },
        "b": if c.fam == "dense" { ints(&c.b) } else { json!([]) },
        "av": ints(&c.av), "p": ints(&c.p), "q": ints(&c.q), "v": ints(&c.v),
        "im": c.geom.to_json(&c.img),
        "has_za": c.za.is_some(), "za": opt_ints(&c.za),
        "has_zb": c.zb.is_some(), "zb": opt_ints(&c.zb),
        "beta": c.beta, "c0": ints(&c.c0),
        "bias_kind": c.bias_kind, "bias": ints(&c.bias),
        "a_form": c.a_form, "b_form": c.b_form, "a_layout": c.a_layout, "b_layout": c.b_layout,
    })
}

static PHASE: std::sync::atomic::AtomicUsize = std::sync::atomic::AtomicUsize::new(0);
const PHASES: &[&str] = &["setup", "prepack_a", "prepack_b", "call"];
fn set_phase(p: usize) {
    PHASE.store(p, std::sync::atomic::Ordering::SeqCst);
}
fn phase() -> &'static str {
    PHASES[PHASE.load(std::sync::atomic::Ordering::SeqCst)]
}

fn run_case(gemm: &Gemm8, c: &Case) -> Result<Result<Vec<i32>, String>, String> {
    set_phase(0);
    guarded(|| {
        let a_u8: Vec<u8> = c.a.iter().map(|x| *x as u8).collect();
        let b_i8: Vec<i8> = c.b.iter().map(|x| *x as i8).collect();
        let img: Vec<i8> = c.img.iter().map(|x| *x as i8).collect();
        let a = Strided::new(&a_u8, c.m, c.k, c.a_layout, 201u8);
        let b = if c.fam == "im2col" {
            Strided::new(&[], 0, 0, "rm", 77i8)
        } else {
            Strided::new(&b_i8, c.k, c.n, c.b_layout, 77i8)
        };
        set_phase(1);
        let packed_a = (c.a_form == "packed").then(|| gemm.prepack_a(a.view()));
        set_phase(2);
        let packed_b = (c.b_form == "packed").then(|| gemm.prepack_b(b.view()));
        set_phase(0);
        let im2col = (c.fam == "im2col").then(|| {
            let g = &c.geom;
            let image = NdTensorView::from_data([g.c, g.h, g.w], img.as_slice());
            build_im2col(
                image,
                g,
                gemm.im2col_col_count_step(),
                gemm.im2col_row_count_step(),
            )
        });
        let a_in = match &packed_a {
            Some(p) => GemmInputA::Packed(p),
            None => GemmInputA::Unpacked(a.view()),
        };
        let b_in = match (&packed_b, &im2col) {
            (_, Some(im)) => GemmInputB::Im2Col(im),
            (Some(p), _) => GemmInputB::Packed(p),
            _ => GemmInputB::Unpacked(b.view()),
        };
        let za: Option<Vec<u8>> = c.za.as_ref().map(|z| z.iter().map(|x| *x as u8).collect());
        let zb: Option<Vec<i8>> = c.zb.as_ref().map(|z| z.iter().map(|x| *x as i8).collect());
        let a_quant = za.as_ref().map(|z| QuantParams {
            zero_point: z.as_slice(),
        });
        let b_quant = zb.as_ref().map(|z| QuantParams {
            zero_point: z.as_slice(),
        });
        let bias = match c.bias_kind {
            "row" => Some(BiasVector::Row(c.bias.as_slice())),
            "col" => Some(BiasVector::Column(c.bias.as_slice())),
            _ => None,
        };
        let poison = 0x5a5a_5a5ai32;
        set_phase(3);
        if c.api == "gemm" {
            let mut out: Vec<i32> = if c.beta != 0 {
                c.c0.clone()
            } else {
                vec![poison; c.m * c.n]
            };
            gemm.gemm(
                &mut out,
                a_in,
                b_in,
                GemmOptions {
                    alpha: 1.0,
                    beta: c.beta,
                    bias,
                    a_quant,
                    b_quant,
                },
            )
            .map(|_| out)
            .map_err(|e| format!("{e:?}"))
        } else {
            let mut out: Vec<MaybeUninit<i32>> = vec![MaybeUninit::new(poison); c.m * c.n];
            gemm.gemm_uninit(
                &mut out,
                a_in,
                b_in,
                GemmUninitOptions {
                    alpha: 1.0,
                    bias,
                    a_quant,
                    b_quant,
                },
            )
            .map(|o| o.to_vec())
            .map_err(|e| format!("{e:?}"))
        }
    })
}

pub fn main_int8() {
    let out = arg_or("--out", "-");
    let ncases = arg_usize("--cases", 100);
    let npairs = arg_usize("--pairs", 2);
    let only = arg("--only-id");
    let kfilter = arg("--kernel");
    let threads = rayon::current_num_threads();
    vcommon::quiet_panics();
    let mut tr = Trace::create(&out);
    let names = int8_kernel_names();
    tr.emit(json!({"ev": "info", "kernels": names, "threads": threads}));
    for kernel in &names {
        if let Some(k) = &kfilter {
            if k != kernel {
                continue;
            }
        }
        let gemm = int8_executor(kernel).expect("kernel");
        let sat = gemm.may_saturate();
        let shapes = boundary_shapes(kernel);
        for idx in 0..ncases + npairs {
            let id = format!("{kernel}:t{threads}:{idx}");
            if let Some(o) = &only {
                if *o != id {
                    continue;
                }
            }
            let c = gen_case(kernel, idx, &shapes, sat, npairs);
            tr.emit(case_json(kernel, idx, &c, sat, threads));
            tr.flush();
            match run_case(&gemm, &c) {
                Ok(Ok(v)) => tr.emit(json!({"ev": "ret", "id": id, "outcome": "ok", "err": "", "phase": "", "out": ints(&v)})),
                Ok(Err(e)) => tr.emit(json!({"ev": "ret", "id": id, "outcome": "err", "err": e, "phase": phase(), "out": []})),
                Err(p) => {
                    let msg: String = p.chars().take(160).collect();
                    tr.emit(json!({"ev": "ret", "id": id, "outcome": "panic", "err": msg, "phase": phase(), "out": []}))
                }
            }
        }
    }
    tr.flush();
}

/// Minimal reproductions of the C17 findings on the default int8 kernel
/// (prints what the code returns; no judgement).
pub fn main_repro() {
    let gemm = Gemm8::default();
    println!("kernel {} may_saturate {}", gemm.kernel_name(), gemm.may_saturate());
    // (1) per-row zero points beyond the first row panel
    let m = 16;
    let a = vec![10u8; m];
    let b = vec![1i8; 1];
    let za: Vec<u8> = (0..m as u8).collect();
    let mut out = vec![0i32; m];
    gemm.gemm(
        &mut out,
        GemmInputA::Unpacked(NdTensorView::from_data([m, 1], a.as_slice())),
        GemmInputB::Unpacked(NdTensorView::from_data([1, 1], b.as_slice())),
        GemmOptions {
            alpha: 1.0,
            beta: 0,
            bias: None,
            a_quant: Some(QuantParams { zero_point: &za }),
            b_quant: None,
        },
    )
    .unwrap();
    println!("(1) A=16x1 all 10, B=[[1]], za[i]=i: got {:?} (want 10-i)", out);
    // (2) prepacked B ignores its zero point
    let a = vec![1u8; 2 * 1];
    let b = vec![5i8; 1];
    let zb = vec![3i8; 1];
    let pb = gemm.prepack_b(NdTensorView::from_data([1, 1], b.as_slice()));
    let mut out = vec![0i32; 2];
    gemm.gemm(
        &mut out,
        GemmInputA::Unpacked(NdTensorView::from_data([2, 1], a.as_slice())),
        GemmInputB::Packed(&pb),
        GemmOptions {
            alpha: 1.0,
            beta: 0,
            bias: None,
            a_quant: None,
            b_quant: Some(QuantParams { zero_point: &zb }),
        },
    )
    .unwrap();
    println!("(2) A=[[1],[1]], prepacked B=[[5]], zb=[3]: got {:?} (want [2, 2])", out);
}
