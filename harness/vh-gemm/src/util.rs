//! Helpers shared by the GEMM engines: strided backing buffers, per-case RNG,
//! kernel parameter tables, im2col construction.

use rten_gemm::{ColOffsets, Im2Col, RowOffsets};
use rten_tensor::{Matrix, NdTensorView};
use vcommon::{Rng, Value, json};

/// A logical `rows x cols` matrix stored in a larger buffer with arbitrary
/// (non-overlapping) strides. Unused buffer positions hold `filler`, so a
/// kernel that reads a wrong offset produces a wrong result.
pub struct Strided<T> {
    pub buf: Vec<T>,
    pub off: usize,
    pub rs: usize,
    pub cs: usize,
    pub rows: usize,
    pub cols: usize,
    pub kind: &'static str,
}

pub const LAYOUTS: &[&str] = &["rm", "tr", "rmpad", "step", "trstep", "off"];

impl<T: Copy> Strided<T> {
    pub fn new(logical: &[T], rows: usize, cols: usize, kind: &'static str, filler: T) -> Self {
        assert_eq!(logical.len(), rows * cols);
        let r1 = rows.max(1);
        let c1 = cols.max(1);
        let (off, rs, cs) = match kind {
            "rm" => (0, c1, 1),
            "tr" => (0, 1, r1),
            "rmpad" => (0, c1 + 3, 1),
            "step" => (1, 2 * c1 + 1, 2),
            "trstep" => (2, 3, 3 * r1 + 2),
            "off" => (5, c1, 1),
            _ => panic!("unknown layout {kind}"),
        };
        let len = off + (r1 - 1) * rs + (c1 - 1) * cs + 1 + 2;
        let mut buf = vec![filler; len];
        for i in 0..rows {
            for j in 0..cols {
                buf[off + i * rs + j * cs] = logical[i * cols + j];
            }
        }
        Strided {
            buf,
            off,
            rs,
            cs,
            rows,
            cols,
            kind,
        }
    }

    pub fn view(&self) -> Matrix<'_, T> {
        NdTensorView::from_slice_with_strides(
            [self.rows, self.cols],
            &self.buf[self.off..],
            [self.rs, self.cs],
        )
        .expect("strided view")
    }
}

/// Independent RNG for case `idx` of stream `stream`.
pub fn case_rng(stream: u64, idx: u64) -> Rng {
    let seed = vcommon::seed_from_env();
    let mut r = Rng::new(
        seed.wrapping_mul(0x9E37_79B9_7F4A_7C15)
            ^ stream.wrapping_mul(0xD1B5_4A32_D192_ED03)
            ^ idx.wrapping_mul(0x94D0_49BB_1331_11EB),
    );
    r.next_u64();
    r.next_u64();
    r
}

pub fn stream_id(name: &str) -> u64 {
    let mut h: u64 = 0xcbf2_9ce4_8422_2325;
    for b in name.bytes() {
        h ^= b as u64;
        h = h.wrapping_mul(0x0100_0000_01b3);
    }
    h
}

pub fn rand_vec(rng: &mut Rng, n: usize, lo: i64, hi: i64) -> Vec<i32> {
    (0..n).map(|_| rng.range(lo, hi) as i32).collect()
}

pub fn ints(v: &[i32]) -> Value {
    Value::Array(v.iter().map(|x| json!(*x)).collect())
}

/// Convolution geometry of an im2col B operand (dilation 1).
#[derive(Clone, Debug)]
pub struct ImGeom {
    pub c: usize,
    pub h: usize,
    pub w: usize,
    pub kh: usize,
    pub kw: usize,
    pub pt: usize,
    pub pl: usize,
    pub pb: usize,
    pub pr: usize,
    pub sy: usize,
    pub sx: usize,
}

impl ImGeom {
    pub fn none() -> ImGeom {
        ImGeom {
            c: 0,
            h: 0,
            w: 0,
            kh: 0,
            kw: 0,
            pt: 0,
            pl: 0,
            pb: 0,
            pr: 0,
            sy: 1,
            sx: 1,
        }
    }
    pub fn oh(&self) -> usize {
        (self.h + self.pt + self.pb - self.kh) / self.sy + 1
    }
    pub fn ow(&self) -> usize {
        (self.w + self.pl + self.pr - self.kw) / self.sx + 1
    }
    pub fn k(&self) -> usize {
        self.c * self.kh * self.kw
    }
    pub fn n(&self) -> usize {
        self.oh() * self.ow()
    }
    pub fn to_json(&self, img: &[i32]) -> Value {
        json!({"c": self.c, "h": self.h, "w": self.w, "kh": self.kh, "kw": self.kw,
               "pt": self.pt, "pl": self.pl, "pb": self.pb, "pr": self.pr,
               "sy": self.sy, "sx": self.sx, "img": ints(img)})
    }
    pub fn random(rng: &mut Rng, max_k: usize) -> ImGeom {
        loop {
            let kh = 1 + rng.below(3);
            let kw = 1 + rng.below(3);
            let c = 1 + rng.below((max_k / (kh * kw)).clamp(1, 40));
            let h = kh + rng.below(6);
            let w = kw + rng.below(6);
            let (pt, pl, pb, pr) = if rng.chance(1, 2) {
                (rng.below(kh), rng.below(kw), rng.below(kh), rng.below(kw))
            } else {
                (0, 0, 0, 0)
            };
            let g = ImGeom {
                c,
                h,
                w,
                kh,
                kw,
                pt,
                pl,
                pb,
                pr,
                sy: 1 + rng.below(2),
                sx: 1 + rng.below(2),
            };
            if g.k() * g.n() <= 6000 {
                return g;
            }
        }
    }
}

/// Build the virtual im2col matrix of a contiguous `[C, H, W]` image (same
/// construction as `src/ops/conv/im2col.rs::build_im2col`, dilation 1).
pub fn build_im2col<'a, T: Copy>(
    image: NdTensorView<'a, T, 3>,
    g: &ImGeom,
    col_count_step: usize,
    row_count_step: usize,
) -> Im2Col<'a, T> {
    let (sc, sh, sw) = ((g.h * g.w) as i32, g.w as i32, 1i32);
    let n_rows = g.k();
    let n_rows_padded = n_rows.next_multiple_of(row_count_step.max(1));
    let mut chan = Vec::new();
    let mut ry = Vec::new();
    let mut rx = Vec::new();
    for c in 0..g.c {
        for ky in 0..g.kh {
            for kx in 0..g.kw {
                chan.push(c as i32 * sc);
                ry.push(ky as i32 * sh);
                rx.push(kx as i32 * sw);
            }
        }
    }
    let max_y_offset = (g.h as i32 - 1) * sh;
    let max_x_offset = (g.w as i32 - 1) * sw;
    // Rows added to reach the kernel's row step must be masked for every column, including
    // columns whose patch starts in the (negative) padding region: use offsets far outside the
    // image.  (src/ops/conv/im2col.rs uses max + 1, which is not masked for such patches; that
    // is observed at the operator level, see Trace_QOps.)
    for _ in n_rows..n_rows_padded {
        chan.push(0);
        rx.push(1 << 28);
        ry.push(1 << 28);
    }
    let (oh, ow) = (g.oh(), g.ow());
    let n_cols = oh * ow;
    let n_cols_padded = n_cols.next_multiple_of(col_count_step.max(1));
    let mut cy = Vec::new();
    let mut cx = Vec::new();
    for col in 0..n_cols_padded {
        let py = (col / ow) as i32;
        let px = (col % ow) as i32;
        cy.push((py * g.sy as i32 - g.pt as i32) * sh);
        cx.push((px * g.sx as i32 - g.pl as i32) * sw);
    }
    Im2Col {
        image,
        n_rows,
        n_cols,
        row_offsets: RowOffsets {
            chan,
            y: ry,
            x: rx,
        },
        col_offsets: ColOffsets { y: cy, x: cx },
        max_y_offset,
        max_x_offset,
    }
}

/// (mr, nr) of a kernel by hook name; used only to choose shapes around the
/// tile boundaries (never for judging).
pub fn f32_tile(name: &str) -> (usize, usize) {
    match name {
        "Generic" => (8, 4),
        "Fma" => (6, 16),
        "Avx512" => (6, 32),
        _ => (8, 16),
    }
}

pub fn int8_tile(name: &str) -> (usize, usize) {
    match name {
        "Generic" => (8, 4),
        "Avx2" => (6, 16),
        "Avx512" => (8, 32),
        _ => (8, 16),
    }
}

pub fn dedup_sorted(mut v: Vec<usize>) -> Vec<usize> {
    v.sort();
    v.dedup();
    v
}
