//! C17 engine (operator level): MatMulInteger, ConvInteger (and their fused
//! `*ToFloat` forms, reached through Cast + Mul with power-of-two scales) and
//! DynamicQuantizeLinear -> DequantizeLinear, run as single-purpose ONNX
//! models through the public `rten::Model` API.  Inputs and outputs are
//! recorded as integers; the trace spec computes the expected results.

use rten::{Model, ModelOptions, Value as RValue, ValueOrView};
use rten_tensor::Tensor;
use rten_tensor::prelude::*;
use vcommon::onnx::{self, Attr, Graph, Node, TensorData, ValueInfo};
use vcommon::{Rng, Trace, Value, arg, arg_or, arg_usize, guarded, json};

use crate::util::*;

fn ty_code(ty: &str) -> i32 {
    match ty {
        "u8" => onnx::UINT8,
        "i8" => onnx::INT8,
        _ => panic!("type"),
    }
}

fn byte_tensor(name: &str, ty: &str, dims: &[i64], vals: &[i32]) -> onnx::Tensor {
    onnx::Tensor {
        name: name.into(),
        dims: dims.to_vec(),
        data: if ty == "u8" {
            TensorData::U8(vals.iter().map(|x| *x as u8).collect())
        } else {
            TensorData::I8(vals.iter().map(|x| *x as i8).collect())
        },
    }
}

fn byte_value(ty: &str, shape: &[usize], vals: &[i32]) -> RValue {
    if ty == "u8" {
        Tensor::<u8>::from_data(shape, vals.iter().map(|x| *x as u8).collect::<Vec<_>>()).into()
    } else {
        Tensor::<i8>::from_data(shape, vals.iter().map(|x| *x as i8).collect::<Vec<_>>()).into()
    }
}

fn range_of(ty: &str) -> (i64, i64) {
    if ty == "u8" { (0, 255) } else { (-128, 127) }
}

fn dims64(s: &[usize]) -> Vec<i64> {
    s.iter().map(|x| *x as i64).collect()
}

fn us(v: &[usize]) -> Value {
    Value::Array(v.iter().map(|x| json!(*x)).collect())
}

/// Result of running a model: per output (shape, ints, nonint count).
struct Outs {
    outcome: &'static str,
    err: String,
    outs: Vec<(Vec<usize>, Vec<i32>, usize)>,
}

/// Convert an output value to integers. Floats are divided by 2^unit_log2 and
/// must then be integral.
fn value_ints(v: RValue, unit_log2: i32) -> (Vec<usize>, Vec<i32>, usize) {
    let unit = (unit_log2 as f64).exp2();
    match v {
        RValue::Int32Tensor(t) => (t.shape().to_vec(), t.iter().copied().collect(), 0),
        RValue::UInt8Tensor(t) => (t.shape().to_vec(), t.iter().map(|x| *x as i32).collect(), 0),
        RValue::Int8Tensor(t) => (t.shape().to_vec(), t.iter().map(|x| *x as i32).collect(), 0),
        RValue::FloatTensor(t) => {
            let mut bad = 0;
            let vals = t
                .iter()
                .map(|x| {
                    let y = *x as f64 / unit;
                    if y.is_finite() && y.fract() == 0.0 && y.abs() < 2.0e9 {
                        y as i32
                    } else {
                        bad += 1;
                        1_000_000_007
                    }
                })
                .collect();
            (t.shape().to_vec(), vals, bad)
        }
        _ => (vec![], vec![], 1),
    }
}

fn run_model(
    bytes: Vec<u8>,
    inputs: Vec<(&str, RValue)>,
    outputs: &[&str],
    unit_log2: &[i32],
) -> Outs {
    run_model_opts(bytes, inputs, outputs, unit_log2, false)
}

fn run_model_opts(
    bytes: Vec<u8>,
    inputs: Vec<(&str, RValue)>,
    outputs: &[&str],
    unit_log2: &[i32],
    prepack: bool,
) -> Outs {
    let r = guarded(|| -> Result<Vec<RValue>, String> {
        let model = if prepack {
            ModelOptions::with_all_ops()
                .prepack_weights(true)
                .load(bytes)
                .map_err(|e| format!("load: {e}"))?
        } else {
            Model::load(bytes).map_err(|e| format!("load: {e}"))?
        };
        let mut ins: Vec<(rten::NodeId, ValueOrView)> = Vec::new();
        for (name, v) in inputs {
            let id = model.node_id(name).map_err(|e| format!("input {name}: {e}"))?;
            ins.push((id, v.into()));
        }
        let mut outs = Vec::new();
        for o in outputs {
            outs.push(model.node_id(o).map_err(|e| format!("output {o}: {e}"))?);
        }
        model.run(ins, &outs, None).map_err(|e| format!("run: {e}"))
    });
    match r {
        Ok(Ok(vals)) => Outs {
            outcome: "ok",
            err: String::new(),
            outs: vals
                .into_iter()
                .zip(unit_log2.iter())
                .map(|(v, u)| value_ints(v, *u))
                .collect(),
        },
        Ok(Err(e)) => Outs {
            outcome: "err",
            err: e.chars().take(200).collect(),
            outs: vec![],
        },
        Err(p) => Outs {
            outcome: "panic",
            err: p.chars().take(200).collect(),
            outs: vec![],
        },
    }
}

fn emit_ret(tr: &mut Trace, id: &str, o: &Outs) {
    let outs: Vec<Value> = o
        .outs
        .iter()
        .map(|(s, v, bad)| json!({"shape": us(s), "data": ints(v), "nonint": bad}))
        .collect();
    tr.emit(json!({"ev": "ret", "id": id, "outcome": o.outcome, "err": o.err, "outs": outs}));
}

fn gen_vals(rng: &mut Rng, n: usize, ty: &str, style: usize) -> Vec<i32> {
    let (lo, hi) = range_of(ty);
    (0..n)
        .map(|_| match style {
            0 => rng.range(lo, hi) as i32,
            1 => *rng.pick(&[lo as i32, hi as i32, hi as i32, lo as i32 + 1, (lo + hi) as i32 / 2]),
            _ => rng.range(lo / 2, hi / 2) as i32,
        })
        .collect()
}

// ------------------------------------------------------------- MatMulInteger
fn matmul_integer_case(tr: &mut Trace, id: &str, rng: &mut Rng) {
    let a_ty = *rng.pick(&["u8", "u8", "i8"]);
    let b_ty = *rng.pick(&["i8", "i8", "u8"]);
    let (mr, nr) = (8usize, 32usize);
    let m = *rng.pick(&[1usize, 2, 3, mr - 1, mr, mr + 1, 2 * mr + 3, 40, 67]);
    let n = *rng.pick(&[1usize, 2, 5, nr - 1, nr, nr + 1, 2 * nr + 1, 130]);
    let k = *rng.pick(&[1usize, 2, 3, 4, 5, 8, 17, 64, 130]);
    let (m, n, k) = if m * n * k > 120_000 { (m.min(17), n, k) } else { (m, n, k) };
    // batch form: none, A batched, B batched, both batched
    let form = *rng.pick(&["plain", "plain", "a_batch", "b_batch", "both_batch"]);
    let nb = 1 + rng.below(3);
    let a_shape: Vec<usize> = if form == "a_batch" || form == "both_batch" { vec![nb, m, k] } else { vec![m, k] };
    let b_shape: Vec<usize> = if form == "b_batch" || form == "both_batch" { vec![nb, k, n] } else { vec![k, n] };
    let style = rng.below(3);
    let a = gen_vals(rng, a_shape.iter().product(), a_ty, style);
    let b = gen_vals(rng, b_shape.iter().product(), b_ty, style);
    let b_const = b_shape.len() == 2 && rng.chance(1, 2);
    // constant weights are prepacked at load time only on request (ModelOptions::prepack_weights)
    let prepack = b_const && rng.chance(1, 2);
    let (alo, ahi) = range_of(a_ty);
    let (blo, bhi) = range_of(b_ty);
    // zero points: absent, scalar, or vector (per row of A / per column of B)
    let za_kind = *rng.pick(&["none", "scalar", "scalar", "vector"]);
    let zb_kind = *rng.pick(&["none", "scalar", "scalar", "vector"]);
    let za: Vec<i32> = match za_kind {
        "scalar" => vec![rng.range(alo, ahi) as i32],
        "vector" => (0..m).map(|_| rng.range(alo, ahi) as i32).collect(),
        _ => vec![],
    };
    let zb: Vec<i32> = match zb_kind {
        "scalar" => vec![if rng.chance(1, 3) { 0 } else { rng.range(blo, bhi) as i32 }],
        "vector" => (0..n).map(|_| rng.range(blo, bhi) as i32).collect(),
        _ => vec![],
    };
    // fused to-float form needs both zero points present
    let to_float = za_kind != "none" && zb_kind != "none" && k <= 130 && rng.chance(1, 3);
    let scale_kind = if to_float { *rng.pick(&["scalar", "vector"]) } else { "none" };
    let scale_log2: Vec<i32> = match scale_kind {
        "scalar" => vec![rng.range(-6, 2) as i32],
        "vector" => (0..n).map(|_| rng.range(-6, 2) as i32).collect(),
        _ => vec![],
    };
    let unit_log2 = scale_log2.iter().copied().min().unwrap_or(0);

    let mut g = Graph::default();
    g.inputs.push(ValueInfo::fixed("A", ty_code(a_ty), &dims64(&a_shape)));
    if b_const {
        g.initializers.push(byte_tensor("B", b_ty, &dims64(&b_shape), &b));
    } else {
        g.inputs.push(ValueInfo::fixed("B", ty_code(b_ty), &dims64(&b_shape)));
    }
    let mut ins = vec!["A", "B"];
    if za_kind != "none" || zb_kind != "none" {
        // a_zero_point is positional: supply an explicit zero when only zb is given
        let zav = if za.is_empty() { vec![0] } else { za.clone() };
        let dims: Vec<i64> = if za_kind == "vector" { vec![m as i64] } else { vec![] };
        g.initializers.push(byte_tensor("za", a_ty, &dims, &zav));
        ins.push("za");
    }
    if zb_kind != "none" {
        let dims: Vec<i64> = if zb_kind == "vector" { vec![n as i64] } else { vec![] };
        g.initializers.push(byte_tensor("zb", b_ty, &dims, &zb));
        ins.push("zb");
    }
    let out_name = if to_float { "Yi" } else { "Y" };
    g.nodes.push(Node::new("MatMulInteger", &ins, &[out_name]));
    if to_float {
        g.nodes.push(Node::new("Cast", &["Yi"], &["Yf"]).attr("to", Attr::Int(onnx::FLOAT as i64)));
        let sc: Vec<f32> = scale_log2.iter().map(|e| (*e as f32).exp2()).collect();
        let dims: Vec<i64> = if scale_kind == "vector" { vec![n as i64] } else { vec![] };
        g.initializers.push(onnx::Tensor {
            name: "scale".into(),
            dims,
            data: TensorData::F32(sc),
        });
        g.nodes.push(Node::new("Mul", &["Yf", "scale"], &["Y"]));
        g.outputs.push(ValueInfo::new("Y", onnx::FLOAT, None));
    } else {
        g.outputs.push(ValueInfo::new("Y", onnx::INT32, None));
    }
    tr.emit(json!({
        "ev": "case", "op": "MatMulInteger", "id": id, "form": form, "nb": nb, "mr": 8, "nr": 32,
        "m": m, "n": n, "k": k, "a_ty": a_ty, "b_ty": b_ty,
        "a_shape": us(&a_shape), "b_shape": us(&b_shape), "a": ints(&a), "b": ints(&b),
        "b_const": b_const, "prepack": prepack, "za_kind": za_kind, "zb_kind": zb_kind, "za": ints(&za), "zb": ints(&zb),
        "to_float": to_float, "scale_kind": scale_kind, "scale_log2": ints(&scale_log2), "unit_log2": unit_log2,
    }));
    tr.flush();
    let mut inputs = vec![("A", byte_value(a_ty, &a_shape, &a))];
    if !b_const {
        inputs.push(("B", byte_value(b_ty, &b_shape, &b)));
    }
    let o = run_model_opts(g.to_model(), inputs, &["Y"], &[unit_log2], prepack);
    emit_ret(tr, id, &o);
}

// --------------------------------------------------------------- ConvInteger
fn conv_integer_case(tr: &mut Trace, id: &str, rng: &mut Rng) {
    let x_ty = *rng.pick(&["u8", "u8", "i8"]);
    let w_ty = *rng.pick(&["i8", "i8", "u8"]);
    let kind = *rng.pick(&["general", "general", "pointwise", "depthwise", "grouped"]);
    let batch = 1 + rng.below(2);
    let (kh, kw) = if kind == "pointwise" { (1, 1) } else { (1 + rng.below(3), 1 + rng.below(3)) };
    let groups = match kind {
        "depthwise" => 1 + rng.below(4),
        "grouped" => 2,
        _ => 1,
    };
    let cg = if kind == "depthwise" { 1 } else { 1 + rng.below(5) }; // input channels per group
    let og = if kind == "depthwise" { 1 } else { 1 + rng.below(13) }; // output channels per group
    let (c, o) = (groups * cg, groups * og);
    let h = kh + rng.below(6);
    let w = kw + rng.below(6);
    let (pt, pl, pb, pr) = if kind != "pointwise" && rng.chance(1, 2) {
        (rng.below(kh), rng.below(kw), rng.below(kh), rng.below(kw))
    } else {
        (0, 0, 0, 0)
    };
    let (sy, sx) = if kind == "pointwise" { (1, 1) } else { (1 + rng.below(2), 1 + rng.below(2)) };
    let style = rng.below(3);
    let x = gen_vals(rng, batch * c * h * w, x_ty, style);
    let wv = gen_vals(rng, o * cg * kh * kw, w_ty, style);
    let (xlo, xhi) = range_of(x_ty);
    let (wlo, whi) = range_of(w_ty);
    let xz_kind = *rng.pick(&["none", "scalar", "scalar"]);
    let wz_kind = *rng.pick(&["none", "scalar", "vector"]);
    let xz: Vec<i32> = if xz_kind == "scalar" { vec![rng.range(xlo, xhi) as i32] } else { vec![] };
    let wz: Vec<i32> = match wz_kind {
        "scalar" => vec![rng.range(wlo, whi) as i32],
        "vector" => (0..o).map(|_| rng.range(wlo, whi) as i32).collect(),
        _ => vec![],
    };
    let to_float = xz_kind != "none" && wz_kind != "none" && rng.chance(1, 3);
    let scale_log2: Vec<i32> = if to_float { vec![rng.range(-6, 2) as i32] } else { vec![] };
    let unit_log2 = scale_log2.first().copied().unwrap_or(0);

    let mut g = Graph::default();
    let x_shape = [batch, c, h, w];
    let w_shape = [o, cg, kh, kw];
    g.inputs.push(ValueInfo::fixed("X", ty_code(x_ty), &dims64(&x_shape)));
    g.initializers.push(byte_tensor("W", w_ty, &dims64(&w_shape), &wv));
    let mut ins = vec!["X", "W"];
    if xz_kind != "none" || wz_kind != "none" {
        let v = if xz.is_empty() { vec![0] } else { xz.clone() };
        g.initializers.push(byte_tensor("xz", x_ty, &[], &v));
        ins.push("xz");
    }
    if wz_kind != "none" {
        let dims: Vec<i64> = if wz_kind == "vector" { vec![o as i64] } else { vec![] };
        g.initializers.push(byte_tensor("wz", w_ty, &dims, &wz));
        ins.push("wz");
    }
    let out_name = if to_float { "Yi" } else { "Y" };
    g.nodes.push(
        Node::new("ConvInteger", &ins, &[out_name])
            .attr("kernel_shape", Attr::Ints(vec![kh as i64, kw as i64]))
            .attr("pads", Attr::Ints(vec![pt as i64, pl as i64, pb as i64, pr as i64]))
            .attr("strides", Attr::Ints(vec![sy as i64, sx as i64]))
            .attr("group", Attr::Int(groups as i64)),
    );
    if to_float {
        g.nodes.push(Node::new("Cast", &["Yi"], &["Yf"]).attr("to", Attr::Int(onnx::FLOAT as i64)));
        g.initializers.push(onnx::Tensor {
            name: "scale".into(),
            dims: vec![],
            data: TensorData::F32(vec![(scale_log2[0] as f32).exp2()]),
        });
        g.nodes.push(Node::new("Mul", &["Yf", "scale"], &["Y"]));
        g.outputs.push(ValueInfo::new("Y", onnx::FLOAT, None));
    } else {
        g.outputs.push(ValueInfo::new("Y", onnx::INT32, None));
    }
    tr.emit(json!({
        "ev": "case", "op": "ConvInteger", "id": id, "kind": kind, "mr": 8, "nr": 32,
        "batch": batch, "c": c, "h": h, "w": w, "o": o, "cg": cg, "og": og, "groups": groups,
        "kh": kh, "kw": kw, "pt": pt, "pl": pl, "pb": pb, "pr": pr, "sy": sy, "sx": sx,
        "x_ty": x_ty, "w_ty": w_ty, "x": ints(&x), "wt": ints(&wv),
        "xz_kind": xz_kind, "wz_kind": wz_kind, "xz": ints(&xz), "wz": ints(&wz),
        "to_float": to_float, "scale_log2": ints(&scale_log2), "unit_log2": unit_log2,
    }));
    tr.flush();
    let o = run_model(
        g.to_model(),
        vec![("X", byte_value(x_ty, &x_shape, &x))],
        &["Y"],
        &[unit_log2],
    );
    emit_ret(tr, id, &o);
}

// ------------------------------ DynamicQuantizeLinear -> DequantizeLinear
fn dql_case(tr: &mut Trace, id: &str, rng: &mut Rng) {
    // Values are integer multiples of the unit u = 2^unit_log2.  The range
    // (after including 0) is 255 * 2^step_log2, so the scale is exactly 2^step_log2.
    let step_log2 = rng.range(-4, 3) as i32; // quantization step
    let sub = rng.range(0, 3) as i32; // inputs are finer than the step by 2^sub
    let unit_log2 = step_log2 - sub;
    let per = 1i32 << sub; // units per step
    let kind = *rng.pick(&["mixed", "mixed", "positive", "negative"]);
    let zp = match kind {
        "positive" => 0,
        "negative" => 255,
        _ => rng.range(1, 254) as i32,
    };
    // in units: min = -zp*per, max = (255 - zp)*per
    let (lo, hi) = (-zp * per, (255 - zp) * per);
    let n = *rng.pick(&[1usize, 2, 3, 7, 16, 33, 100, 5000]);
    let n = n.max(2);
    let mut x: Vec<i32> = (0..n).map(|_| rng.range(lo as i64, hi as i64) as i32).collect();
    // make sure the extremes are present so that the range is exactly 255 steps
    x[0] = lo;
    x[1] = hi;
    if n > 2 {
        let last = n - 1;
        x.swap(1, last);
    }
    let shape: Vec<usize> = if n % 2 == 0 && rng.chance(1, 2) { vec![2, n / 2] } else { vec![n] };
    let unit = (unit_log2 as f32).exp2();
    let xf: Vec<f32> = x.iter().map(|v| *v as f32 * unit).collect();

    let mut g = Graph::default();
    g.inputs.push(ValueInfo::fixed("X", onnx::FLOAT, &dims64(&shape)));
    g.nodes.push(Node::new("DynamicQuantizeLinear", &["X"], &["Q", "S", "Z"]));
    g.nodes.push(Node::new("DequantizeLinear", &["Q", "S", "Z"], &["Y"]));
    g.outputs.push(ValueInfo::new("Q", onnx::UINT8, None));
    g.outputs.push(ValueInfo::new("S", onnx::FLOAT, None));
    g.outputs.push(ValueInfo::new("Z", onnx::UINT8, None));
    g.outputs.push(ValueInfo::new("Y", onnx::FLOAT, None));
    tr.emit(json!({
        "ev": "case", "op": "DynamicQuantizeLinear", "id": id, "kind": kind,
        "n": n, "shape": us(&shape), "x": ints(&x), "unit_log2": unit_log2, "step_log2": step_log2, "per": per,
    }));
    tr.flush();
    let input: RValue = Tensor::<f32>::from_data(shape.as_slice(), xf).into();
    let o = run_model(
        g.to_model(),
        vec![("X", input)],
        &["Q", "S", "Z", "Y"],
        &[0, unit_log2, 0, unit_log2],
    );
    emit_ret(tr, id, &o);
}

pub fn main_qops() {
    let out = arg_or("--out", "-");
    let ncases = arg_usize("--cases", 60);
    let only = arg("--only-id");
    vcommon::quiet_panics();
    let mut tr = Trace::create(&out);
    tr.emit(json!({"ev": "info", "threads": rayon::current_num_threads()}));
    for idx in 0..ncases {
        let (op, f): (&str, fn(&mut Trace, &str, &mut Rng)) = match idx % 5 {
            0 | 1 => ("mmi", matmul_integer_case),
            2 | 3 => ("convi", conv_integer_case),
            _ => ("dql", dql_case),
        };
        let id = format!("{op}:{idx}");
        if let Some(o) = &only {
            if *o != id {
                continue;
            }
        }
        let mut rng = case_rng(stream_id("qops"), idx as u64 + 1);
        f(&mut tr, &id, &mut rng);
    }
    tr.flush();
}

/// Minimal operator-level reproductions of the C17 findings (prints what the
/// code returns; no judgement).
pub fn main_repro() {
    // (3) ConvInteger: u8 image [1,2,1,1] = [5, 5], i8 weights [1,2,1,1] = [2, 2], left padding 1,
    // no zero points.  ONNX: padding contributes 0 -> [0, 20].
    let mut g = Graph::default();
    g.inputs.push(ValueInfo::fixed("X", onnx::UINT8, &[1, 2, 1, 1]));
    g.initializers.push(byte_tensor("W", "i8", &[1, 2, 1, 1], &[2, 2]));
    g.nodes.push(
        Node::new("ConvInteger", &["X", "W"], &["Y"])
            .attr("kernel_shape", Attr::Ints(vec![1, 1]))
            .attr("pads", Attr::Ints(vec![0, 1, 0, 0])),
    );
    g.outputs.push(ValueInfo::new("Y", onnx::INT32, None));
    let o = run_model(g.to_model(), vec![("X", byte_value("u8", &[1, 2, 1, 1], &[5, 5]))], &["Y"], &[0]);
    println!("(3) ConvInteger x=[5,5] u8 [1,2,1,1], w=[2,2] i8 [1,2,1,1], pads=[0,1,0,0]: {} {:?} (want [0, 20])",
             o.outcome, o.outs.first().map(|x| x.1.clone()));
    // (4) ConvInteger batch 2 (kernel prepacked), 2 input channels, 2x2 kernel, i8 weights all 1,
    // u8 image all 1, no padding, no zero points -> every output 8.
    let mut g = Graph::default();
    g.inputs.push(ValueInfo::fixed("X", onnx::UINT8, &[2, 2, 2, 2]));
    g.initializers.push(byte_tensor("W", "i8", &[1, 2, 2, 2], &[1; 8]));
    g.nodes.push(Node::new("ConvInteger", &["X", "W"], &["Y"]).attr("kernel_shape", Attr::Ints(vec![2, 2])));
    g.outputs.push(ValueInfo::new("Y", onnx::INT32, None));
    let o = run_model(g.to_model(), vec![("X", byte_value("u8", &[2, 2, 2, 2], &[1; 16]))], &["Y"], &[0]);
    println!("(4) ConvInteger x=ones[2,2,2,2] u8, w=ones[1,2,2,2] i8: {} {:?} (want [8, 8])",
             o.outcome, o.outs.first().map(|x| x.1.clone()));
    // (7) ConvInteger with K = C*kh*kw = 3 (not a multiple of 4) and top + left padding:
    // x = ones [1,3,1,1] i8, w = ones [1,3,1,1] i8, pads [1,1,0,0] -> [[0,0],[0,3]].
    let mut g = Graph::default();
    g.inputs.push(ValueInfo::fixed("X", onnx::INT8, &[1, 3, 1, 1]));
    g.initializers.push(byte_tensor("W", "i8", &[1, 3, 1, 1], &[1, 1, 1]));
    g.nodes.push(
        Node::new("ConvInteger", &["X", "W"], &["Y"])
            .attr("kernel_shape", Attr::Ints(vec![1, 1]))
            .attr("pads", Attr::Ints(vec![1, 1, 0, 0])),
    );
    g.outputs.push(ValueInfo::new("Y", onnx::INT32, None));
    let o = run_model(g.to_model(), vec![("X", byte_value("i8", &[1, 3, 1, 1], &[1, 1, 1]))], &["Y"], &[0]);
    println!("(7) ConvInteger x=ones[1,3,1,1] i8, w=ones[1,3,1,1] i8, pads=[1,1,0,0]: {} {:?} (want [0, 0, 0, 3])",
             o.outcome, o.outs.first().map(|x| x.1.clone()));
    // (5) MatMulInteger with constant i8 B, b_zero_point 3, weights prepacked at load:
    // A = [[1],[1]], B = [[5]] -> [[2],[2]]
    for prepack in [false, true] {
        let mut g = Graph::default();
        g.inputs.push(ValueInfo::fixed("A", onnx::UINT8, &[2, 1]));
        g.initializers.push(byte_tensor("B", "i8", &[1, 1], &[5]));
        g.initializers.push(byte_tensor("za", "u8", &[], &[0]));
        g.initializers.push(byte_tensor("zb", "i8", &[], &[3]));
        g.nodes.push(Node::new("MatMulInteger", &["A", "B", "za", "zb"], &["Y"]));
        g.outputs.push(ValueInfo::new("Y", onnx::INT32, None));
        let o = run_model_opts(g.to_model(), vec![("A", byte_value("u8", &[2, 1], &[1, 1]))], &["Y"], &[0], prepack);
        println!("(5) MatMulInteger A=[[1],[1]] u8, const B=[[5]] i8, b_zero_point=3, prepack_weights={prepack}: {} {:?} (want [2, 2])",
                 o.outcome, o.outs.first().map(|x| x.1.clone()));
    }
    // (6) MatMulInteger A [2,1] u8 with a_zero_point 3 against a batch of two B matrices
    // (A is prepacked internally): A = [[4],[4]], B = [[[1]],[[1]]] -> all 1.
    let mut g = Graph::default();
    g.inputs.push(ValueInfo::fixed("A", onnx::UINT8, &[2, 1]));
    g.inputs.push(ValueInfo::fixed("B", onnx::INT8, &[2, 1, 1]));
    g.initializers.push(byte_tensor("za", "u8", &[], &[3]));
    g.nodes.push(Node::new("MatMulInteger", &["A", "B", "za"], &["Y"]));
    g.outputs.push(ValueInfo::new("Y", onnx::INT32, None));
    let o = run_model(
        g.to_model(),
        vec![("A", byte_value("u8", &[2, 1], &[4, 4])), ("B", byte_value("i8", &[2, 1, 1], &[1, 1]))],
        &["Y"],
        &[0],
    );
    println!("(6) MatMulInteger A=[[4],[4]] u8 a_zero_point=3, B=ones[2,1,1] i8: {} {:?} (want [1, 1, 1, 1])",
             o.outcome, o.outs.first().map(|x| x.1.clone()));
}
