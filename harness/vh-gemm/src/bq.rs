//! C37 engine: 4-bit block-quantized matrix multiplication through
//! (a) `rten_gemm::BlockQuantizedGemm` (Float and Int8 compute modes),
//! (b) every f32 `GemmExecutor` kernel with `GemmInputB::BlockQuantized`,
//! (c) `MatMulNBits` single-operator ONNX models run with `rten::Model`.
//!
//! Data are exact: scales are powers of two, activations integer multiples of
//! a power-of-two unit (for the Int8 mode every activation block has maximum
//! magnitude 127 * 2^k so that its dynamic quantization is exact).  The
//! harness logs integers only; dequantize-then-multiply is computed in TLA+.

use std::mem::MaybeUninit;

use rten::{Model, Value as RValue, ValueOrView};
use rten_gemm::verif::{f32_executor, f32_kernel_names};
use rten_gemm::{
    BiasVector, BlockQuantizedGemm, BlockQuantizedMatrix, ComputeMode, GemmInputA, GemmInputB,
    GemmUninitOptions,
};
use rten_tensor::prelude::*;
use rten_tensor::{Contiguous, NdTensorView, Tensor};
use vcommon::onnx::{self, Attr, Graph, Node, TensorData, ValueInfo};
use vcommon::{Rng, Trace, Value, arg, arg_or, arg_usize, guarded, json};

use crate::util::*;

struct Case {
    api: &'static str,  // bqgemm | gemm | model
    mode: &'static str, // float | int8
    kernel: String,     // f32 kernel name for api = gemm, "" otherwise
    variant: &'static str, // model only: ok | scales_1d | zero_points | k_mismatch
    batch: usize,
    m: usize,
    n: usize,
    k: usize,
    bs: usize,
    a_unit_log2: i32,
    a: Vec<i32>,  // batch*m*k, in units of 2^a_unit_log2
    q: Vec<i32>,  // n*k nibbles, column-major: q[j*k + kk]
    se: Vec<i32>, // n*(k/bs) scale exponents
    bias_kind: &'static str,
    bias: Vec<i32>, // in output units
    exact_int8: bool,
}

impl Case {
    fn out_unit_log2(&self) -> i32 {
        self.a_unit_log2 + self.se.iter().copied().min().unwrap_or(0)
    }
    fn kblocks(&self) -> usize {
        if self.bs == 0 { 0 } else { self.k / self.bs }
    }
    fn a_f32(&self) -> Vec<f32> {
        let u = (self.a_unit_log2 as f32).exp2();
        self.a.iter().map(|x| *x as f32 * u).collect()
    }
    fn packed_q(&self) -> Vec<u8> {
        // [n, kblocks, bs/2]: low nibble = even element, high nibble = odd element
        let mut v = Vec::with_capacity(self.n * self.k / 2);
        for j in 0..self.n {
            for kk in (0..self.k).step_by(2) {
                let lo = self.q[j * self.k + kk] as u8;
                let hi = self.q[j * self.k + kk + 1] as u8;
                v.push((lo & 0x0F) | (hi << 4));
            }
        }
        v
    }
    fn scales(&self) -> Vec<f32> {
        self.se.iter().map(|e| (*e as f32).exp2()).collect()
    }
}

fn gen_case(idx: usize, kernels: &[String]) -> Case {
    let mut rng = case_rng(stream_id("bq"), idx as u64 + 1);
    let api = *rng.pick(&["bqgemm", "bqgemm", "gemm", "model", "model"]);
    let mode = if api == "gemm" { "float" } else { *rng.pick(&["float", "int8"]) };
    let bs = *rng.pick(&[16usize, 16, 32, 32, 64, 128, 256]);
    let max_blocks = (512 / bs).max(1);
    let kblocks = match rng.below(6) {
        0 => 1,
        1 => max_blocks,
        _ => 1 + rng.below(max_blocks.min(9)),
    };
    let k = bs * kblocks;
    let n = *rng.pick(&[1usize, 2, 3, 4, 5, 15, 16, 17, 31, 32, 33, 40]);
    let m = match api {
        "gemm" => *rng.pick(&[1usize, 2, 5, 6, 7, 8, 9]),
        _ => *rng.pick(&[1usize, 1, 1, 2, 3]),
    };
    let batch = if api == "gemm" { 1 } else { 1 + rng.below(3) };
    let variant = if api == "model" {
        *rng.pick(&["ok", "ok", "ok", "ok", "ok", "scales_1d", "zero_points", "k_mismatch"])
    } else {
        "ok"
    };
    let int8 = mode == "int8";
    // scale exponents per (column, block)
    let (elo, ehi) = if int8 { (-1, 1) } else { (-3, 2) };
    let se: Vec<i32> = (0..n * kblocks).map(|_| rng.range(elo, ehi) as i32).collect();
    // nibbles: full range 0..15 incl. extremes
    let qstyle = rng.below(3);
    let q: Vec<i32> = (0..n * k)
        .map(|_| match qstyle {
            0 => rng.range(0, 15) as i32,
            1 => *rng.pick(&[0, 15, 8, 7, 9]),
            _ => rng.range(5, 11) as i32,
        })
        .collect();
    // activations
    let rows = batch * m;
    let mut a = vec![0i32; rows * k];
    let a_unit_log2;
    if int8 {
        // every (row, block) has max |x| = 127 * 2^kb and entries that are multiples of 2^kb
        a_unit_log2 = -(rng.below(3) as i32);
        for r in 0..rows {
            for b in 0..kblocks {
                let kb = rng.below(2) as i32;
                let zero_block = rng.chance(1, 12);
                for e in 0..bs {
                    let t = if zero_block { 0 } else { rng.range(-127, 127) as i32 };
                    a[r * k + b * bs + e] = t << kb;
                }
                if !zero_block {
                    let pos = rng.below(bs);
                    a[r * k + b * bs + pos] = (if rng.chance(1, 2) { 127 } else { -127 }) << kb;
                }
            }
        }
    } else {
        a_unit_log2 = -(rng.below(3) as i32);
        for x in a.iter_mut() {
            *x = rng.range(-8, 8) as i32;
        }
    }
    let bias_kind = if api == "gemm" { *rng.pick(&["none", "none", "row", "col"]) } else { "none" };
    let bias = match bias_kind {
        "row" => rand_vec(&mut rng, n, -50, 50),
        "col" => rand_vec(&mut rng, m, -50, 50),
        _ => vec![],
    };
    Case {
        api,
        mode,
        kernel: if api == "gemm" { rng.pick(kernels).clone() } else { String::new() },
        variant,
        batch,
        m,
        n,
        k,
        bs,
        a_unit_log2,
        a,
        q,
        se,
        bias_kind,
        bias,
        exact_int8: int8,
    }
}

fn case_json(id: &str, c: &Case) -> Value {
    json!({
        "ev": "case", "id": id, "api": c.api, "mode": c.mode, "kernel": c.kernel, "variant": c.variant,
        "batch": c.batch, "m": c.m, "n": c.n, "k": c.k, "bs": c.bs, "kblocks": c.kblocks(),
        "a_unit_log2": c.a_unit_log2, "out_unit_log2": c.out_unit_log2(),
        "a": ints(&c.a), "q": ints(&c.q), "se": ints(&c.se),
        "bias_kind": c.bias_kind, "bias": ints(&c.bias), "exact_int8": c.exact_int8,
    })
}

fn encode(out: &[f32], unit_log2: i32) -> (Vec<i32>, usize) {
    let unit = (unit_log2 as f64).exp2();
    let mut bad = 0;
    let v = out
        .iter()
        .map(|x| {
            let y = *x as f64 / unit;
            if y.is_finite() && y.fract() == 0.0 && y.abs() < 2.0e9 {
                y as i32
            } else {
                bad += 1;
                1_000_000_007
            }
        })
        .collect();
    (v, bad)
}

fn run_api(c: &Case) -> Result<Result<Vec<f32>, String>, String> {
    guarded(|| {
        let packed = c.packed_q();
        let scales = c.scales();
        let kb = c.kblocks();
        let qv = NdTensorView::from_data([c.n, kb, c.bs / 2], packed.as_slice());
        let sv = NdTensorView::from_data([c.n, kb], scales.as_slice());
        let mat = BlockQuantizedMatrix::new(
            Contiguous::new(qv).ok_or("quant not contiguous")?,
            Contiguous::new(sv).ok_or("scales not contiguous")?,
            4,
        )
        .map_err(|e| format!("{e:?}"))?;
        let a = c.a_f32();
        let poison = f32::from_bits(0x7fc0_beef);
        let mut out: Vec<MaybeUninit<f32>> = vec![MaybeUninit::new(poison); c.batch * c.m * c.n];
        if c.api == "bqgemm" {
            let mode = if c.mode == "int8" { ComputeMode::Int8 } else { ComputeMode::Float };
            let gemm = BlockQuantizedGemm::new().with_compute(mode);
            let lhs = NdTensorView::from_data([c.batch, c.m, c.k], a.as_slice());
            gemm.batched_gemm_uninit(&mut out, lhs, mat)
                .map(|o| o.to_vec())
                .map_err(|e| format!("{e:?}"))
        } else {
            let gemm = f32_executor(&c.kernel).ok_or("kernel")?;
            let unit = (c.out_unit_log2() as f32).exp2();
            let bias_f: Vec<f32> = c.bias.iter().map(|x| *x as f32 * unit).collect();
            let bias = match c.bias_kind {
                "row" => Some(BiasVector::Row(bias_f.as_slice())),
                "col" => Some(BiasVector::Column(bias_f.as_slice())),
                _ => None,
            };
            let lhs = NdTensorView::from_data([c.m, c.k], a.as_slice());
            gemm.gemm_uninit(
                &mut out,
                GemmInputA::Unpacked(lhs),
                GemmInputB::BlockQuantized(mat),
                GemmUninitOptions {
                    alpha: 1.0,
                    bias,
                    a_quant: None,
                    b_quant: None,
                },
            )
            .map(|o| o.to_vec())
            .map_err(|e| format!("{e:?}"))
        }
    })
}

fn run_model(c: &Case) -> Result<Result<(Vec<usize>, Vec<f32>), String>, String> {
    guarded(|| {
        let kb = c.kblocks();
        let mut g = Graph::default();
        // k_mismatch: the activation has K + 8 columns (K is not blocks * block_size)
        let ak = if c.variant == "k_mismatch" { c.k + 8 } else { c.k };
        let a_shape: Vec<usize> = if c.batch == 1 { vec![c.m, ak] } else { vec![c.batch, c.m, ak] };
        g.inputs.push(ValueInfo::fixed(
            "A",
            onnx::FLOAT,
            &a_shape.iter().map(|x| *x as i64).collect::<Vec<_>>(),
        ));
        g.initializers.push(onnx::Tensor {
            name: "B".into(),
            dims: vec![c.n as i64, kb as i64, (c.bs / 2) as i64],
            data: TensorData::U8(c.packed_q()),
        });
        g.initializers.push(onnx::Tensor {
            name: "scales".into(),
            dims: if c.variant == "scales_1d" {
                vec![(c.n * kb) as i64]
            } else {
                vec![c.n as i64, kb as i64]
            },
            data: TensorData::F32(c.scales()),
        });
        let mut ins = vec!["A", "B", "scales"];
        if c.variant == "zero_points" {
            g.initializers.push(onnx::Tensor {
                name: "zp".into(),
                dims: vec![c.n as i64, ((kb + 1) / 2) as i64],
                data: TensorData::U8(vec![0x88; c.n * ((kb + 1) / 2)]),
            });
            ins.push("zp");
        }
        g.nodes.push(
            Node::new("MatMulNBits", &ins, &["Y"])
                .domain("com.microsoft")
                .attr("K", Attr::Int(ak as i64))
                .attr("N", Attr::Int(c.n as i64))
                .attr("bits", Attr::Int(4))
                .attr("block_size", Attr::Int(c.bs as i64))
                .attr("accuracy_level", Attr::Int(if c.mode == "int8" { 4 } else { 1 })),
        );
        g.outputs.push(ValueInfo::new("Y", onnx::FLOAT, None));
        let mut a = c.a_f32();
        if c.variant == "k_mismatch" {
            // pad every row with 8 zeros
            let mut padded = Vec::new();
            for r in 0..c.batch * c.m {
                padded.extend_from_slice(&a[r * c.k..(r + 1) * c.k]);
                padded.extend_from_slice(&[0.0; 8]);
            }
            a = padded;
        }
        let model = Model::load(g.to_model()).map_err(|e| format!("load: {e}"))?;
        let input: RValue = Tensor::<f32>::from_data(a_shape.as_slice(), a).into();
        let ins: Vec<(rten::NodeId, ValueOrView)> =
            vec![(model.node_id("A").map_err(|e| format!("{e}"))?, input.into())];
        let outs = [model.node_id("Y").map_err(|e| format!("{e}"))?];
        let mut r = model.run(ins, &outs, None).map_err(|e| format!("run: {e}"))?;
        match r.remove(0) {
            RValue::FloatTensor(t) => Ok((t.shape().to_vec(), t.iter().copied().collect())),
            _ => Err("output is not a float tensor".to_string()),
        }
    })
}

pub fn main_bq() {
    let out = arg_or("--out", "-");
    let ncases = arg_usize("--cases", 100);
    let only = arg("--only-id");
    vcommon::quiet_panics();
    let mut tr = Trace::create(&out);
    let kernels = f32_kernel_names();
    tr.emit(json!({"ev": "info", "kernels": kernels, "threads": rayon::current_num_threads(),
                   "int8_optimized": BlockQuantizedGemm::is_compute_optimized(ComputeMode::Int8)}));
    for idx in 0..ncases {
        let id = format!("bq:{idx}");
        if let Some(o) = &only {
            if *o != id {
                continue;
            }
        }
        let c = gen_case(idx, &kernels);
        tr.emit(case_json(&id, &c));
        tr.flush();
        let unit = c.out_unit_log2();
        let (outcome, err, shape, data, bad): (&str, String, Vec<usize>, Vec<i32>, usize) = if c.api == "model" {
            match run_model(&c) {
                Ok(Ok((shape, v))) => {
                    let (d, bad) = encode(&v, unit);
                    ("ok", String::new(), shape, d, bad)
                }
                Ok(Err(e)) => ("err", e.chars().take(200).collect(), vec![], vec![], 0),
                Err(p) => ("panic", p.chars().take(200).collect(), vec![], vec![], 0),
            }
        } else {
            match run_api(&c) {
                Ok(Ok(v)) => {
                    let (d, bad) = encode(&v, unit);
                    let shape = if c.api == "gemm" { vec![c.m, c.n] } else { vec![c.batch, c.m, c.n] };
                    ("ok", String::new(), shape, d, bad)
                }
                Ok(Err(e)) => ("err", e.chars().take(200).collect(), vec![], vec![], 0),
                Err(p) => ("panic", p.chars().take(200).collect(), vec![], vec![], 0),
            }
        };
        let shape_v: Vec<Value> = shape.iter().map(|x| json!(*x)).collect();
        tr.emit(json!({"ev": "ret", "id": id, "outcome": outcome, "err": err, "shape": shape_v,
                       "out": ints(&data), "nonint": bad}));
    }
    tr.flush();
}
