fn main() {
    eprintln!("usage: vh-gen <subcommand> [options]");
    std::process::exit(2);
}
