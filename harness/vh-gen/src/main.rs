mod filt;
mod genr;
mod samp;

fn main() {
    let cmd = std::env::args().nth(1).unwrap_or_default();
    match cmd.as_str() {
        "generator" => genr::main_generator(),
        "filters" => filt::main_filters(),
        "samplers" => samp::main_samplers(),
        _ => {
            eprintln!("usage: vh-gen <generator|filters|samplers> [options]");
            std::process::exit(2);
        }
    }
}
