//! C32 engine: replay TLC-generated call histories on a real
//! `rten_generate::Generator` that drives a mock `rten_generate::model::Model`.
//!
//! The mock records every submission: the token ids, `position_ids`,
//! `cache_position`, the attention mask length and, for each KV-cache input,
//! what the tensor it was handed contains.  Every row of a KV-cache tensor the
//! mock returns stores `(token id, version, slot)`, where `version` is the
//! number of the run that returned it, so the next submission shows whether
//! the generator passed back the cache it was given last, with all rows.
//! The logits the mock returns make the arg-max token a fixed function of
//! everything the mock has seen (cache contents followed by the new ids).
//!
//! Nothing is judged here: the NDJSON trace is validated by Trace_Generator.tla.

use std::cell::RefCell;
use std::error::Error;

use rten::{Dimension, NodeId, RunOptions, Value as RValue, ValueOrView, ValueView};
use rten_generate::model::{Model, NodeInfo};
use rten_generate::{Generator, GeneratorConfig, ModelInputsConfig};
use rten_tensor::prelude::*;
use rten_tensor::{NdTensor, Tensor};
use vcommon::{Rng, Trace, Value, arg, arg_or, arg_usize, guarded, json, quiet_panics, read_json_lines};

const N_LAYERS: usize = 2;
const N_HEADS: usize = 2;
const N_CHANS: usize = 3;
const N_VOCAB: usize = 64;
/// `aux_range` is fed through `Generator::with_varying_input` (the position range
/// of the run), `konst` through `Generator::with_constant_input`.
const FIXED_INPUTS: [&str; 6] = ["input_ids", "position_ids", "cache_position", "attention_mask", "aux_range", "konst"];
const N_FIXED: usize = FIXED_INPUTS.len();
pub const KONST: i32 = 77;

#[derive(Clone, Copy, PartialEq, Debug)]
pub enum KvLayout {
    /// `[batch, seq, chans]`
    Bsc,
    /// `[batch, heads, seq, chans]`
    Bhsc,
}

#[derive(Clone, Debug)]
pub struct Variant {
    pub kv: bool,
    pub layout: KvLayout,
    /// Append to the cache tensor in place when it is owned and has capacity.
    pub reuse: bool,
    /// `GeneratorConfig::kv_cache_capacity` (0 = None).
    pub cap: usize,
    /// Configure a position-varying input (`with_varying_input`) and a constant
    /// input (`with_constant_input`) in addition to the standard inputs.
    pub extra: bool,
}

pub struct Mock {
    v: Variant,
    names: Vec<String>,
    infos: Vec<NodeInfo>,
    input_ids: Vec<NodeId>,
    runs: RefCell<u32>,
    log: RefCell<Vec<Value>>,
}

/// The token the mock "predicts" after having seen `view`.
pub fn chosen_token(view: &[i32]) -> i32 {
    let mut acc: i64 = 0;
    for (i, t) in view.iter().enumerate() {
        acc += (i as i64 + 1) * (*t as i64);
    }
    40 + (acc % 23) as i32
}

impl Mock {
    pub fn new(v: Variant) -> Mock {
        let mut names: Vec<String> = FIXED_INPUTS.iter().map(|s| s.to_string()).collect();
        let mut infos: Vec<NodeInfo> = FIXED_INPUTS
            .iter()
            .map(|n| NodeInfo::from_name_shape(n, &[]))
            .collect();
        let kv_dims: Vec<Dimension> = match v.layout {
            KvLayout::Bhsc => vec![
                Dimension::Symbolic("batch".into()),
                Dimension::Fixed(N_HEADS),
                Dimension::Symbolic("seq".into()),
                Dimension::Fixed(N_CHANS),
            ],
            KvLayout::Bsc => vec![
                Dimension::Symbolic("batch".into()),
                Dimension::Symbolic("seq".into()),
                Dimension::Fixed(N_CHANS),
            ],
        };
        if v.kv {
            for l in 0..N_LAYERS {
                for kind in ["key", "value"] {
                    let n = format!("past_key_values.{l}.{kind}");
                    infos.push(NodeInfo::from_name_shape(&n, &kv_dims));
                    names.push(n);
                }
            }
        }
        let n_inputs = names.len();
        names.push("logits".into());
        infos.push(NodeInfo::from_name_shape("logits", &[]));
        if v.kv {
            for l in 0..N_LAYERS {
                for kind in ["key", "value"] {
                    let n = format!("present.{l}.{kind}");
                    infos.push(NodeInfo::from_name_shape(&n, &kv_dims));
                    names.push(n);
                }
            }
        }
        Mock {
            v,
            names,
            infos,
            input_ids: (0..n_inputs).map(|i| NodeId::from_u32(i as u32)).collect(),
            runs: RefCell::new(0),
            log: RefCell::new(Vec::new()),
        }
    }

    fn n_slots(&self) -> usize {
        if self.v.kv { 2 * N_LAYERS } else { 0 }
    }

    fn heads(&self) -> usize {
        match self.v.layout {
            KvLayout::Bhsc => N_HEADS,
            KvLayout::Bsc => 1,
        }
    }

    pub fn take_log(&self) -> Vec<Value> {
        std::mem::take(&mut *self.log.borrow_mut())
    }

    /// Rows `[head][seq] -> [tok, ver, tag]` of a cache tensor.
    fn read_cache(&self, view: &rten_tensor::TensorView<f32>) -> Result<Vec<Vec<[f32; 3]>>, String> {
        let mut out = Vec::new();
        match (self.v.layout, view.ndim()) {
            (KvLayout::Bhsc, 4) => {
                let v4 = view.nd_view::<4>();
                let [b, h, s, c] = v4.shape();
                if b != 1 || h != N_HEADS || c != N_CHANS {
                    return Err(format!("bad cache shape {:?}", v4.shape()));
                }
                for hh in 0..h {
                    out.push((0..s).map(|ss| [v4[[0, hh, ss, 0]], v4[[0, hh, ss, 1]], v4[[0, hh, ss, 2]]]).collect());
                }
            }
            (KvLayout::Bsc, 3) => {
                let v3 = view.nd_view::<3>();
                let [b, s, c] = v3.shape();
                if b != 1 || c != N_CHANS {
                    return Err(format!("bad cache shape {:?}", v3.shape()));
                }
                out.push((0..s).map(|ss| [v3[[0, ss, 0]], v3[[0, ss, 1]], v3[[0, ss, 2]]]).collect());
            }
            (_, nd) => return Err(format!("cache has {nd} dims")),
        }
        Ok(out)
    }

    /// The cache tensor returned for `slot`: old rows followed by one row per
    /// new token, every row stamped with `ver`.
    fn present(&self, incoming: Option<ValueOrView>, old: &[Vec<[f32; 3]>], ids: &[i32], ver: u32, slot: usize) -> RValue {
        let heads = self.heads();
        let s_old = old.first().map(|r| r.len()).unwrap_or(0);
        let s_new = s_old + ids.len();
        let seq_axis = if self.v.layout == KvLayout::Bhsc { 2 } else { 1 };
        let cell = |h: usize, s: usize, c: usize| -> f32 {
            match c {
                0 => {
                    if s < s_old {
                        old[h][s][0]
                    } else {
                        ids[s - s_old] as f32
                    }
                }
                1 => ver as f32,
                _ => slot as f32,
            }
        };
        if self.v.reuse {
            if let Some(ValueOrView::Value(RValue::FloatTensor(mut t))) = incoming {
                if t.has_capacity(seq_axis, s_new) {
                    let extra: Tensor<f32> = match self.v.layout {
                        KvLayout::Bhsc => NdTensor::from_fn([1, heads, ids.len(), N_CHANS], |[_, h, s, c]| cell(h, s_old + s, c)).into_dyn(),
                        KvLayout::Bsc => NdTensor::from_fn([1, ids.len(), N_CHANS], |[_, s, c]| cell(0, s_old + s, c)).into_dyn(),
                    };
                    t.append(seq_axis, &extra).expect("capacity was checked");
                    // restamp the version of the old rows in place
                    match self.v.layout {
                        KvLayout::Bhsc => {
                            let mut m = t.nd_view_mut::<4>();
                            for h in 0..heads {
                                for s in 0..s_old {
                                    m[[0, h, s, 1]] = ver as f32;
                                }
                            }
                        }
                        KvLayout::Bsc => {
                            let mut m = t.nd_view_mut::<3>();
                            for s in 0..s_old {
                                m[[0, s, 1]] = ver as f32;
                            }
                        }
                    }
                    return RValue::FloatTensor(t);
                }
            }
        }
        let t: Tensor<f32> = match self.v.layout {
            KvLayout::Bhsc => NdTensor::from_fn([1, heads, s_new, N_CHANS], |[_, h, s, c]| cell(h, s, c)).into_dyn(),
            KvLayout::Bsc => NdTensor::from_fn([1, s_new, N_CHANS], |[_, s, c]| cell(0, s, c)).into_dyn(),
        };
        RValue::FloatTensor(t)
    }
}

fn ints(view: &ValueView) -> Result<Vec<i32>, String> {
    match view {
        ValueView::Int32Tensor(t) => Ok(t.iter().copied().collect()),
        _ => Err("expected an int32 tensor".into()),
    }
}

fn sorted_distinct(mut v: Vec<i64>) -> Vec<i64> {
    v.sort();
    v.dedup();
    v
}

impl Model for Mock {
    fn find_node(&self, name: &str) -> Option<NodeId> {
        self.names.iter().position(|n| n == name).map(|p| NodeId::from_u32(p as u32))
    }

    fn node_info(&self, id: NodeId) -> Option<NodeInfo> {
        self.infos.get(id.as_usize()).cloned()
    }

    fn input_ids(&self) -> &[NodeId] {
        &self.input_ids
    }

    fn run(&self, inputs: Vec<(NodeId, ValueOrView)>, outputs: &[NodeId], _opts: Option<RunOptions>) -> Result<Vec<RValue>, Box<dyn Error>> {
        let n_slots = self.n_slots();
        let mut ids: Option<Vec<i32>> = None;
        let mut pos: Vec<i32> = Vec::new();
        let mut cpos: Vec<i32> = Vec::new();
        let mut mask: Vec<i32> = Vec::new();
        let mut aux: Vec<i32> = Vec::new();
        let mut konst: i64 = -1;
        let mut caches: Vec<Option<ValueOrView>> = (0..n_slots).map(|_| None).collect();
        for (id, v) in inputs {
            let i = id.as_usize();
            if i >= self.input_ids.len() {
                return Err(format!("invalid input id {i}").into());
            }
            match i {
                0 => ids = Some(ints(&v.as_view())?),
                1 => pos = ints(&v.as_view())?,
                2 => cpos = ints(&v.as_view())?,
                3 => mask = ints(&v.as_view())?,
                4 => aux = ints(&v.as_view())?,
                5 => konst = ints(&v.as_view())?.first().copied().unwrap_or(-2) as i64,
                _ => caches[i - N_FIXED] = Some(v),
            }
        }
        let ids = ids.ok_or("input_ids missing")?;
        let ver = {
            let mut r = self.runs.borrow_mut();
            *r += 1;
            *r
        };

        // what the KV-cache inputs hold, logged without redundancy: the length of
        // each, the distinct token rows found in any head of any cache, the distinct
        // version stamps, and the distinct (cache number, slot stamp) pairs
        let mut lens: Vec<i64> = Vec::new();
        let mut tok_rows: Vec<Vec<i64>> = Vec::new();
        let mut vers: Vec<i64> = Vec::new();
        let mut tags: Vec<Vec<i64>> = Vec::new();
        let mut rows: Vec<Vec<Vec<[f32; 3]>>> = Vec::new();
        for (slot, c) in caches.iter().enumerate() {
            match c {
                Some(c) => {
                    let view = match c.as_view() {
                        ValueView::FloatTensor(t) => t,
                        _ => return Err("cache is not a float tensor".into()),
                    };
                    let r = self.read_cache(&view)?;
                    lens.push(r[0].len() as i64);
                    for h in r.iter() {
                        let row: Vec<i64> = h.iter().map(|x| x[0] as i64).collect();
                        if !tok_rows.contains(&row) {
                            tok_rows.push(row);
                        }
                        for x in h.iter() {
                            vers.push(x[1] as i64);
                            let pair = vec![slot as i64, x[2] as i64];
                            if !tags.contains(&pair) {
                                tags.push(pair);
                            }
                        }
                    }
                    rows.push(r);
                }
                None => {
                    // cache input not provided at all
                    lens.push(-1);
                    rows.push((0..self.heads()).map(|_| Vec::new()).collect());
                }
            }
        }
        let vers = sorted_distinct(vers);
        let kv_in = json!({"lens": lens, "rows": tok_rows, "vers": vers, "tags": tags});

        // the mock's view of the conversation and the token it predicts
        let mut view: Vec<i32> = if n_slots > 0 { rows[0][0].iter().map(|x| x[0] as i32).collect() } else { Vec::new() };
        let base = view.len();
        view.extend(&ids);
        let want_logits = outputs.iter().any(|o| o.as_usize() == self.input_ids.len());
        let chosen: i64 = if ids.is_empty() { -1 } else { chosen_token(&view) as i64 };

        // mask: its length if it is all ones, else -1
        let mask_len: i64 = if mask.iter().all(|m| *m == 1) { mask.len() as i64 } else { -1 };
        self.log.borrow_mut().push(json!({
            "ids": ids, "pos": pos, "cpos": cpos, "mask": mask_len, "aux": aux, "konst": konst,
            "kv_in": kv_in, "logits": want_logits, "chosen": chosen,
        }));

        let mut result = Vec::new();
        for o in outputs {
            let oi = o.as_usize();
            if oi == self.input_ids.len() {
                let mut logits = NdTensor::<f32, 3>::zeros([1, ids.len(), N_VOCAB]);
                for j in 0..ids.len() {
                    let t = chosen_token(&view[..base + j + 1]) as usize;
                    logits[[0, j, t]] = 1.0;
                }
                result.push(RValue::FloatTensor(logits.into_dyn()));
            } else if oi > self.input_ids.len() && oi <= self.input_ids.len() + n_slots {
                let slot = oi - self.input_ids.len() - 1;
                let incoming = caches[slot].take();
                result.push(self.present(incoming, &rows[slot], &ids, ver, slot));
            } else {
                return Err(format!("invalid output id {oi}").into());
            }
        }
        Ok(result)
    }

    /// Nothing can be evaluated from constant inputs alone: the leaves of the
    /// partial evaluation are the given inputs themselves.
    fn partial_run(&self, inputs: Vec<(NodeId, ValueOrView)>, _outputs: &[NodeId], _opts: Option<RunOptions>) -> Result<Vec<(NodeId, RValue)>, Box<dyn Error>> {
        Ok(inputs.into_iter().map(|(id, v)| (id, v.to_owned())).collect())
    }
}

fn variant_json(v: &Variant) -> Value {
    json!({"layout": if v.layout == KvLayout::Bhsc { "bhsc" } else { "bsc" }, "reuse": v.reuse, "cap": v.cap, "extra": v.extra})
}

fn variant_from(kv: bool, j: &Value) -> Variant {
    Variant {
        kv,
        layout: if j["layout"] == "bhsc" { KvLayout::Bhsc } else { KvLayout::Bsc },
        reuse: j["reuse"].as_bool().unwrap_or(false),
        cap: j["cap"].as_u64().unwrap_or(0) as usize,
        extra: j["extra"].as_bool().unwrap_or(false),
    }
}

fn toks_of(j: &Value) -> Vec<u32> {
    j.as_array().map(|a| a.iter().map(|x| x.as_u64().unwrap() as u32).collect()).unwrap_or_default()
}

/// Value of the `aux_range` input: the position range of the run.
fn aux_fn<'a>(_batch: usize, r: std::ops::Range<usize>) -> ValueOrView<'a> {
    NdTensor::from([r.start as i32, r.end as i32]).into()
}

/// Replay one history on a fresh generator.  A `case` record is written, then
/// one `op` record per call from call number `keep` on: the first `keep` calls
/// are the same as in the previous case of this pass (same model variant) and
/// were recorded and judged there; the trace spec restores the contract state
/// it saved after them.  Returns the number of calls that completed "ok" and
/// may therefore be shared with the next case.
pub fn run_case(trace: &mut Trace, v: &Variant, ops: &[Value], keep: usize) -> usize {
    trace.emit(json!({"ev": "case", "kv": v.kv, "variant": variant_json(v), "ops": ops, "keep": keep,
                      "slots": if v.kv { 2 * N_LAYERS } else { 0 }, "heads": if v.layout == KvLayout::Bhsc { N_HEADS } else { 1 }}));
    let konst = NdTensor::from([KONST]);
    let mock = Mock::new(v.clone());
    let config = GeneratorConfig {
        model_inputs: ModelInputsConfig::default(),
        kv_cache_capacity: if v.cap > 0 { Some(v.cap) } else { None },
    };
    let mut generator: Option<Generator> = match Generator::from_model_config(&mock, config) {
        Ok(g) => Some(g),
        Err(e) => {
            eprintln!("mock rejected by Generator::from_model_config: {e}");
            std::process::exit(2);
        }
    };
    if v.extra {
        let g = generator.take().unwrap();
        let g = g
            .with_varying_input(mock.find_node("aux_range").unwrap(), &aux_fn)
            .with_constant_input(mock.find_node("konst").unwrap(), konst.view().into());
        generator = Some(g);
    }
    let mut ok_calls = 0;
    for (index, op) in ops.iter().enumerate() {
        let name = op["op"].as_str().unwrap_or("");
        let toks = toks_of(&op["toks"]);
        let nothing_pending = generator.as_ref().map(|g| g.prompt().is_empty()).unwrap_or(true);
        let mut ret: i64 = -1;
        let outcome = guarded(|| -> &'static str {
            match name {
                "with_prompt" => {
                    let g = generator.take().unwrap();
                    generator = Some(g.with_prompt(&toks));
                    "ok"
                }
                "append" => {
                    generator.as_mut().unwrap().append_prompt(&toks);
                    "ok"
                }
                "clear" => {
                    generator.as_mut().unwrap().clear_prompt();
                    "ok"
                }
                "process" => match generator.as_mut().unwrap().process_prompt() {
                    Ok(()) => "ok",
                    Err(_) => "err",
                },
                "next" => match generator.as_mut().unwrap().next() {
                    Some(Ok(t)) => {
                        ret = t as i64;
                        "ok"
                    }
                    Some(Err(_)) => "err",
                    None => "none",
                },
                _ => {
                    eprintln!("unknown op {name}");
                    std::process::exit(2);
                }
            }
        });
        let outcome = match outcome {
            Ok(o) => o,
            Err(_) => "panic",
        };
        let runs = mock.take_log();
        let (prompt, prev, kvlen): (Vec<u32>, Vec<u32>, i64) = match generator.as_ref() {
            Some(g) if outcome != "panic" => (
                g.prompt().to_vec(),
                g.prev_tokens().to_vec(),
                g.kv_cache_len().map(|x| x as i64).unwrap_or(-1),
            ),
            _ => (Vec::new(), Vec::new(), -1),
        };
        if index >= keep {
            trace.emit(json!({"ev": "op", "op": name, "toks": toks, "outcome": outcome, "ret": ret,
                              "runs": runs, "prompt": prompt, "prev": prev, "kvlen": kvlen}));
        }
        // the contract leaves next() with nothing pending open: the history ends there
        if outcome != "ok" || (name == "next" && nothing_pending) {
            break;
        }
        ok_calls += 1;
    }
    ok_calls
}

/// The model variants: cache layout x in-place/fresh cache tensors x
/// kv_cache_capacity x extra inputs.
fn variant_no(kv: bool, n: usize) -> Variant {
    if !kv {
        // no cache tensors: the cache-related knobs are meaningless
        return Variant { kv, layout: KvLayout::Bsc, reuse: false, cap: 0, extra: n % 2 == 1 };
    }
    let caps = [0usize, 4, 16];
    Variant {
        kv,
        layout: if n % 2 == 0 { KvLayout::Bhsc } else { KvLayout::Bsc },
        reuse: (n / 2) % 2 == 1,
        cap: caps[(n / 4) % 3],
        extra: (n / 3) % 2 == 1,
    }
}

fn op_key(ops: &[Value]) -> Vec<(String, Vec<u32>)> {
    ops.iter().map(|o| (o["op"].as_str().unwrap_or("").to_string(), toks_of(&o["toks"]))).collect()
}

/// `vh-gen generator --hist <jsonl> --out <ndjson> [--variants N] [--salt S] [--only-case <json>]`
///
/// The histories are replayed in lexicographic order, once per model variant
/// ("pass"), so that consecutive cases share their longest common prefix.
pub fn main_generator() {
    quiet_panics();
    let out = arg_or("--out", "-");
    let mut trace = Trace::create(&out);
    if let Some(c) = arg("--only-case") {
        let c: Value = serde_json::from_str(&c).expect("bad --only-case json");
        let kv = c["kv"].as_bool().unwrap_or(false);
        let v = variant_from(kv, &c["variant"]);
        run_case(&mut trace, &v, c["ops"].as_array().expect("ops"), 0);
        return;
    }
    let hist = arg("--hist").expect("--hist <file>");
    let nvar = arg_usize("--variants", 2);
    // the seed and `--salt n` (chunk number) choose which variants this chunk uses
    let mut rng = Rng::new(vcommon::seed_from_env().wrapping_add(0x51ed_270b * arg_usize("--salt", 0) as u64));
    let first_variant = rng.below(12);
    let mut all: Vec<(bool, Vec<Value>)> = read_json_lines(&hist)
        .into_iter()
        .map(|h| (h["kv"].as_bool().unwrap_or(false), h["ops"].as_array().expect("ops").clone()))
        .collect();
    all.sort_by_key(|(kv, ops)| (*kv, op_key(ops)));
    for kv in [false, true] {
        let passes = if kv { nvar } else { 1 };
        for pass in 0..passes {
            // consecutive variant numbers differ in layout, reuse and (every third) extra inputs
            let v = variant_no(kv, first_variant + pass * 7);
            let mut prev_key: Vec<(String, Vec<u32>)> = Vec::new();
            let mut prev_ok = 0usize;
            for (_, ops) in all.iter().filter(|(k, _)| *k == kv) {
                let key = op_key(ops);
                let common = key.iter().zip(prev_key.iter()).take_while(|(a, b)| a == b).count();
                // never skip the whole history: its last call is always recorded again
                let keep = common.min(prev_ok).min(ops.len().saturating_sub(1));
                prev_ok = run_case(&mut trace, &v, ops, keep);
                prev_key = key;
            }
        }
    }
}
