//! C33 engine: drive the rten-generate samplers (ArgMax, Multinomial) over
//! TLC-generated and seeded score vectors and record what they returned:
//! the first rounds of two samplers created with the same seed as sequences,
//! and the ids returned over many further draws as (id, count) tables.
//! Nothing is judged here: Trace_Samplers.tla evaluates the contracts.

use std::collections::BTreeMap;

use rten_generate::Logits;
use rten_generate::sampler::{ArgMax, Multinomial, Sampler};
use vcommon::{Rng, Trace, Value, arg, arg_or, arg_usize, guarded, json, quiet_panics, read_json_lines};

use crate::filt::{from_key, key_of};

#[derive(Clone)]
pub struct Vector {
    pub ids: Vec<u32>,
    pub vals: Vec<f32>,
}

impl Vector {
    fn json(&self) -> Value {
        json!({"ids": self.ids, "key": self.vals.iter().map(|x| key_of(*x)).collect::<Vec<i32>>()})
    }
    fn logits(&self, dense: bool) -> Logits {
        if dense { Logits::dense(self.vals.clone()) } else { Logits::sparse(self.vals.clone(), self.ids.clone()) }
    }
}

pub struct CaseSpec {
    pub sampler: String,
    pub src: String,
    pub dense: bool,
    pub seed: u64,
    pub vs: Vec<Vector>,
    /// rounds over `vs` recorded as sequences for two same-seed samplers
    pub rounds: usize,
    /// further draws per vector, recorded as tables
    pub draws: usize,
}

fn make_sampler(name: &str, seed: u64) -> Box<dyn Sampler> {
    match name {
        "argmax" => Box::new(ArgMax::new()),
        "multinomial" => Box::new(Multinomial::with_seed(seed)),
        other => {
            eprintln!("unknown sampler {other}");
            std::process::exit(2);
        }
    }
}

pub fn run_case(trace: &mut Trace, c: &CaseSpec) {
    trace.emit(json!({"ev": "case", "sampler": c.sampler, "src": c.src, "dense": c.dense, "seed": c.seed,
                      "vs": c.vs.iter().map(|v| v.json()).collect::<Vec<_>>(), "rounds": c.rounds, "draws": c.draws, "useeds": []}));
    let inputs: Vec<Logits> = c.vs.iter().map(|v| v.logits(c.dense)).collect();
    let a = make_sampler(&c.sampler, c.seed);
    let b = make_sampler(&c.sampler, c.seed);
    // same seed, same sequence of inputs
    let r = guarded(|| {
        let mut sa: Vec<u32> = Vec::new();
        let mut sb: Vec<u32> = Vec::new();
        for _ in 0..c.rounds {
            for l in &inputs {
                sa.push(a.sample(l));
            }
        }
        for _ in 0..c.rounds {
            for l in &inputs {
                sb.push(b.sample(l));
            }
        }
        (sa, sb)
    });
    match r {
        Ok((sa, sb)) => trace.emit(json!({"ev": "seq", "outcome": "ok", "a": sa, "b": sb})),
        Err(_) => {
            trace.emit(json!({"ev": "seq", "outcome": "panic", "a": [], "b": []}));
            return;
        }
    }
    // many further draws from sampler a, one table per input vector
    for (i, l) in inputs.iter().enumerate() {
        let r = guarded(|| {
            let mut table: BTreeMap<u32, u64> = BTreeMap::new();
            for _ in 0..c.draws {
                *table.entry(a.sample(l)).or_insert(0) += 1;
            }
            table
        });
        match r {
            Ok(t) => trace.emit(json!({"ev": "pick", "i": i + 1, "outcome": "ok", "total": c.draws,
                                       "ids": t.keys().collect::<Vec<_>>(), "counts": t.values().collect::<Vec<_>>()})),
            Err(_) => {
                trace.emit(json!({"ev": "pick", "i": i + 1, "outcome": "panic", "total": 0, "ids": [], "counts": []}));
                return;
            }
        }
    }
}

// ------------------------------------------------- controlled draws (C33 b)

/// First uniform draw of `Multinomial::with_seed(seed)`: the sampler calls
/// `rng.f32()` once per sample on a `fastrand::Rng::with_seed(seed)`.
pub fn first_draw(seed: u64) -> f32 {
    fastrand::Rng::with_seed(seed).f32()
}

/// Scan seeds 0..n and keep those whose first draw is extreme (the `hi` largest:
/// they land in the rounding gap above the f32 sum of the probabilities
/// whenever there is one; the `lo` smallest) plus a spread of ordinary ones.
pub fn scan_seeds(n: u64, hi: usize, lo: usize, ordinary: usize) -> Vec<u64> {
    let mut all: Vec<(u32, u64)> = (0..n).map(|s| (first_draw(s).to_bits(), s)).collect();
    let step = (n as usize / ordinary.max(1)).max(1);
    let mut out: Vec<u64> = (0..ordinary).map(|i| (i * step) as u64 + 1).collect();
    all.sort();
    out.extend(all.iter().take(lo).map(|x| x.1));
    out.extend(all.iter().rev().take(hi).map(|x| x.1));
    out
}

/// One draw from a fresh `Multinomial::with_seed(seed)` for every seed.
pub fn run_sized_case(trace: &mut Trace, src: &str, dense: bool, v: &Vector, seeds: &[u64]) {
    trace.emit(json!({"ev": "case", "sampler": "multinomial", "src": src, "dense": dense, "seed": 0,
                      "vs": [v.json()], "rounds": 0, "draws": seeds.len(), "useeds": seeds}));
    let input = v.logits(dense);
    let r = guarded(|| seeds.iter().map(|s| Multinomial::with_seed(*s).sample(&input)).collect::<Vec<u32>>());
    let ubits: Vec<i32> = seeds.iter().map(|s| first_draw(*s).to_bits() as i32).collect();
    match r {
        Ok(ids) => trace.emit(json!({"ev": "udraw", "i": 1, "outcome": "ok", "ubits": ubits, "ids": ids})),
        Err(_) => trace.emit(json!({"ev": "udraw", "i": 1, "outcome": "panic", "ubits": ubits, "ids": []})),
    }
}

/// Candidate sets of sizes around every plausible block / vector width with
/// zero-probability (-inf) candidates first, in the middle and as a tail.
fn sized(trace: &mut Trace, thorough: bool) {
    let mut rng = Rng::new(vcommon::seed_from_env() ^ 0x5151);
    let seeds = scan_seeds(if thorough { 1 << 24 } else { 1 << 22 }, if thorough { 48 } else { 24 }, 6, 6);
    let small = [15usize, 16, 17, 31, 32, 33, 255, 256, 257];
    let big: &[usize] = if thorough { &[4096, 65528, 65536] } else { &[4096, 65528] };
    let ninf = f32::NEG_INFINITY;
    let mut emit = |n: usize, pat: usize, tail: usize, head: usize, mid: usize, dense: bool, rng: &mut Rng| {
        let base = rng.range(-5, 5) as f32;
        let mut vals: Vec<f32> = (0..n)
            .map(|_| match pat {
                0 => base,                                              // equal probabilities
                1 => base + (rng.next_u64() % 1000) as f32 * 1e-4,      // nearly equal
                2 => rng.range(-20, 20) as f32,                         // spread
                3 => rng.range(-100, 80) as f32,                        // huge spread: denormal / zero probabilities
                _ => base + rng.range(0, 2) as f32 * 0.5,               // ties
            })
            .collect();
        for x in vals.iter_mut().take(head) {
            *x = ninf;
        }
        for i in 0..mid {
            let j = n / 2 + i;
            if j < n {
                vals[j] = ninf;
            }
        }
        for i in 0..tail.min(n.saturating_sub(1)) {
            vals[n - 1 - i] = ninf;
        }
        if vals.iter().all(|x| *x == ninf) {
            vals[n / 3] = base;
        }
        let ids: Vec<u32> = if dense { (0..n as u32).collect() } else { (0..n as u32).map(|i| 3 * i + 2).collect() };
        run_sized_case(trace, "sized", dense, &Vector { ids, vals }, &seeds);
    };
    for &n in small.iter() {
        for tail in 0..=20usize {
            let pat = (tail + n) % 5;
            emit(n, pat, tail, 0, 0, tail % 2 == 0, &mut rng);
        }
        for pat in 0..5 {
            emit(n, pat, 0, 1 + pat, 0, pat % 2 == 0, &mut rng);
            emit(n, pat, 3, 0, 1 + 4 * pat, pat % 2 == 1, &mut rng);
        }
    }
    for &n in big {
        let tails: &[usize] = if n == 4096 { &[0, 1, 5, 15, 16, 17, 20] } else { &[0, 3, 17] };
        for (j, &tail) in tails.iter().enumerate() {
            let pats: &[usize] = if n == 4096 || thorough { &[0, 1, 2] } else { &[0, 1] };
            for &pat in pats {
                emit(n, pat, tail, if j % 2 == 1 { 2 } else { 0 }, if j % 3 == 2 { 9 } else { 0 }, (j + pat) % 2 == 0, &mut rng);
            }
        }
    }
}

fn ids_for(rng: &mut Rng, n: usize, dense: bool) -> Vec<u32> {
    if dense {
        return (0..n as u32).collect();
    }
    let mut ids: Vec<u32> = Vec::with_capacity(n);
    let mut next = rng.below(4) as u32;
    for _ in 0..n {
        ids.push(next);
        next += 1 + rng.below(3) as u32;
    }
    if rng.chance(1, 3) {
        ids.reverse();
    }
    ids
}

/// Scores in the property's domain: finite values and -inf entries (also first), ties, single candidates.
fn random_scores(rng: &mut Rng, n: usize, need_finite: bool) -> Vec<f32> {
    let mode = rng.below(6);
    let ninf_rate = *rng.pick(&[0usize, 0, 2, 5, 8]);
    let base = rng.range(-40, 40) as f32;
    let mut v: Vec<f32> = (0..n)
        .map(|_| {
            if rng.below(10) < ninf_rate {
                return f32::NEG_INFINITY;
            }
            match mode {
                0 => base,                                             // all tied
                1 => base + rng.range(0, 3) as f32 * 0.5,              // heavy ties
                2 => rng.range(-20, 20) as f32,
                3 => (rng.next_u64() % 100_000) as f32 / 997.0 - 50.0,
                4 => base + (rng.next_u64() % 1000) as f32 * 1e-4,     // nearly equal
                _ => {
                    if rng.chance(1, 8) { -0.0 } else { rng.range(-300, 300) as f32 * 0.25 }
                }
            }
        })
        .collect();
    if n > 0 && rng.chance(1, 3) {
        v[0] = f32::NEG_INFINITY; // masked first token
    }
    if need_finite && n > 0 && v.iter().all(|x| *x == f32::NEG_INFINITY) {
        let i = rng.below(n);
        v[i] = base;
    }
    v
}

fn seeded(trace: &mut Trace, count: usize, draws: usize) {
    let mut rng = Rng::new(vcommon::seed_from_env().wrapping_add(0x51ed_270b * arg_usize("--salt", 0) as u64));
    for c in 0..count {
        let sampler = if c % 4 == 0 { "argmax" } else { "multinomial" };
        let dense = rng.chance(1, 2);
        let nvec = if sampler == "argmax" { 1 } else { 1 + rng.below(3) };
        let big = sampler == "multinomial" && c % 8 == 1;
        let vs: Vec<Vector> = (0..nvec)
            .map(|_| {
                let n = if big {
                    // vocabulary-sized inputs: f32 rounding of the softmax sum becomes visible
                    1000 + rng.below(6000)
                } else {
                    match rng.below(8) {
                        0 => 1,
                        1 => 2,
                        _ => 1 + rng.below(48),
                    }
                };
                Vector { ids: ids_for(&mut rng, n, dense), vals: random_scores(&mut rng, n, sampler == "multinomial") }
            })
            .collect();
        let spec = CaseSpec {
            sampler: sampler.into(),
            src: "seeded".into(),
            dense,
            seed: rng.next_u64() % 1_000_000,
            vs,
            rounds: if sampler == "argmax" { 1 } else { 16 },
            draws: if sampler == "argmax" { 1 } else if big { draws * 20 } else { draws },
        };
        run_case(trace, &spec);
    }
}

fn vector_from(j: &Value) -> Vector {
    Vector {
        ids: j["ids"].as_array().unwrap().iter().map(|x| x.as_u64().unwrap() as u32).collect(),
        vals: j["key"].as_array().unwrap().iter().map(|x| from_key(x.as_i64().unwrap() as i32)).collect(),
    }
}

/// `vh-gen samplers --out <ndjson> [--vectors <jsonl>] [--seeded N] [--draws D] [--only-case <json>]`
pub fn main_samplers() {
    quiet_panics();
    let mut trace = Trace::create(&arg_or("--out", "-"));
    let draws = arg_usize("--draws", 10_000);
    // a case can be too long for an argument (vocabulary-sized vectors): also accept a file
    let only = arg("--only-case").or_else(|| arg("--only-case-file").map(|p| std::fs::read_to_string(p).expect("case file")));
    if let Some(c) = only {
        let c: Value = serde_json::from_str(&c).expect("bad --only-case json");
        let spec = CaseSpec {
            sampler: c["sampler"].as_str().unwrap().into(),
            src: "replay".into(),
            dense: c["dense"].as_bool().unwrap_or(false),
            seed: c["seed"].as_u64().unwrap_or(0),
            vs: c["vs"].as_array().unwrap().iter().map(vector_from).collect(),
            rounds: c["rounds"].as_u64().unwrap_or(1) as usize,
            draws: c["draws"].as_u64().unwrap_or(1) as usize,
        };
        let useeds: Vec<u64> = c["useeds"].as_array().map(|a| a.iter().map(|x| x.as_u64().unwrap()).collect()).unwrap_or_default();
        if useeds.is_empty() {
            run_case(&mut trace, &spec);
        } else {
            run_sized_case(&mut trace, "replay", spec.dense, &spec.vs[0], &useeds);
        }
        return;
    }
    if let Some(path) = arg("--vectors") {
        for (n, v) in read_json_lines(&path).iter().enumerate() {
            let vals: Vec<f32> = v["key"].as_array().unwrap().iter().map(|x| from_key(x.as_i64().unwrap() as i32)).collect();
            let sampler = v["sampler"].as_str().unwrap().to_string();
            let multi = sampler == "multinomial";
            for dense in [true, false] {
                let ids: Vec<u32> = if dense { (0..vals.len() as u32).collect() } else { (0..vals.len() as u32).map(|i| 2 * i + 1).collect() };
                let spec = CaseSpec {
                    sampler: sampler.clone(),
                    src: "tlc".into(),
                    dense,
                    seed: 1 + n as u64,
                    vs: vec![Vector { ids, vals: vals.clone() }],
                    rounds: if multi { 8 } else { 1 },
                    draws: if multi { draws / 10 } else { 1 },
                };
                run_case(&mut trace, &spec);
            }
        }
    }
    let n = arg_usize("--seeded", 0);
    if n > 0 {
        seeded(&mut trace, n, draws);
    }
    if let Some(t) = arg("--sized") {
        sized(&mut trace, t == "thorough");
    }
}
