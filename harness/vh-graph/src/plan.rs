//! C03 engine: build the TLC-generated graphs with real `rten` `Graph`s
//! (through the `rten::verif` hook), ask the real planner for plans for every
//! request, and record the answers.

use rten::verif::{Graph, NodeId, PlanOptions};
use vcommon::{Rng, Trace, Value, guarded, json};

use crate::synth::{Dummy, arc_op, capture_only_subgraph};

pub struct BuiltGraph {
    pub graph: Graph,
    /// JSON id (1-based) -> NodeId
    pub ids: Vec<NodeId>,
    pub nv: usize,
    pub nc: usize,
    pub nops: usize,
    /// GraphLib record of the graph
    pub desc: Value,
}

/// Build a real graph from the generator's description
/// `{nv, nc, ops:[{ins,outs,caps,inplace}], captured}`.
pub fn build_graph(g: &Value) -> BuiltGraph {
    let nv = g["nv"].as_u64().unwrap() as usize;
    let nc = g["nc"].as_u64().unwrap() as usize;
    let ops = g["ops"].as_array().unwrap();
    let mut graph = Graph::new();
    let mut ids = Vec::new();
    let mut kind = Vec::new();
    for i in 0..nv {
        ids.push(graph.add_value(Some(&format!("v{}", i + 1)), None, None));
        kind.push("value");
    }
    for i in 0..nc {
        let t = rten_tensor::Tensor::<i32>::from_data(&[1], vec![i as i32 + 1]).into_arc();
        ids.push(graph.add_constant(Some(&format!("c{}", i + 1)), t));
        kind.push("const");
    }
    let to_id = |v: &Value| -> Option<NodeId> {
        let j = v.as_u64().unwrap() as usize;
        if j == 0 { None } else { Some(ids[j - 1]) }
    };
    let mut op_ids = Vec::new();
    let mut ins_desc: Vec<Value> = vec![json!([]); nv + nc];
    let mut outs_desc: Vec<Value> = vec![json!([]); nv + nc];
    let mut caps_desc: Vec<Value> = vec![json!([]); nv + nc];
    for (k, op) in ops.iter().enumerate() {
        let ins: Vec<Option<NodeId>> = op["ins"].as_array().unwrap().iter().map(to_id).collect();
        let outs: Vec<Option<NodeId>> = op["outs"].as_array().unwrap().iter().map(to_id).collect();
        let caps: Vec<String> = op["caps"]
            .as_array()
            .unwrap()
            .iter()
            .map(|c| format!("v{}", c.as_u64().unwrap()))
            .collect();
        let subgraph = if caps.is_empty() {
            None
        } else {
            Some(capture_only_subgraph(&caps))
        };
        let dummy = Dummy {
            in_place: op["inplace"].as_bool().unwrap(),
            subgraph,
            n_outputs: outs.len(),
        };
        let id = graph.add_op(Some(&format!("op{}", k + 1)), arc_op(dummy), &ins, &outs);
        op_ids.push(id);
        kind.push("op");
        ins_desc.push(op["ins"].clone());
        outs_desc.push(op["outs"].clone());
        caps_desc.push(op["caps"].clone());
    }
    let captured: Vec<NodeId> = g["captured"]
        .as_array()
        .unwrap()
        .iter()
        .map(|c| ids[c.as_u64().unwrap() as usize - 1])
        .collect();
    graph.set_captures(&captured);
    let mut all_ids = ids.clone();
    all_ids.extend(op_ids);
    let desc = json!({"kind": kind, "ins": ins_desc, "outs": outs_desc, "caps": caps_desc,
                      "captured": g["captured"]});
    BuiltGraph {
        graph,
        ids: all_ids,
        nv,
        nc,
        nops: ops.len(),
        desc,
    }
}

#[derive(Clone, Debug)]
pub struct Request {
    pub ins: Vec<usize>,
    pub outs: Vec<usize>,
    pub allow_missing: bool,
    pub caps_avail: bool,
    pub class: &'static str,
}

fn subsets(n: usize) -> Vec<Vec<usize>> {
    (0..(1usize << n))
        .map(|m| (0..n).filter(|i| m >> i & 1 == 1).map(|i| i + 1).collect())
        .collect()
}

/// All requests for a graph: every (input subset, non-empty output subset in
/// ascending and descending order) x options, plus the malformed classes.
pub fn requests(bg: &BuiltGraph, sample: usize, rng: &mut Rng) -> Vec<Request> {
    let nvals = bg.nv + bg.nc;
    let mut out = Vec::new();
    let mut wf = Vec::new();
    let npairs = (1usize << nvals) * ((1usize << nvals) - 1);
    if sample > 0 && npairs > sample {
        // Draw `sample` random (input subset, non-empty output sequence) pairs.
        for _ in 0..sample {
            let ins: Vec<usize> = (1..=nvals).filter(|_| rng.chance(1, 2)).collect();
            let mut outs: Vec<usize> = (1..=nvals).filter(|_| rng.chance(2, 5)).collect();
            if outs.is_empty() {
                outs.push(1 + rng.below(nvals));
            }
            rng.shuffle(&mut outs);
            wf.push((ins, outs));
        }
    } else {
        let subs = subsets(nvals);
        for ins in &subs {
            for outs in &subs {
                if outs.is_empty() {
                    continue;
                }
                wf.push((ins.clone(), outs.clone()));
                if outs.len() > 1 {
                    let mut r = outs.clone();
                    r.reverse();
                    wf.push((ins.clone(), r));
                }
            }
        }
    }
    for (ins, outs) in wf {
        for (am, ca) in [(false, true), (false, false), (true, false), (true, true)] {
            out.push(Request {
                ins: ins.clone(),
                outs: outs.clone(),
                allow_missing: am,
                caps_avail: ca,
                class: "wellformed",
            });
        }
    }
    // Malformed requests.
    let op_id = nvals + 1; // first operator
    let unknown = nvals + bg.nops + 7;
    let v = 1usize;
    let w = if nvals >= 2 { 2 } else { 1 };
    let mal: Vec<(Vec<usize>, Vec<usize>, &'static str)> = vec![
        (vec![v, v], vec![w], "dup_input"),
        (vec![v, w, v], vec![w], "dup_input"),
        (vec![v], vec![w, w], "dup_output"),
        (vec![], vec![w, v, w], "dup_output"),
        (vec![op_id], vec![w], "op_as_input"),
        (vec![v], vec![op_id], "op_as_output"),
        (vec![unknown], vec![w], "unknown_input"),
        (vec![v], vec![unknown], "unknown_output"),
        (vec![v], vec![], "no_outputs"),
    ];
    for (ins, outs, class) in mal {
        for am in [false, true] {
            out.push(Request {
                ins: ins.clone(),
                outs: outs.clone(),
                allow_missing: am,
                caps_avail: true,
                class,
            });
        }
    }
    out
}

pub fn node_id(bg: &BuiltGraph, j: usize) -> NodeId {
    if j >= 1 && j <= bg.ids.len() {
        bg.ids[j - 1]
    } else {
        NodeId::from_u32(100_000 + j as u32)
    }
}

fn run_request(bg: &BuiltGraph, r: &Request) -> Value {
    let ins: Vec<NodeId> = r.ins.iter().map(|j| node_id(bg, *j)).collect();
    let outs: Vec<NodeId> = r.outs.iter().map(|j| node_id(bg, *j)).collect();
    let opts = PlanOptions {
        allow_missing_inputs: r.allow_missing,
        captures_available: r.caps_avail,
    };
    let res = guarded(|| bg.graph.execution_plan(&ins, &outs, opts));
    match res {
        Ok(Ok(plan)) => {
            let plan: Vec<usize> = plan
                .iter()
                .map(|id| bg.ids.iter().position(|x| x == id).map(|p| p + 1).unwrap_or(0))
                .collect();
            json!({"kind": "plan", "plan": plan, "msg": ""})
        }
        Ok(Err(e)) => {
            let msg: String = format!("{}", e).chars().take(80).collect();
            json!({"kind": "err", "plan": [], "msg": msg})
        }
        Err(msg) => {
            let msg: String = msg.chars().take(80).collect();
            json!({"kind": "panic", "plan": [], "msg": msg})
        }
    }
}

/// `vh-graph plan --graphs FILE --out TRACE [--sample-requests K]`
pub fn main_plan() {
    let graphs_file = vcommon::arg("--graphs").expect("--graphs");
    let out = vcommon::arg("--out").expect("--out");
    let sample = vcommon::arg_usize("--sample-requests", 0);
    let graphs = vcommon::read_json_lines(&graphs_file);
    let child_from = vcommon::arg("--child-from");
    if child_from.is_none() {
        // Parent: count the cases, then run them in child processes.
        let mut n = 0usize;
        for (gi, g) in graphs.iter().enumerate() {
            let bg = build_graph(g);
            let mut rng = Rng::new(vcommon::seed_from_env() ^ (gi as u64 * 7919));
            n += requests(&bg, sample, &mut rng).len();
        }
        let args: Vec<String> = vec![
            "plan".into(),
            "--graphs".into(),
            graphs_file.clone(),
            "--sample-requests".into(),
            sample.to_string(),
        ];
        vcommon::run_chunked(&out, &args, n, 5000, 8_000, &|kind, seq| {
            json!({"ev": "res", "seq": seq, "res": {"kind": kind, "plan": [], "msg": ""}})
        });
        eprintln!("cases={n} graphs={}", graphs.len());
        return;
    }
    let from: usize = child_from.unwrap().parse().unwrap();
    let to: usize = vcommon::arg("--child-to").unwrap().parse().unwrap();
    vcommon::quiet_panics();
    let mut tr = Trace::create(&out);
    let mut idx = 0usize;
    for (gi, g) in graphs.iter().enumerate() {
        if idx >= to {
            break;
        }
        let bg = build_graph(g);
        let mut rng = Rng::new(vcommon::seed_from_env() ^ (gi as u64 * 7919));
        let reqs = requests(&bg, sample, &mut rng);
        if idx + reqs.len() <= from {
            idx += reqs.len();
            continue;
        }
        tr.emit(json!({"ev": "graph", "gi": gi, "g": bg.desc}));
        for r in &reqs {
            if idx >= from && idx < to {
                tr.emit(json!({"ev": "case", "idx": idx, "ins": r.ins, "outs": r.outs,
                               "allow": r.allow_missing, "capsavail": r.caps_avail, "class": r.class}));
                tr.flush();
                let res = run_request(&bg, r);
                tr.emit(json!({"ev": "res", "res": res}));
            }
            idx += 1;
        }
    }
    tr.flush();
}
