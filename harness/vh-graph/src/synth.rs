//! Synthetic operators defined outside rten (through the `rten::verif` hook).

use std::sync::Arc;

use rten::verif::{
    CaptureEnv, Graph, InferShapes, OpError, OpRunContext, Operator, OutputList, OutputTypeList,
    OutputTypesContext, Profiler, RunError, RunOptions, SubgraphOperator, WeightCache,
};
use rten_base::bit_set::BitSet;
use smallvec::SmallVec;

/// Operator that is never run: carries only the flags the planner looks at.
pub struct Dummy {
    pub in_place: bool,
    pub subgraph: Option<Graph>,
    pub n_outputs: usize,
}

impl std::fmt::Debug for Dummy {
    fn fmt(&self, f: &mut std::fmt::Formatter<'_>) -> std::fmt::Result {
        write!(f, "Dummy")
    }
}

impl Operator for Dummy {
    fn name(&self) -> &str {
        "Dummy"
    }
    fn run(&self, _ctx: &OpRunContext) -> Result<OutputList, OpError> {
        Err(OpError::InvalidValue("Dummy operator cannot run"))
    }
    fn max_inputs(&self) -> Option<usize> {
        None
    }
    fn max_outputs(&self) -> Option<usize> {
        Some(self.n_outputs)
    }
    fn output_types(&self, _ctx: &OutputTypesContext) -> Option<OutputTypeList> {
        None
    }
    fn in_place_inputs(&self) -> BitSet<u16> {
        if self.in_place {
            BitSet::from_indices([0])
        } else {
            BitSet::new()
        }
    }
    fn as_subgraph_op(&self) -> Option<&dyn SubgraphOperator> {
        if self.subgraph.is_some() {
            Some(self)
        } else {
            None
        }
    }
    fn as_infer_shapes(&self) -> Option<&dyn InferShapes> {
        None
    }
}

impl SubgraphOperator for Dummy {
    fn subgraphs(&self) -> SmallVec<[&Graph; 2]> {
        self.subgraph.iter().collect()
    }
    fn run_subgraph<'a>(
        &'a self,
        _ctx: &OpRunContext,
        _captures: CaptureEnv,
        _weight_cache: Option<&[WeightCache]>,
        _profiler: Option<&mut Profiler<'a>>,
        _run_opts: Option<RunOptions>,
    ) -> Result<OutputList, RunError> {
        unimplemented!("Dummy operator cannot run")
    }
}

/// A subgraph whose only content is value nodes with the given names, all
/// marked as captured from the parent scope.
pub fn capture_only_subgraph(names: &[String]) -> Graph {
    let mut g = Graph::new();
    let ids: Vec<_> = names
        .iter()
        .map(|n| g.add_value(Some(n), None, None))
        .collect();
    g.set_captures(&ids);
    g
}

pub fn arc_op<O: Operator + Send + Sync + 'static>(op: O) -> Arc<dyn Operator + Send + Sync> {
    Arc::new(op)
}
