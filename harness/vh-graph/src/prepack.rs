//! C02 (prepacked weights / subgraph weight caches / thread pools on real
//! operators): small ONNX models made of MatMul nodes with constant weights -
//! chained, inside the branches of If operators (weights are initializers of the
//! branch graphs, so node ids collide between branches), and a weight shared
//! between a plain MatMul and a Transpose->MatMul - are loaded with prepacking
//! on/off and optimisation on/off and run with different thread pools.
//! Integer-valued f32 data, so the product is exact.  The `mmint` family does the
//! same with MatMulInteger: u8 input, constant i8 weight (prepacked at load time,
//! before the zero points are known), scalar / per-column zero points.

use std::sync::Arc;

use rten::{ModelOptions, RunOptions, Value, ValueOrView};
use rten_tensor::prelude::*;
use rten_tensor::Tensor;
use vcommon::onnx::{self, Attr, Graph as OGraph, Node as ONode, Tensor as OTensor, TensorData, ValueInfo};
use vcommon::{Rng, Trace, json};

fn weight(name: &str, rows: usize, cols: usize, data: &[i32]) -> OTensor {
    OTensor {
        name: name.into(),
        dims: vec![rows as i64, cols as i64],
        data: TensorData::F32(data.iter().map(|x| *x as f32).collect()),
    }
}

fn rand_mat(rng: &mut Rng, n: usize) -> Vec<i32> {
    (0..n).map(|_| rng.range(-4, 4) as i32).collect()
}

fn branch(name: &str, input: &str, w: OTensor, out: &str) -> OGraph {
    let mut g = OGraph::default();
    g.name = name.into();
    g.nodes = vec![ONode::new("MatMul", &[input, &w.name.clone()], &[out])];
    g.initializers = vec![w];
    g.outputs = vec![ValueInfo::new(out, onnx::FLOAT, None)];
    g
}

struct Case {
    kind: &'static str,
    m: usize,
    k: usize,
    n: usize,
    x: Vec<i32>,
    x2: Vec<i32>,
    conds: Vec<i32>,
    /// MatMulInteger only: LHS zero point and RHS zero points (one per column, or a single one).
    azp: i32,
    bzp: Vec<i32>,
    ws: Vec<Vec<i32>>,
    model: Vec<u8>,
    outs: Vec<&'static str>,
}

fn make_case(kind: &'static str, rng: &mut Rng) -> Case {
    let m = *rng.pick(&[1usize, 2, 3, 5]);
    let k = 1 + rng.below(6);
    let n = 1 + rng.below(6);
    let x = rand_mat(rng, m * k);
    let x2 = rand_mat(rng, m * n);
    let conds = vec![rng.below(2) as i32, rng.below(2) as i32];
    let mut g = OGraph::default();
    g.inputs = vec![ValueInfo::fixed("x", onnx::FLOAT, &[m as i64, k as i64])];
    let mut ws = Vec::new();
    let mut azp = 0;
    let mut bzp: Vec<i32> = Vec::new();
    let mut x = x;
    let outs: Vec<&'static str>;
    match kind {
        "chain" => {
            ws.push(rand_mat(rng, k * n));
            ws.push(rand_mat(rng, n * n));
            g.initializers = vec![weight("w1", k, n, &ws[0]), weight("w2", n, n, &ws[1])];
            g.nodes = vec![ONode::new("MatMul", &["x", "w1"], &["y"]), ONode::new("MatMul", &["y", "w2"], &["z"])];
            outs = vec!["y", "z"];
        }
        "if" => {
            ws.push(rand_mat(rng, k * n));
            ws.push(rand_mat(rng, k * n));
            g.inputs.push(ValueInfo::fixed("c1", onnx::BOOL, &[]));
            g.nodes = vec![
                ONode::new("If", &["c1"], &["y"])
                    .attr("then_branch", Attr::Graph(branch("then", "x", weight("w", k, n, &ws[0]), "bo")))
                    .attr("else_branch", Attr::Graph(branch("else", "x", weight("w", k, n, &ws[1]), "bo"))),
            ];
            outs = vec!["y"];
        }
        "if2" => {
            ws.push(rand_mat(rng, k * n));
            ws.push(rand_mat(rng, k * n));
            ws.push(rand_mat(rng, n * n));
            ws.push(rand_mat(rng, n * n));
            g.inputs.push(ValueInfo::fixed("c1", onnx::BOOL, &[]));
            g.inputs.push(ValueInfo::fixed("c2", onnx::BOOL, &[]));
            g.nodes = vec![
                ONode::new("If", &["c1"], &["y1"])
                    .attr("then_branch", Attr::Graph(branch("then1", "x", weight("w", k, n, &ws[0]), "bo")))
                    .attr("else_branch", Attr::Graph(branch("else1", "x", weight("w", k, n, &ws[1]), "bo"))),
                ONode::new("If", &["c2"], &["y2"])
                    .attr("then_branch", Attr::Graph(branch("then2", "y1", weight("w", n, n, &ws[2]), "bo")))
                    .attr("else_branch", Attr::Graph(branch("else2", "y1", weight("w", n, n, &ws[3]), "bo"))),
            ];
            outs = vec!["y2"];
        }
        "shared" => {
            ws.push(rand_mat(rng, k * n));
            g.inputs.push(ValueInfo::fixed("x2", onnx::FLOAT, &[m as i64, n as i64]));
            g.initializers = vec![weight("w", k, n, &ws[0])];
            g.nodes = vec![
                ONode::new("MatMul", &["x", "w"], &["y"]),
                ONode::new("Transpose", &["w"], &["wt"]).attr("perm", Attr::Ints(vec![1, 0])),
                ONode::new("MatMul", &["x2", "wt"], &["z"]),
            ];
            outs = vec!["y", "z"];
        }
        "mmint" => {
            // y = (x - azp) x (w - bzp[col]); the weight is a constant, the zero points are constants
            // given as separate inputs of the operator.
            x = (0..m * k).map(|_| rng.below(10) as i32).collect();
            ws.push(rand_mat(rng, k * n));
            azp = *rng.pick(&[0i32, 0, 1, 2, 3]);
            bzp = match rng.below(4) {
                0 => vec![0],
                1 => vec![rng.range(-2, 2) as i32],
                2 if n > 1 => vec![0; n],
                _ if n > 1 => (0..n).map(|_| rng.range(-2, 2) as i32).collect(),
                _ => vec![rng.range(-2, 2) as i32],
            };
            g.inputs = vec![ValueInfo::fixed("x", onnx::UINT8, &[m as i64, k as i64])];
            g.initializers = vec![
                OTensor { name: "w".into(), dims: vec![k as i64, n as i64], data: TensorData::I8(ws[0].iter().map(|v| *v as i8).collect()) },
                OTensor { name: "azp".into(), dims: vec![], data: TensorData::U8(vec![azp as u8]) },
                OTensor {
                    name: "bzp".into(),
                    dims: if bzp.len() == 1 { vec![] } else { vec![bzp.len() as i64] },
                    data: TensorData::I8(bzp.iter().map(|v| *v as i8).collect()),
                },
            ];
            g.nodes = vec![ONode::new("MatMulInteger", &["x", "w", "azp", "bzp"], &["y"])];
            outs = vec!["y"];
        }
        _ => unreachable!(),
    }
    let out_type = if kind == "mmint" { onnx::INT32 } else { onnx::FLOAT };
    g.outputs = outs.iter().map(|o| ValueInfo::new(o, out_type, None)).collect();
    Case {
        kind,
        m,
        k,
        n,
        x,
        x2,
        conds,
        azp,
        bzp,
        ws,
        model: g.to_model(),
        outs,
    }
}

fn run_cfg(c: &Case, prepack: bool, optimize: bool, threads: usize) -> serde_json::Value {
    let res = vcommon::guarded(|| {
        let mut opts = ModelOptions::with_all_ops();
        opts.enable_optimization(optimize);
        opts.prepack_weights(prepack);
        let model = opts.load(c.model.clone()).map_err(|e| format!("load: {e}"))?;
        let x = Tensor::from_data(&[c.m, c.k], c.x.iter().map(|v| *v as f32).collect::<Vec<_>>());
        let x2 = Tensor::from_data(&[c.m, c.n], c.x2.iter().map(|v| *v as f32).collect::<Vec<_>>());
        let xu8 = Tensor::from_data(&[c.m, c.k], c.x.iter().map(|v| *v as u8).collect::<Vec<_>>());
        let mut inputs: Vec<(rten::NodeId, ValueOrView)> = if c.kind == "mmint" {
            vec![(model.node_id("x").unwrap(), xu8.view().into())]
        } else {
            vec![(model.node_id("x").unwrap(), x.view().into())]
        };
        if let Some(id) = model.find_node("x2") {
            inputs.push((id, x2.view().into()));
        }
        let c1 = Tensor::<i32>::from_scalar(c.conds[0]);
        let c2 = Tensor::<i32>::from_scalar(c.conds[1]);
        if let Some(id) = model.find_node("c1") {
            inputs.push((id, c1.view().into()));
        }
        if let Some(id) = model.find_node("c2") {
            inputs.push((id, c2.view().into()));
        }
        let out_ids: Vec<rten::NodeId> = c.outs.iter().map(|o| model.node_id(o).unwrap()).collect();
        let ropts = if threads > 0 {
            Some(RunOptions::default().with_thread_pool(Some(Arc::new(rten::ThreadPool::with_num_threads(threads)))))
        } else {
            None
        };
        // run twice: the second run reuses the cached plan and the packed weights
        let first = model.run(inputs.clone(), &out_ids, ropts.clone()).map_err(|e| format!("run: {e}"))?;
        let second = model.run(inputs, &out_ids, ropts).map_err(|e| format!("run: {e}"))?;
        let conv = |vs: &[Value]| -> Vec<serde_json::Value> {
            vs.iter()
                .map(|v| match v {
                    Value::FloatTensor(t) => {
                        let exact = t.iter().all(|f| f.fract() == 0.0 && f.abs() < 1.0e6);
                        json!({"shape": t.shape().to_vec(), "exact": exact, "data": t.iter().map(|f| *f as i32).collect::<Vec<i32>>()})
                    }
                    Value::Int32Tensor(t) => {
                        json!({"shape": t.shape().to_vec(), "exact": true, "data": t.iter().copied().collect::<Vec<i32>>()})
                    }
                    _ => json!({"shape": [], "exact": false, "data": []}),
                })
                .collect()
        };
        Ok::<_, String>((conv(&first), conv(&second)))
    });
    match res {
        Ok(Ok((a, b))) => json!({"kind": "ok", "outs": a, "outs2": b, "msg": ""}),
        Ok(Err(m)) => json!({"kind": "err", "outs": [], "outs2": [], "msg": m.chars().take(80).collect::<String>()}),
        Err(m) => json!({"kind": "panic", "outs": [], "outs2": [], "msg": m.chars().take(80).collect::<String>()}),
    }
}

/// `vh-graph exec-prepack --cases N --out TRACE`
pub fn main_prepack() {
    let n = vcommon::arg_usize("--cases", 100);
    let out = vcommon::arg("--out").expect("--out");
    vcommon::quiet_panics();
    let mut tr = Trace::create(&out);
    let mut rng = Rng::from_env();
    let kinds = ["chain", "if", "if2", "shared", "mmint"];
    for ci in 0..n {
        let c = make_case(kinds[ci % kinds.len()], &mut rng);
        tr.emit(json!({"ev": "pcase", "case": ci, "kind": c.kind, "m": c.m, "k": c.k, "n": c.n,
                       "x": c.x, "x2": c.x2, "conds": c.conds, "ws": c.ws, "azp": c.azp, "bzp": c.bzp}));
        for prepack in [false, true] {
            for optimize in [false, true] {
                let threads = *rng.pick(&[0usize, 1, 4]);
                let r = run_cfg(&c, prepack, optimize, threads);
                tr.emit(json!({"ev": "prun", "prepack": prepack, "optimize": optimize, "threads": threads, "res": r}));
            }
        }
    }
    tr.flush();
    eprintln!("cases={n}");
}
