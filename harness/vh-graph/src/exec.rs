//! C02 / C25 engine: execute TLC-generated SSA graphs of synthetic integer
//! "mixer" operators (with a real in-place path that overwrites the taken
//! buffer) under different execution strategies and record the outputs, the
//! borrowed inputs and the constants after every run.
//!
//! Graph description (from Executor.tla's Init states):
//!   {"ni":2,"ops":[{"ins":[1,2],"inplace":true,"comm":false},...],
//!    "outs":[4],"owned":[1],"big":[2],"consts":[]}
//! Value ids: 1..ni graph inputs (or constants), ni+i = output of operator i.

use std::sync::Arc;

use rten::verif::{
    Graph, InPlaceInputs, InferShapes, NodeId, OpError, OpRunContext, Operator, OutputList,
    OutputTypeList, OutputTypesContext,
};
use rten::{RunOptions, Value, ValueOrView, ValueView};
use rten_base::bit_set::BitSet;
use rten_tensor::prelude::*;
use rten_tensor::Tensor;
use vcommon::{Rng, Trace, json};

pub const MODULUS: i64 = 65521;

/// out[j] = (sum_p coef_p * arg_p[j] + 7*k + 1) mod 65521, with broadcasting of
/// one-element arguments. coef_p = 1 for commutative mixers, p + 2 otherwise.
pub struct Mixer {
    pub k: i64,
    pub comm: bool,
    pub inplace: bool,
}

impl std::fmt::Debug for Mixer {
    fn fmt(&self, f: &mut std::fmt::Formatter<'_>) -> std::fmt::Result {
        write!(f, "Mixer{}", self.k)
    }
}

impl Mixer {
    fn coef(&self, pos: usize) -> i64 {
        if self.comm { 1 } else { pos as i64 + 2 }
    }

    fn arg<'a>(v: Option<ValueView<'a>>) -> Result<rten_tensor::TensorView<'a, i32>, OpError> {
        match v {
            Some(ValueView::Int32Tensor(t)) => Ok(t),
            _ => Err(OpError::InvalidValue("mixer expects int32 inputs")),
        }
    }

    /// Combine `args` (position, data) into `out` (already holding `init`).
    fn mix(&self, args: &[(usize, Vec<i32>)], n: usize) -> Vec<i32> {
        (0..n)
            .map(|j| {
                let mut acc: i64 = 7 * self.k + 1;
                for (pos, data) in args {
                    let x = if data.len() == 1 { data[0] } else { data[j] } as i64;
                    acc += self.coef(*pos) * x;
                }
                acc.rem_euclid(MODULUS) as i32
            })
            .collect()
    }
}

impl Operator for Mixer {
    fn name(&self) -> &str {
        "Mixer"
    }

    fn run(&self, ctx: &OpRunContext) -> Result<OutputList, OpError> {
        let mut args = Vec::new();
        for (pos, v) in ctx.inputs().iter().enumerate() {
            let t = Self::arg(v)?;
            args.push((pos, t.iter().copied().collect::<Vec<i32>>()));
        }
        let n = args.iter().map(|(_, d)| d.len()).max().unwrap_or(1);
        let res = self.mix(&args, n);
        // Allocate the output from the buffer pool, like real operators do.
        let mut buf: Vec<i32> = ctx.pool().alloc(n);
        buf.extend_from_slice(&res);
        Ok([Value::from(Tensor::from_data(&[n], buf))].into_iter().collect())
    }

    fn max_inputs(&self) -> Option<usize> {
        None
    }

    fn output_types(&self, _ctx: &OutputTypesContext) -> Option<OutputTypeList> {
        None
    }

    fn in_place_inputs(&self) -> BitSet<u16> {
        if self.inplace {
            BitSet::from_indices([0])
        } else {
            BitSet::new()
        }
    }

    fn is_commutative(&self) -> bool {
        self.comm
    }

    fn run_in_place(&self, in_place: InPlaceInputs, ctx: &OpRunContext) -> Result<OutputList, OpError> {
        let taken: Vec<(usize, Value)> = in_place.into_iter().collect();
        if taken.len() != 1 {
            return Err(OpError::InvalidValue("mixer takes one in-place input"));
        }
        let (tpos, tval) = taken.into_iter().next().unwrap();
        let Value::Int32Tensor(mut ttensor) = tval else {
            return Err(OpError::InvalidValue("mixer expects int32 inputs"));
        };
        let mut args = vec![(tpos, ttensor.iter().copied().collect::<Vec<i32>>())];
        for (pos, v) in ctx.inputs().iter().enumerate() {
            if pos == tpos {
                if v.is_some() {
                    return Err(OpError::InvalidValue("placeholder expected at the taken position"));
                }
                continue;
            }
            let t = Self::arg(v)?;
            args.push((pos, t.iter().copied().collect::<Vec<i32>>()));
        }
        let n = args.iter().map(|(_, d)| d.len()).max().unwrap_or(1);
        let res = self.mix(&args, n);
        if ttensor.len() == n {
            // Really overwrite the taken buffer.
            for (dst, src) in ttensor.iter_mut().zip(res.iter()) {
                *dst = *src;
            }
            Ok([Value::from(ttensor)].into_iter().collect())
        } else {
            // The taken operand is the smaller (broadcast) side: scribble over it
            // (its old content must not be needed by anyone) and allocate the output.
            for dst in ttensor.iter_mut() {
                *dst = -1;
            }
            let mut buf: Vec<i32> = ctx.pool().alloc(n);
            buf.extend_from_slice(&res);
            Ok([Value::from(Tensor::from_data(&[n], buf))].into_iter().collect())
        }
    }

    fn as_infer_shapes(&self) -> Option<&dyn InferShapes> {
        None
    }
}

pub struct Built {
    pub graph: Graph,
    pub ids: Vec<NodeId>, // value id (1-based) -> NodeId
    pub ni: usize,
    pub consts: Vec<usize>,
}

fn ids_of(v: &serde_json::Value, key: &str) -> Vec<usize> {
    v[key].as_array().map(|a| a.iter().map(|x| x.as_u64().unwrap() as usize).collect()).unwrap_or_default()
}

/// Data of graph input / constant `v` (1-based), derived from a seed.
pub fn input_data(v: usize, big: bool, seed: u64) -> Vec<i32> {
    let n = if big { 3 } else { 1 };
    (0..n).map(|j| ((seed.wrapping_mul(31).wrapping_add(v as u64 * 17 + j as u64 * 5)) % 50) as i32 + 1).collect()
}

pub fn build(g: &serde_json::Value, seed: u64, force_no_inplace: bool) -> Built {
    let ni = g["ni"].as_u64().unwrap() as usize;
    let consts = ids_of(g, "consts");
    let big = ids_of(g, "big");
    let mut graph = Graph::new();
    let mut ids = Vec::new();
    for v in 1..=ni {
        if consts.contains(&v) {
            let data = input_data(v, big.contains(&v), seed);
            let t = Tensor::<i32>::from_data(&[data.len()], data).into_arc();
            ids.push(graph.add_constant(Some(&format!("v{v}")), t));
        } else {
            ids.push(graph.add_value(Some(&format!("v{v}")), None, None));
        }
    }
    for (i, op) in g["ops"].as_array().unwrap().iter().enumerate() {
        let out = graph.add_value(Some(&format!("v{}", ni + i + 1)), None, None);
        ids.push(out);
        let ins: Vec<Option<NodeId>> = ids_of(op, "ins").iter().map(|v| Some(ids[v - 1])).collect();
        let mixer = Mixer {
            k: i as i64 + 1,
            comm: op["comm"].as_bool().unwrap(),
            inplace: op["inplace"].as_bool().unwrap() && !force_no_inplace,
        };
        graph.add_op(Some(&format!("op{}", i + 1)), Arc::new(mixer), &ins, &[Some(out)]);
    }
    Built {
        graph,
        ids,
        ni,
        consts,
    }
}

/// Thread pools are created once per size (creating one per run is slow).
fn shared_pool(threads: usize) -> Arc<rten::ThreadPool> {
    use std::collections::HashMap;
    use std::sync::{Mutex, OnceLock};
    static POOLS: OnceLock<Mutex<HashMap<usize, Arc<rten::ThreadPool>>>> = OnceLock::new();
    let mut m = POOLS.get_or_init(|| Mutex::new(HashMap::new())).lock().unwrap();
    m.entry(threads)
        .or_insert_with(|| Arc::new(rten::ThreadPool::with_num_threads(threads)))
        .clone()
}

fn value_data(v: &Value) -> Vec<i32> {
    match v {
        Value::Int32Tensor(t) => t.iter().copied().collect(),
        _ => vec![],
    }
}

/// Run the graph once. `owned`: which non-constant inputs are passed as owned values.
/// Returns (kind, outputs as [{id,data}], inputs_after as [{id,data}] for borrowed inputs, consts_after).
fn run_once(
    b: &Built,
    g: &serde_json::Value,
    outs: &[usize],
    owned: &[usize],
    seed: u64,
    threads: usize,
) -> serde_json::Value {
    let big = ids_of(g, "big");
    let mut tensors: Vec<(usize, Tensor<i32>)> = Vec::new();
    for v in 1..=b.ni {
        if b.consts.contains(&v) {
            continue;
        }
        let d = input_data(v, big.contains(&v), seed);
        tensors.push((v, Tensor::from_data(&[d.len()], d)));
    }
    let out_ids: Vec<NodeId> = outs.iter().map(|v| b.ids[v - 1]).collect();
    let res = vcommon::guarded(|| {
        let mut inputs: Vec<(NodeId, ValueOrView)> = Vec::new();
        for (v, t) in &tensors {
            if owned.contains(v) {
                inputs.push((b.ids[v - 1], t.clone().into()));
            } else {
                inputs.push((b.ids[v - 1], t.view().into()));
            }
        }
        let opts = if threads > 0 {
            Some(RunOptions::default().with_thread_pool(Some(shared_pool(threads))))
        } else {
            None
        };
        b.graph.run(inputs, &out_ids, None, opts)
    });
    let (kind, outs_j, msg) = match res {
        Ok(Ok(vals)) => (
            "ok",
            json!(vals.iter().zip(outs).map(|(v, id)| json!({"id": id, "data": value_data(v)})).collect::<Vec<_>>()),
            String::new(),
        ),
        Ok(Err(e)) => ("err", json!([]), format!("{}", e).chars().take(60).collect()),
        Err(m) => ("panic", json!([]), m.chars().take(60).collect()),
    };
    // Borrowed inputs after the run.
    let after: Vec<serde_json::Value> = tensors
        .iter()
        .filter(|(v, _)| !owned.contains(v))
        .map(|(v, t)| json!({"id": v, "data": t.iter().copied().collect::<Vec<i32>>()}))
        .collect();
    // Constants after the run.
    let consts_after: Vec<serde_json::Value> = b
        .consts
        .iter()
        .map(|v| {
            let id = b.ids[v - 1];
            let data = match b.graph.get_node(id) {
                Some(rten::verif::Node::Constant(c)) => match c.as_view() {
                    ValueView::Int32Tensor(t) => t.iter().copied().collect::<Vec<i32>>(),
                    _ => vec![],
                },
                _ => vec![],
            };
            json!({"id": v, "data": data})
        })
        .collect();
    json!({"kind": kind, "outs": outs_j, "msg": msg, "borrowed_after": after, "consts_after": consts_after})
}

fn inputs_json(g: &serde_json::Value, ni: usize, seed: u64) -> serde_json::Value {
    let big = ids_of(g, "big");
    json!((1..=ni).map(|v| input_data(v, big.contains(&v), seed)).collect::<Vec<_>>())
}

/// `vh-graph exec --graphs FILE --out TRACE [--consts yes]`
/// For each graph: a history of runs under the strategy matrix.
pub fn main_exec() {
    let graphs_file = vcommon::arg("--graphs").expect("--graphs");
    let out = vcommon::arg("--out").expect("--out");
    let with_consts = vcommon::arg_or("--consts", "yes") == "yes";
    let graphs = vcommon::read_json_lines(&graphs_file);
    vcommon::quiet_panics();
    let mut tr = Trace::create(&out);
    let mut rng = Rng::from_env();
    for (gi, g0) in graphs.iter().enumerate() {
        let mut g = g0.clone();
        let ni = g["ni"].as_u64().unwrap() as usize;
        let owned = ids_of(&g, "owned");
        // Turn some non-owned inputs into graph constants (weights).
        let consts: Vec<usize> = if with_consts {
            (1..=ni).filter(|v| !owned.contains(v) && rng.chance(1, 3)).collect()
        } else {
            vec![]
        };
        g["consts"] = json!(consts);
        let outs = ids_of(&g, "outs");
        let seed0 = rng.next_u64() % 1000;
        let b = build(&g, seed0, false);
        let bref = build(&g, seed0, true);
        tr.emit(json!({"ev": "case", "case": gi, "g": g, "cseed": seed0,
                       "const_data": inputs_json(&g, ni, seed0)}));
        // History of runs on the same graph object: strategies x inputs x output sets.
        let mut runs: Vec<(String, Vec<usize>, Vec<usize>, u64, usize, bool)> = Vec::new();
        let s1 = rng.next_u64() % 1000;
        let s2 = rng.next_u64() % 1000;
        let all_in: Vec<usize> = (1..=ni).filter(|v| !consts.contains(v)).collect();
        runs.push(("as_generated".into(), outs.clone(), owned.clone(), s1, 0, true));
        runs.push(("pool_off".into(), outs.clone(), owned.clone(), s1, 0, false));
        runs.push(("all_borrowed".into(), outs.clone(), vec![], s1, 1, true));
        runs.push(("all_owned".into(), outs.clone(), all_in.clone(), s1, 2, true));
        runs.push(("repeat".into(), outs.clone(), owned.clone(), s1, 0, true));
        runs.push(("other_inputs".into(), outs.clone(), owned.clone(), s2, 0, true));
        // a different output set: every value produced by an operator
        let nv = ni + g["ops"].as_array().unwrap().len();
        let all_outs: Vec<usize> = ((ni + 1)..=nv).collect();
        runs.push(("all_op_outputs".into(), all_outs, owned.clone(), s2, 0, true));
        // an input or constant requested directly as an output, together with the last value
        runs.push(("input_as_output".into(), vec![1, nv], all_in.clone(), s1, 0, true));
        runs.push(("repeat_after_others".into(), outs.clone(), owned.clone(), s1, 8, true));
        for (ri, (strategy, outs, owned, seed, threads, pool)) in runs.iter().enumerate() {
            // SAFETY: single-threaded harness; the executor reads this flag on every run.
            unsafe { std::env::set_var("RTEN_USE_POOL", if *pool { "1" } else { "0" }) };
            let r = run_once(&b, &g, outs, owned, *seed, *threads);
            // Reference mode: the same graph with every in-place flag off, inputs borrowed.
            unsafe { std::env::set_var("RTEN_USE_POOL", "0") };
            let rr = run_once(&bref, &g, outs, &[], *seed, 0);
            tr.emit(json!({"ev": "run", "run": ri, "strategy": strategy, "outs_req": outs, "owned": owned,
                           "seed": seed, "threads": threads, "pool": pool,
                           "inputs": inputs_json(&g, ni, *seed),
                           "res": r, "ref_kind": rr["kind"], "ref_outs": rr["outs"]}));
        }
    }
    unsafe { std::env::set_var("RTEN_USE_POOL", "1") };
    tr.flush();
    eprintln!("cases={}", graphs.len());
}
