//! C04 engine: partial evaluation. For every TLC-generated case (SSA graph of
//! mixer operators, some flagged non-deterministic; requested outputs; subset S
//! of the inputs) run on the real `Graph`:
//!   full     = run(all inputs, outs)
//!   partial  = partial_run(inputs in S, outs)          -> returned (id, value) list
//!   composed = run(inputs not in S + returned, outs)
//! and record everything, including how often a non-deterministic operator ran
//! during partial_run.

use std::sync::Arc;
use std::sync::atomic::{AtomicUsize, Ordering};

use rten::verif::{
    Graph, InferShapes, NodeId, OpError, OpRunContext, Operator, OutputList, OutputTypeList,
    OutputTypesContext,
};
use rten::{Value, ValueOrView, ValueView};
use rten_tensor::prelude::*;
use rten_tensor::Tensor;
use vcommon::{Rng, Trace, json};

use crate::exec::{MODULUS, Mixer};

/// Number of times any non-deterministic operator has run.
static NONDET_RUNS: AtomicUsize = AtomicUsize::new(0);

/// A "random generator": mixes its arguments with a counter that changes on
/// every run, and reports `is_deterministic() == false`.
pub struct NondetMixer {
    pub k: i64,
}

impl std::fmt::Debug for NondetMixer {
    fn fmt(&self, f: &mut std::fmt::Formatter<'_>) -> std::fmt::Result {
        write!(f, "NondetMixer{}", self.k)
    }
}

impl Operator for NondetMixer {
    fn name(&self) -> &str {
        "NondetMixer"
    }
    fn run(&self, ctx: &OpRunContext) -> Result<OutputList, OpError> {
        let c = NONDET_RUNS.fetch_add(1, Ordering::SeqCst) as i64 + 1;
        let mut n = 1;
        let mut args: Vec<Vec<i32>> = Vec::new();
        for v in ctx.inputs().iter() {
            match v {
                Some(ValueView::Int32Tensor(t)) => {
                    n = n.max(t.len());
                    args.push(t.iter().copied().collect());
                }
                _ => return Err(OpError::InvalidValue("mixer expects int32 inputs")),
            }
        }
        let data: Vec<i32> = (0..n)
            .map(|j| {
                let mut acc = 7 * self.k + 1 + 1009 * c;
                for (p, a) in args.iter().enumerate() {
                    acc += (p as i64 + 2) * (if a.len() == 1 { a[0] } else { a[j] }) as i64;
                }
                acc.rem_euclid(MODULUS) as i32
            })
            .collect();
        Ok([Value::from(Tensor::from_data(&[n], data))].into_iter().collect())
    }
    fn max_inputs(&self) -> Option<usize> {
        None
    }
    fn output_types(&self, _ctx: &OutputTypesContext) -> Option<OutputTypeList> {
        None
    }
    fn is_deterministic(&self) -> bool {
        false
    }
    fn as_infer_shapes(&self) -> Option<&dyn InferShapes> {
        None
    }
}

/// A control-flow-like operator: it has a subgraph that captures parent values
/// by name, and mixes its inputs followed by the captured values (read through
/// the capture environment, as If/Loop bodies do).
pub struct CapMixer {
    pub k: i64,
    pub names: Vec<String>,
    pub subgraph: Graph,
    pub nondet: bool,
}

impl std::fmt::Debug for CapMixer {
    fn fmt(&self, f: &mut std::fmt::Formatter<'_>) -> std::fmt::Result {
        write!(f, "CapMixer{}", self.k)
    }
}

impl Operator for CapMixer {
    fn name(&self) -> &str {
        "CapMixer"
    }
    fn run(&self, _ctx: &OpRunContext) -> Result<OutputList, OpError> {
        Err(OpError::InvalidValue("CapMixer must be run as a subgraph operator"))
    }
    fn max_inputs(&self) -> Option<usize> {
        None
    }
    fn output_types(&self, _ctx: &OutputTypesContext) -> Option<OutputTypeList> {
        None
    }
    fn is_deterministic(&self) -> bool {
        !self.nondet
    }
    fn as_subgraph_op(&self) -> Option<&dyn rten::verif::SubgraphOperator> {
        Some(self)
    }
    fn as_infer_shapes(&self) -> Option<&dyn InferShapes> {
        None
    }
}

impl rten::verif::SubgraphOperator for CapMixer {
    fn subgraphs(&self) -> smallvec::SmallVec<[&Graph; 2]> {
        [&self.subgraph].into_iter().collect()
    }
    fn run_subgraph<'a>(
        &'a self,
        ctx: &OpRunContext,
        captures: rten::verif::CaptureEnv,
        _weight_cache: Option<&[rten::verif::WeightCache]>,
        _profiler: Option<&mut rten::verif::Profiler<'a>>,
        _run_opts: Option<rten::RunOptions>,
    ) -> Result<OutputList, rten::RunError> {
        let c = if self.nondet { NONDET_RUNS.fetch_add(1, Ordering::SeqCst) as i64 + 1 } else { 0 };
        let mut args: Vec<Vec<i32>> = Vec::new();
        for v in ctx.inputs().iter() {
            match v {
                Some(ValueView::Int32Tensor(t)) => args.push(t.iter().copied().collect()),
                _ => panic!("CapMixer expects int32 inputs"),
            }
        }
        for name in &self.names {
            match captures.get_input(name) {
                Some(ValueView::Int32Tensor(t)) => args.push(t.iter().copied().collect()),
                _ => panic!("captured value {name} is not available"),
            }
        }
        let n = args.iter().map(|a| a.len()).max().unwrap_or(1);
        let data: Vec<i32> = (0..n)
            .map(|j| {
                let mut acc = 7 * self.k + 1 + 1009 * c;
                for (p, a) in args.iter().enumerate() {
                    acc += (p as i64 + 2) * (if a.len() == 1 { a[0] } else { a[j] }) as i64;
                }
                acc.rem_euclid(MODULUS) as i32
            })
            .collect();
        Ok([Value::from(Tensor::from_data(&[n], data))].into_iter().collect())
    }
}

fn ids_of(v: &serde_json::Value, key: &str) -> Vec<usize> {
    v[key].as_array().map(|a| a.iter().map(|x| x.as_u64().unwrap() as usize).collect()).unwrap_or_default()
}

fn input_data(v: usize, seed: u64) -> Vec<i32> {
    let n = if (seed + v as u64) % 3 == 0 { 1 } else { 3 };
    (0..n).map(|j| ((seed.wrapping_mul(31).wrapping_add(v as u64 * 17 + j as u64 * 5)) % 50) as i32 + 1).collect()
}

fn build(g: &serde_json::Value, rng: &mut Rng) -> (Graph, Vec<NodeId>, Vec<bool>) {
    let ni = g["ni"].as_u64().unwrap() as usize;
    let mut graph = Graph::new();
    let mut ids = Vec::new();
    for v in 1..=ni {
        ids.push(graph.add_value(Some(&format!("v{v}")), None, None));
    }
    let mut inplace_flags = Vec::new();
    for (i, op) in g["ops"].as_array().unwrap().iter().enumerate() {
        let out = graph.add_value(Some(&format!("v{}", ni + i + 1)), None, None);
        ids.push(out);
        let ins: Vec<Option<NodeId>> = ids_of(op, "ins").iter().map(|v| Some(ids[v - 1])).collect();
        let nondet = op["nondet"].as_bool().unwrap();
        let inplace = !nondet && rng.chance(1, 2);
        inplace_flags.push(inplace);
        let caps = ids_of(op, "caps");
        let operator: Arc<dyn Operator + Send + Sync> = if !caps.is_empty() {
            let names: Vec<String> = caps.iter().map(|v| format!("v{v}")).collect();
            Arc::new(CapMixer {
                k: i as i64 + 1,
                subgraph: crate::synth::capture_only_subgraph(&names),
                names,
                nondet,
            })
        } else if nondet {
            Arc::new(NondetMixer { k: i as i64 + 1 })
        } else {
            Arc::new(Mixer { k: i as i64 + 1, comm: false, inplace })
        };
        graph.add_op(Some(&format!("op{}", i + 1)), operator, &ins, &[Some(out)]);
    }
    (graph, ids, inplace_flags)
}

fn vdata(v: &Value) -> Vec<i32> {
    match v {
        Value::Int32Tensor(t) => t.iter().copied().collect(),
        _ => vec![],
    }
}

/// `vh-graph partial-random --out TRACE`: real ONNX random generators must not
/// be folded into constants by the optimiser nor evaluated by partial_run.
pub fn main_partial_random() {
    use vcommon::onnx::{self, Attr, Graph as OGraph, Node as ONode, Tensor as OTensor, TensorData, ValueInfo};
    let out = vcommon::arg("--out").expect("--out");
    let mut tr = Trace::create(&out);
    vcommon::quiet_panics();
    let konst = OTensor {
        name: "k".into(),
        dims: vec![4],
        data: TensorData::F32(vec![1.0, 2.0, 3.0, 4.0]),
    };
    let variants: Vec<(&str, Vec<ONode>)> = vec![
        (
            "RandomUniform",
            vec![
                ONode::new("RandomUniform", &[], &["r"]).attr("shape", Attr::Ints(vec![4])),
                ONode::new("Add", &["r", "k"], &["y"]),
            ],
        ),
        (
            "RandomNormal",
            vec![
                ONode::new("RandomNormal", &[], &["r"]).attr("shape", Attr::Ints(vec![4])),
                ONode::new("Mul", &["r", "k"], &["y"]),
            ],
        ),
        (
            "RandomUniformLike",
            vec![
                ONode::new("RandomUniformLike", &["k"], &["r"]),
                ONode::new("Add", &["r", "k"], &["y"]),
            ],
        ),
        (
            "RandomNormalLike",
            vec![
                ONode::new("Neg", &["k"], &["nk"]),
                ONode::new("RandomNormalLike", &["nk"], &["r"]),
                ONode::new("Sub", &["r", "k"], &["y"]),
            ],
        ),
        (
            // 1 x 4 log-probabilities, 48 draws: three identical runs are (1/4)^96-improbable
            "Multinomial",
            vec![
                ONode::new("Multinomial", &["logits"], &["r"]).attr("sample_size", Attr::Int(48)),
                ONode::new("Cast", &["r"], &["rf"]).attr("to", Attr::Int(onnx::FLOAT as i64)),
                ONode::new("Neg", &["rf"], &["y"]),
            ],
        ),
        (
            // unseeded Dropout in training mode draws a fresh mask per evaluation (64 elements, ratio 0.5)
            "Dropout_training",
            vec![
                ONode::new("Dropout", &["kb", "ratio", "train"], &["r"]),
                ONode::new("Neg", &["r"], &["y"]),
            ],
        ),
    ];
    let extra_consts = vec![
        OTensor { name: "logits".into(), dims: vec![1, 4], data: TensorData::F32(vec![0.0; 4]) },
        OTensor { name: "kb".into(), dims: vec![64], data: TensorData::F32((1..=64).map(|v| v as f32).collect()) },
        OTensor { name: "ratio".into(), dims: vec![], data: TensorData::F32(vec![0.5]) },
        OTensor { name: "train".into(), dims: vec![], data: TensorData::Bool(vec![true]) },
    ];
    for (name, nodes) in variants {
        for optimize in [false, true] {
            let mut g = OGraph::default();
            g.nodes = nodes.clone();
            g.initializers = vec![konst.clone()];
            g.initializers.extend(extra_consts.iter().cloned());
            g.inputs = vec![ValueInfo::fixed("x", onnx::FLOAT, &[4])];
            g.outputs = vec![ValueInfo::new("y", onnx::FLOAT, None)];
            let mut opts = rten::ModelOptions::with_all_ops();
            opts.enable_optimization(optimize);
            let res = vcommon::guarded(|| {
                let model = opts.load(g.to_model()).map_err(|e| format!("load: {e}"))?;
                let y = model.node_id("y").map_err(|e| format!("{e}"))?;
                let mut runs: Vec<Vec<i32>> = Vec::new();
                for _ in 0..3 {
                    let outs = model.run(vec![], &[y], None).map_err(|e| format!("run: {e}"))?;
                    let bits: Vec<i32> = match &outs[0] {
                        Value::FloatTensor(t) => t.iter().map(|x| x.to_bits() as i32).collect(),
                        _ => vec![],
                    };
                    runs.push(bits);
                }
                let part = model.partial_run(vec![], &[y], None).map_err(|e| format!("partial_run: {e}"))?;
                let part_names: Vec<String> = part
                    .iter()
                    .map(|(id, _)| model.node_info(*id).and_then(|i| i.name().map(|s| s.to_string())).unwrap_or_default())
                    .collect();
                Ok::<_, String>((runs, part_names))
            });
            let ev = match res {
                Ok(Ok((runs, part_names))) => {
                    json!({"ev": "random", "op": name, "optimize": optimize, "kind": "ok",
                           "run1_eq_run2": runs[0] == runs[1], "run2_eq_run3": runs[1] == runs[2],
                           "partial_returned_random": part_names.iter().any(|n| n == "r" || n == "rf" || n == "y"), "msg": ""})
                }
                Ok(Err(m)) => json!({"ev": "random", "op": name, "optimize": optimize, "kind": "err",
                                      "run1_eq_run2": false, "run2_eq_run3": false, "partial_returned_random": false,
                                      "msg": m.chars().take(80).collect::<String>()}),
                Err(m) => json!({"ev": "random", "op": name, "optimize": optimize, "kind": "panic",
                                  "run1_eq_run2": false, "run2_eq_run3": false, "partial_returned_random": false,
                                  "msg": m.chars().take(80).collect::<String>()}),
            };
            tr.emit(ev);
        }
    }
    tr.flush();
}

/// `vh-graph partial --cases FILE --out TRACE`
pub fn main_partial() {
    let cases_file = vcommon::arg("--cases").expect("--cases");
    let out = vcommon::arg("--out").expect("--out");
    let cases = vcommon::read_json_lines(&cases_file);
    vcommon::quiet_panics();
    let mut tr = Trace::create(&out);
    let mut rng = Rng::from_env();
    for (ci, g) in cases.iter().enumerate() {
        let ni = g["ni"].as_u64().unwrap() as usize;
        let outs = ids_of(g, "outs");
        let s = ids_of(g, "S");
        let seed = rng.next_u64() % 1000;
        let (graph, ids, inplace) = build(g, &mut rng);
        let tensors: Vec<Tensor<i32>> = (1..=ni)
            .map(|v| {
                let d = input_data(v, seed);
                Tensor::from_data(&[d.len()], d)
            })
            .collect();
        let out_ids: Vec<NodeId> = outs.iter().map(|v| ids[v - 1]).collect();
        let pos = |id: NodeId| ids.iter().position(|x| *x == id).map(|p| p + 1).unwrap_or(0);
        let owned_inputs = rng.chance(1, 2);
        let mk = |v: usize| -> (NodeId, ValueOrView) {
            if owned_inputs {
                (ids[v - 1], tensors[v - 1].clone().into())
            } else {
                (ids[v - 1], tensors[v - 1].view().into())
            }
        };
        // full run
        let full = vcommon::guarded(|| graph.run((1..=ni).map(mk).collect(), &out_ids, None, None));
        let (full_kind, full_outs) = match &full {
            Ok(Ok(vs)) => ("ok", vs.iter().map(vdata).collect::<Vec<_>>()),
            Ok(Err(_)) => ("err", vec![]),
            Err(_) => ("panic", vec![]),
        };
        // partial run with the inputs in S
        let before = NONDET_RUNS.load(Ordering::SeqCst);
        let part = vcommon::guarded(|| graph.partial_run(s.iter().map(|v| mk(*v)).collect(), &out_ids, None));
        let nondet_runs = NONDET_RUNS.load(Ordering::SeqCst) - before;
        let (part_kind, returned): (&str, Vec<(NodeId, Value)>) = match part {
            Ok(Ok(vs)) => ("ok", vs),
            Ok(Err(_)) => ("err", vec![]),
            Err(_) => ("panic", vec![]),
        };
        let returned_j: Vec<serde_json::Value> = returned.iter().map(|(id, v)| json!({"id": pos(*id), "data": vdata(v)})).collect();
        // composed run: remaining inputs + returned values
        let returned_ids: Vec<NodeId> = returned.iter().map(|(id, _)| *id).collect();
        let composed = vcommon::guarded(|| {
            let mut inputs: Vec<(NodeId, ValueOrView)> = Vec::new();
            for v in 1..=ni {
                if !s.contains(&v) && !returned_ids.contains(&ids[v - 1]) {
                    inputs.push(mk(v));
                }
            }
            for (id, v) in &returned {
                inputs.push((*id, v.clone().into()));
            }
            graph.run(inputs, &out_ids, None, None)
        });
        let (comp_kind, comp_outs, comp_msg) = match &composed {
            Ok(Ok(vs)) => ("ok", vs.iter().map(vdata).collect::<Vec<_>>(), String::new()),
            Ok(Err(e)) => ("err", vec![], format!("{}", e).chars().take(70).collect()),
            Err(m) => ("panic", vec![], m.chars().take(70).collect()),
        };
        tr.emit(json!({"ev": "case", "case": ci, "g": g, "inplace": inplace, "owned_inputs": owned_inputs,
                       "inputs": tensors.iter().map(|t| t.iter().copied().collect::<Vec<i32>>()).collect::<Vec<_>>(),
                       "full_kind": full_kind, "full_outs": full_outs,
                       "part_kind": part_kind, "returned": returned_j, "nondet_runs": nondet_runs,
                       "comp_kind": comp_kind, "comp_outs": comp_outs, "comp_msg": comp_msg}));
    }
    tr.flush();
    eprintln!("cases={}", cases.len());
}
