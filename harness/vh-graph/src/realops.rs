//! C02 / C25 on real operators: `x -> Relu -> t -> OP -> y0 -> Neg -> y` where OP is drawn from a menu
//! of operators that have an in-place path (or return a view of their input), with the attribute and
//! optional-input variety that makes the in-place and the copying implementation different code.
//! Each model is run under a history of strategies: input owned / borrowed, `t` and `y0` also requested
//! (which forbids running OP / Neg in place), thread pools, pool off, optimisation on/off, repeats.
//! The harness records the bits of every returned value; Trace_RealOps.tla requires every run of a case
//! to return the same bits for the same value (no reference semantics needed: the contract of C02 is
//! *independence* of the strategy, that of C25 repeatability across a sequence of runs).

use std::sync::Arc;

use rten::{ModelOptions, RunOptions, Value, ValueOrView};
use rten_tensor::prelude::*;
use rten_tensor::Tensor;
use vcommon::onnx::{self, Attr, Graph as OGraph, Node as ONode, Tensor as OTensor, TensorData, ValueInfo};
use vcommon::{Rng, Trace, json};

const ROWS: usize = 4;
const COLS: usize = 6;

fn i64s(name: &str, v: &[i64]) -> OTensor {
    OTensor { name: name.into(), dims: vec![v.len() as i64], data: TensorData::I64(v.to_vec()) }
}

fn f32s(name: &str, dims: &[i64], v: Vec<f32>) -> OTensor {
    OTensor { name: name.into(), dims: dims.to_vec(), data: TensorData::F32(v) }
}

/// One menu entry: the nodes computing `y0` from `t`, the initializers they need, a description.
fn make_op(rng: &mut Rng) -> (String, Vec<ONode>, Vec<OTensor>) {
    let rand_c = |rng: &mut Rng, n: usize| -> Vec<f32> { (0..n).map(|_| rng.range(-3, 4) as f32).collect() };
    match rng.below(16) {
        0 => {
            // Slice over both axes with independent (possibly mixed) steps
            let steps = [*rng.pick(&[1i64, 1, 2, 3, -1]), *rng.pick(&[1i64, 1, 2, 3, -1])];
            let mut starts = vec![];
            let mut ends = vec![];
            for (ax, n) in [(0usize, ROWS as i64), (1usize, COLS as i64)] {
                if steps[ax] > 0 {
                    starts.push(rng.range(0, 2));
                    ends.push(n - rng.range(0, 2));
                } else {
                    starts.push(n - 1 - rng.range(0, 2));
                    ends.push(-(n + 1));
                }
            }
            (
                format!("Slice steps={steps:?} starts={starts:?} ends={ends:?}"),
                vec![ONode::new("Slice", &["t", "starts", "ends", "axes", "steps"], &["y0"])],
                vec![i64s("starts", &starts), i64s("ends", &ends), i64s("axes", &[0, 1]), i64s("steps", &steps)],
            )
        }
        1 => {
            // Slice of one axis, default steps / explicit step
            let ax = rng.below(2) as i64;
            let step = *rng.pick(&[1i64, 2, -1]);
            let (s, e) = if step > 0 { (1, 100) } else { (100, -100) };
            (
                format!("Slice1 axis={ax} step={step}"),
                vec![ONode::new("Slice", &["t", "starts", "ends", "axes", "steps"], &["y0"])],
                vec![i64s("starts", &[s]), i64s("ends", &[e]), i64s("axes", &[ax]), i64s("steps", &[step])],
            )
        }
        2 => {
            // Clip with omitted bounds
            let form = rng.below(4);
            let ins: Vec<&str> = match form {
                0 => vec!["t", "lo", "hi"],
                1 => vec!["t", "lo"],
                2 => vec!["t", "", "hi"],
                _ => vec!["t"],
            };
            (
                format!("Clip form={form}"),
                vec![ONode::new("Clip", &ins, &["y0"])],
                vec![f32s("lo", &[], vec![1.0]), f32s("hi", &[], vec![5.0])],
            )
        }
        3 | 4 => {
            // binary operator with a broadcast constant on either side
            let op = *rng.pick(&["Add", "Sub", "Mul", "Div", "Max", "Min", "Pow"]);
            let dims: Vec<i64> = match rng.below(6) {
                0 => vec![COLS as i64],
                1 => vec![ROWS as i64, 1],
                2 => vec![1],
                3 => vec![ROWS as i64, COLS as i64],
                4 => vec![1, COLS as i64],
                _ => vec![],
            };
            let n: usize = dims.iter().product::<i64>().max(1) as usize;
            let mut c = rand_c(rng, n);
            if op == "Div" || op == "Pow" {
                c = c.iter().map(|v| if *v == 0.0 { 2.0 } else { v.abs().min(3.0) }).collect();
            }
            let first = rng.below(2) == 0 && op != "Pow";
            let ins: Vec<&str> = if first { vec!["c", "t"] } else { vec!["t", "c"] };
            (
                format!("{op} c_dims={dims:?} const_first={first}"),
                vec![ONode::new(op, &ins, &["y0"])],
                vec![f32s("c", &dims, c)],
            )
        }
        5 => {
            // binary operator with a broadcast 3-d constant: the other operand is the larger one
            let op = *rng.pick(&["Add", "Mul", "Sub"]);
            let c = rand_c(rng, 2 * ROWS * COLS);
            (
                format!("{op} with larger 3-d constant"),
                vec![ONode::new(op, &["t", "c"], &["y0"])],
                vec![f32s("c", &[2, ROWS as i64, COLS as i64], c)],
            )
        }
        6 => {
            let op = *rng.pick(&["Neg", "Abs", "Relu", "Sigmoid", "Tanh", "Exp", "Floor", "Ceil", "Round", "Sqrt", "Identity", "Sign"]);
            (op.to_string(), vec![ONode::new(op, &["t"], &["y0"])], vec![])
        }
        7 => {
            let shape: Vec<i64> = match rng.below(4) {
                0 => vec![COLS as i64, ROWS as i64],
                1 => vec![-1],
                2 => vec![2, 2, COLS as i64],
                _ => vec![0, -1],
            };
            (
                format!("Reshape {shape:?}"),
                vec![ONode::new("Reshape", &["t", "shape"], &["y0"])],
                vec![i64s("shape", &shape)],
            )
        }
        8 => {
            let form = rng.below(3);
            let node = match form {
                0 => ONode::new("Flatten", &["t"], &["y0"]).attr("axis", Attr::Int(rng.range(0, 2))),
                1 => ONode::new("Unsqueeze", &["t", "axes"], &["y0"]),
                _ => ONode::new("Transpose", &["t"], &["y0"]).attr("perm", Attr::Ints(vec![1, 0])),
            };
            (format!("layout form={form}"), vec![node], vec![i64s("axes", &[*rng.pick(&[0i64, 1, 2, -1])])])
        }
        9 => {
            let axis = *rng.pick(&[0i64, 1, -1]);
            let op = *rng.pick(&["Softmax", "LogSoftmax"]);
            (format!("{op} axis={axis}"), vec![ONode::new(op, &["t"], &["y0"]).attr("axis", Attr::Int(axis))], vec![])
        }
        10 => {
            // Where with a constant condition; t on either branch
            let cond: Vec<bool> = (0..COLS).map(|_| rng.below(2) == 0).collect();
            let first = rng.below(2) == 0;
            let ins: Vec<&str> = if first { vec!["cond", "t", "c"] } else { vec!["cond", "c", "t"] };
            (
                format!("Where t_first={first}"),
                vec![ONode::new("Where", &ins, &["y0"])],
                vec![
                    OTensor { name: "cond".into(), dims: vec![COLS as i64], data: TensorData::Bool(cond) },
                    f32s("c", &[ROWS as i64, 1], rand_c(rng, ROWS)),
                ],
            )
        }
        11 => {
            let to = *rng.pick(&[onnx::INT32, onnx::FLOAT]);
            (
                format!("Cast to={to}"),
                vec![
                    ONode::new("Cast", &["t"], &["ci"]).attr("to", Attr::Int(to as i64)),
                    ONode::new("Cast", &["ci"], &["y0"]).attr("to", Attr::Int(onnx::FLOAT as i64)),
                ],
                vec![],
            )
        }
        12 => {
            let axis = rng.below(2) as i64;
            let first = rng.below(2) == 0;
            let dims: Vec<i64> = if axis == 0 { vec![2, COLS as i64] } else { vec![ROWS as i64, 3] };
            let n = dims.iter().product::<i64>() as usize;
            let ins: Vec<&str> = if first { vec!["t", "c"] } else { vec!["c", "t"] };
            (
                format!("Concat axis={axis} t_first={first}"),
                vec![ONode::new("Concat", &ins, &["y0"]).attr("axis", Attr::Int(axis))],
                vec![f32s("c", &dims, rand_c(rng, n))],
            )
        }
        13 => {
            let pads: Vec<i64> = (0..4).map(|_| rng.range(0, 2)).collect();
            (format!("Pad {pads:?}"), vec![ONode::new("Pad", &["t", "pads"], &["y0"])], vec![i64s("pads", &pads)])
        }
        14 => {
            let axes = *rng.pick(&[0i64, 1, -1]);
            let op = *rng.pick(&["ReduceSum", "ReduceMax", "ReduceMean"]);
            let keep = rng.below(2) as i64;
            (
                format!("{op} axes={axes} keepdims={keep}"),
                vec![ONode::new(op, &["t", "axes"], &["y0"]).attr("keepdims", Attr::Int(keep))],
                vec![i64s("axes", &[axes])],
            )
        }
        _ => {
            // two consumers of t: one in-place capable, one not; y0 = Add(Neg(t), Slice(t))
            (
                "two consumers".to_string(),
                vec![
                    ONode::new("Neg", &["t"], &["n1"]),
                    ONode::new("Slice", &["t", "starts", "ends", "axes", "steps"], &["s1"]),
                    ONode::new("Add", &["n1", "s1"], &["y0"]),
                ],
                vec![i64s("starts", &[0]), i64s("ends", &[1]), i64s("axes", &[0]), i64s("steps", &[1])],
            )
        }
    }
}

fn conv(v: &Value) -> serde_json::Value {
    match v {
        Value::FloatTensor(t) => json!({"shape": t.shape().to_vec(), "dt": "f32", "bits": t.iter().map(|f| f.to_bits() as i32).collect::<Vec<i32>>()}),
        Value::Int32Tensor(t) => json!({"shape": t.shape().to_vec(), "dt": "i32", "bits": t.iter().copied().collect::<Vec<i32>>()}),
        _ => json!({"shape": [], "dt": "other", "bits": []}),
    }
}

/// `vh-graph exec-realops --cases N --out TRACE`
pub fn main_realops() {
    let n = vcommon::arg_usize("--cases", 200);
    let out = vcommon::arg("--out").expect("--out");
    vcommon::quiet_panics();
    let mut tr = Trace::create(&out);
    let mut rng = Rng::from_env();
    for ci in 0..n {
        let (desc, nodes, inits) = make_op(&mut rng);
        let opname = desc.split(' ').next().unwrap_or("").to_string();
        let mut g = OGraph::default();
        g.inputs = vec![ValueInfo::fixed("x", onnx::FLOAT, &[ROWS as i64, COLS as i64])];
        g.nodes = vec![ONode::new("Relu", &["x"], &["t"])];
        g.nodes.extend(nodes);
        g.nodes.push(ONode::new("Neg", &["y0"], &["y"]));
        g.initializers = inits;
        g.outputs = ["y", "y0", "t"].iter().map(|o| ValueInfo::new(o, onnx::FLOAT, None)).collect();
        let bytes = g.to_model();
        let x: Vec<i32> = (0..ROWS * COLS).map(|_| rng.range(-4, 9) as i32).collect();
        tr.emit(json!({"ev": "rcase", "case": ci, "op": opname, "desc": desc, "x": x}));
        // (strategy, optimise, outputs, owned, threads, pool)
        let strategies: Vec<(&str, bool, Vec<&str>, bool, usize, bool)> = vec![
            ("owned_only_y", false, vec!["y"], true, 0, true),
            ("borrowed_only_y", false, vec!["y"], false, 0, true),
            ("owned_y_t", false, vec!["y", "t"], true, 0, true),
            ("owned_y_y0_t", false, vec!["y", "y0", "t"], true, 0, true),
            ("owned_only_y_again", false, vec!["y"], true, 1, true),
            ("owned_only_y_pool_off", false, vec!["y"], true, 4, false),
            ("opt_owned_only_y", true, vec!["y"], true, 0, true),
            ("opt_borrowed_y_t", true, vec!["y", "t"], false, 0, true),
        ];
        let mut models: Vec<Option<rten::Model>> = Vec::new();
        for optimize in [false, true] {
            let mut opts = ModelOptions::with_all_ops();
            opts.enable_optimization(optimize);
            let b = bytes.clone();
            models.push(vcommon::guarded(|| opts.load(b).ok()).ok().flatten());
        }
        for (strategy, optimize, outs, owned, threads, pool) in strategies {
            let model = match &models[optimize as usize] {
                Some(m) => m,
                None => {
                    tr.emit(json!({"ev": "rrun", "strategy": strategy, "optimize": optimize, "outs_req": outs, "kind": "load_err", "outs": [], "input_intact": true, "msg": ""}));
                    continue;
                }
            };
            // SAFETY: single-threaded harness; the executor reads this flag on every run.
            unsafe { std::env::set_var("RTEN_USE_POOL", if pool { "1" } else { "0" }) };
            let res = vcommon::guarded(|| {
                let xt = Tensor::from_data(&[ROWS, COLS], x.iter().map(|v| *v as f32).collect::<Vec<_>>());
                let xid = model.node_id("x").map_err(|e| format!("{e}"))?;
                let inputs: Vec<(rten::NodeId, ValueOrView)> = if owned {
                    vec![(xid, Value::from(xt.clone()).into())]
                } else {
                    vec![(xid, xt.view().into())]
                };
                let ids: Vec<rten::NodeId> = outs.iter().map(|o| model.node_id(o).map_err(|e| format!("{e}"))).collect::<Result<_, _>>()?;
                let ropts = if threads > 0 {
                    Some(RunOptions::default().with_thread_pool(Some(Arc::new(rten::ThreadPool::with_num_threads(threads)))))
                } else {
                    None
                };
                let vals = model.run(inputs, &ids, ropts).map_err(|e| format!("run: {e}"))?;
                // a borrowed input must be unchanged
                let intact = xt.iter().zip(x.iter()).all(|(a, b)| *a == *b as f32);
                Ok::<_, String>((vals.iter().map(conv).collect::<Vec<_>>(), intact))
            });
            unsafe { std::env::set_var("RTEN_USE_POOL", "1") };
            let ev = match res {
                Ok(Ok((vals, intact))) => json!({"ev": "rrun", "strategy": strategy, "optimize": optimize, "outs_req": outs, "kind": "ok", "outs": vals, "input_intact": intact, "msg": ""}),
                Ok(Err(m)) => json!({"ev": "rrun", "strategy": strategy, "optimize": optimize, "outs_req": outs, "kind": "err", "outs": [], "input_intact": true, "msg": m.chars().take(100).collect::<String>()}),
                Err(m) => json!({"ev": "rrun", "strategy": strategy, "optimize": optimize, "outs_req": outs, "kind": "panic", "outs": [], "input_intact": true, "msg": m.chars().take(100).collect::<String>()}),
            };
            tr.emit(ev);
        }
    }
    tr.flush();
    eprintln!("cases={n}");
}
