//! C23 engine: drive a real `BufferPool` from several threads, either
//! replaying TLC-generated schedules (each operation is one critical section;
//! the schedule is a total order of them) or free-running, and record the
//! pool's own events (hook H4, emitted under the pool mutex) interleaved with
//! the holders' events through the same sequenced sink.

use std::io::Write;
use std::sync::mpsc::{Receiver, Sender, channel};
use std::sync::{Arc, Mutex};

use rten::BufferPool;
use rten_base::verif as hook;
use vcommon::{Rng, Value};

enum Held {
    F32(Vec<f32>),
    I32(Vec<i32>),
    U8(Vec<u8>),
    U64(Vec<u64>),
    P32(Vec<[u32; 2]>),
}

impl Held {
    fn ptr(&self) -> usize {
        match self {
            Held::F32(v) => v.as_ptr() as usize,
            Held::I32(v) => v.as_ptr() as usize,
            Held::U8(v) => v.as_ptr() as usize,
            Held::U64(v) => v.as_ptr() as usize,
            Held::P32(v) => v.as_ptr() as usize,
        }
    }
    fn cap(&self) -> usize {
        match self {
            Held::F32(v) => v.capacity(),
            Held::I32(v) => v.capacity(),
            Held::U8(v) => v.capacity(),
            Held::U64(v) => v.capacity(),
            Held::P32(v) => v.capacity(),
        }
    }
    fn esize(&self) -> usize {
        match self {
            Held::F32(_) | Held::I32(_) => 4,
            Held::U8(_) => 1,
            Held::U64(_) | Held::P32(_) => 8,
        }
    }
}

fn ty_info(ty: &str) -> (usize, usize) {
    match ty {
        "f32" | "i32" => (4, 4),
        "u8" => (1, 1),
        "u64" => (8, 8),
        "u32x2" => (8, 4),
        _ => panic!("unknown type {ty}"),
    }
}

fn alloc(pool: &BufferPool, ty: &str, cap: usize) -> Held {
    match ty {
        "f32" => Held::F32(pool.alloc::<f32>(cap)),
        "i32" => Held::I32(pool.alloc::<i32>(cap)),
        "u8" => Held::U8(pool.alloc::<u8>(cap)),
        "u64" => Held::U64(pool.alloc::<u64>(cap)),
        "u32x2" => Held::P32(pool.alloc::<[u32; 2]>(cap)),
        _ => panic!("unknown type {ty}"),
    }
}

fn pid(p: usize) -> (usize, usize) {
    (p % 1_000_000_007, p % 998_244_353)
}

/// Perform `alloc` and log what the holder received (after the call).
fn do_alloc(pool: &BufferPool, ty: &str, cap: usize) -> Held {
    let h = alloc(pool, ty, cap);
    let (es, ea) = ty_info(ty);
    let (p1, p2) = pid(h.ptr());
    let hc = h.cap();
    hook::emit(|| {
        format!(
            r#"{{"ev":"h_alloc","ty":"{ty}","esize":{es},"ealign":{ea},"req":{cap},"ptr":{p1},"ptr2":{p2},"cap":{hc}}}"#
        )
    });
    h
}

/// Log (before the call) and return a buffer to the pool.
fn do_add(pool: &BufferPool, h: Held) {
    let (p1, p2) = pid(h.ptr());
    let (hc, es) = (h.cap(), h.esize());
    hook::emit(|| format!(r#"{{"ev":"h_add","ptr":{p1},"ptr2":{p2},"cap":{hc},"esize":{es}}}"#));
    match h {
        Held::F32(v) => pool.add(v),
        Held::I32(v) => pool.add(v),
        Held::U8(v) => pool.add(v),
        Held::U64(v) => pool.add(v),
        Held::P32(v) => pool.add(v),
    }
}

/// Log (before) and drop a buffer without returning it.
fn do_drop(h: Held) {
    let (p1, p2) = pid(h.ptr());
    let hc = h.cap();
    hook::emit(|| format!(r#"{{"ev":"h_drop","ptr":{p1},"ptr2":{p2},"cap":{hc}}}"#));
    drop(h);
}

enum Cmd {
    Reset(Arc<BufferPool>),
    Alloc(String, usize),
    Add(usize),
    Drop(usize),
    /// Drop everything still held (end of a case).
    Clear,
    Quit,
}

fn worker(tag: u32, rx: Receiver<Cmd>, done: Sender<()>) {
    hook::set_thread_tag(tag);
    let mut pool: Option<Arc<BufferPool>> = None;
    // Held buffers in the order they were obtained (the spec's k counts from 1, oldest first).
    let mut held: Vec<Held> = Vec::new();
    for cmd in rx {
        if matches!(cmd, Cmd::Quit) {
            break;
        }
        let res = vcommon::guarded(|| match cmd {
            Cmd::Reset(p) => {
                pool = Some(p);
            }
            Cmd::Alloc(ty, cap) => {
                let h = do_alloc(pool.as_ref().unwrap(), &ty, cap);
                held.push(h);
            }
            Cmd::Add(k) => {
                if k >= 1 && k <= held.len() {
                    let h = held.remove(k - 1);
                    do_add(pool.as_ref().unwrap(), h);
                }
            }
            Cmd::Drop(k) => {
                if k >= 1 && k <= held.len() {
                    let h = held.remove(k - 1);
                    do_drop(h);
                }
            }
            Cmd::Clear => {
                for h in held.drain(..) {
                    do_drop(h);
                }
                pool = None;
            }
            Cmd::Quit => {}
        });
        if let Err(msg) = res {
            emit_panic(&msg);
        }
        done.send(()).unwrap();
    }
}

/// A pool operation panicked in this thread: an outcome, judged by the trace spec.
fn emit_panic(msg: &str) {
    let m: String = msg.chars().filter(|c| c.is_ascii_alphanumeric() || *c == ' ').take(60).collect();
    hook::emit(|| format!(r#"{{"ev":"h_panic","msg":"{m}"}}"#));
}

pub fn install_sink(out: &str) -> Arc<Mutex<std::io::BufWriter<std::fs::File>>> {
    install_sink_filtered(out, "")
}

/// Like `install_sink`, but events whose text starts with `{"ev":"<skip>` are dropped.
pub fn install_sink_filtered(
    out: &str,
    skip: &'static str,
) -> Arc<Mutex<std::io::BufWriter<std::fs::File>>> {
    let f = std::fs::File::create(out).expect("create trace");
    let w = Arc::new(Mutex::new(std::io::BufWriter::with_capacity(1 << 20, f)));
    let w2 = w.clone();
    let skip_prefix = format!("{{\"ev\":\"{skip}");
    hook::set_sink(Some(Box::new(move |seq, tag, text| {
        if !skip.is_empty() && text.starts_with(&skip_prefix) {
            return;
        }
        // text is a JSON object `{...}`; splice seq and thread tag in.
        let mut g = w2.lock().unwrap();
        let _ = write!(g, "{{\"seq\":{seq},\"t\":{tag},{}\n", &text[1..]);
    })));
    w
}

/// `vh-graph pool --hist FILE --out TRACE`: replay TLC-generated schedules.
///
/// Note on `k`: the spec's `Add(t, b)`/`Drop(t, b)` log k = rank of b among the
/// ids held by t; ids grow with creation time. The worker keeps buffers in the
/// order it obtained them, which differs from id order only when a pooled
/// (older) buffer is re-acquired; either is a legal choice of "some held
/// buffer", and the trace spec follows the pointers that were really used.
pub fn main_pool() {
    let hist_file = vcommon::arg("--hist").expect("--hist");
    let out = vcommon::arg("--out").expect("--out");
    let min_size = vcommon::arg_usize("--min-size", 128);
    let histories = vcommon::read_json_lines(&hist_file);
    let w = install_sink(&out);
    hook::set_thread_tag(0);
    let nthreads = 3usize;
    let mut txs = Vec::new();
    let (done_tx, done_rx) = channel();
    let mut handles = Vec::new();
    for t in 1..=nthreads {
        let (tx, rx) = channel();
        txs.push(tx);
        let d = done_tx.clone();
        handles.push(std::thread::spawn(move || worker(t as u32, rx, d)));
    }
    let send = |t: usize, cmd: Cmd| {
        txs[t - 1].send(cmd).unwrap();
        done_rx.recv().unwrap();
    };
    for (ci, h) in histories.iter().enumerate() {
        let pool = Arc::new(BufferPool::new().with_min_size(min_size));
        hook::emit(|| format!(r#"{{"ev":"case","case":{ci},"minsize":{min_size},"mode":"replay"}}"#));
        for t in 1..=nthreads {
            send(t, Cmd::Reset(pool.clone()));
        }
        for op in h.as_array().unwrap() {
            let t = op["t"].as_u64().unwrap() as usize;
            match op["op"].as_str().unwrap() {
                "alloc" => send(
                    t,
                    Cmd::Alloc(
                        op["ty"].as_str().unwrap().to_string(),
                        op["cap"].as_u64().unwrap() as usize,
                    ),
                ),
                "add" => send(t, Cmd::Add(op["k"].as_u64().unwrap() as usize)),
                "drop" => send(t, Cmd::Drop(op["k"].as_u64().unwrap() as usize)),
                _ => panic!("unknown op"),
            }
        }
        for t in 1..=nthreads {
            send(t, Cmd::Clear);
        }
        hook::emit(|| r#"{"ev":"pool_drop"}"#.to_string());
        drop(pool);
        hook::emit(|| r#"{"ev":"end"}"#.to_string());
    }
    for t in 1..=nthreads {
        txs[t - 1].send(Cmd::Quit).unwrap();
    }
    for h in handles {
        h.join().unwrap();
    }
    hook::set_sink(None);
    w.lock().unwrap().flush().unwrap();
    eprintln!("cases={}", histories.len());
}

/// `vh-graph pool-stress --out TRACE --cases N --threads T --ops K`:
/// free-running threads; the order of events is the order of the critical sections.
pub fn main_pool_stress() {
    let out = vcommon::arg("--out").expect("--out");
    let ncases = vcommon::arg_usize("--cases", 50);
    let nthreads = vcommon::arg_usize("--threads", 3);
    let nops = vcommon::arg_usize("--ops", 40);
    let w = install_sink(&out);
    hook::set_thread_tag(0);
    let mut rng = Rng::from_env();
    for ci in 0..ncases {
        let min_size = *rng.pick(&[0usize, 64, 128, 128, 256]);
        let pool = Arc::new(BufferPool::new().with_min_size(min_size));
        hook::emit(|| format!(r#"{{"ev":"case","case":{ci},"minsize":{min_size},"mode":"stress"}}"#));
        let mut handles = Vec::new();
        for t in 1..=nthreads {
            let pool = pool.clone();
            let seed = rng.next_u64();
            handles.push(std::thread::spawn(move || {
                hook::set_thread_tag(t as u32);
                let res = vcommon::guarded(move || {
                let mut rng = Rng::new(seed);
                let mut held: Vec<Held> = Vec::new();
                for _ in 0..nops {
                    let r = rng.below(10);
                    if held.is_empty() || r < 5 {
                        let ty = *rng.pick(&["f32", "i32", "u8", "u64", "u32x2"]);
                        let cap = *rng.pick(&[1usize, 8, 15, 16, 17, 31, 32, 33, 64, 100, 128, 129, 512]);
                        held.push(do_alloc(&pool, ty, cap));
                    } else if r < 9 {
                        let k = rng.below(held.len());
                        do_add(&pool, held.remove(k));
                    } else {
                        let k = rng.below(held.len());
                        do_drop(held.remove(k));
                    }
                    if rng.chance(1, 4) {
                        std::thread::yield_now();
                    }
                }
                for h in held.drain(..) {
                    if rng.chance(1, 2) {
                        do_add(&pool, h);
                    } else {
                        do_drop(h);
                    }
                }
                });
                if let Err(msg) = res {
                    emit_panic(&msg);
                }
            }));
        }
        for h in handles {
            let _ = h.join();
        }
        hook::emit(|| r#"{"ev":"pool_drop"}"#.to_string());
        let _ = vcommon::guarded(move || drop(pool));
        hook::emit(|| r#"{"ev":"end"}"#.to_string());
    }
    hook::set_sink(None);
    w.lock().unwrap().flush().unwrap();
    eprintln!("cases={ncases}");
}

/// `vh-graph pool-race --out TRACE --cases N --rounds R`
///
/// Free-running contention without the event sink (the sink serialises the threads and narrows every
/// race window): T threads hammer one pool that is pre-filled with interleaved small and large buffers
/// of two element layouts.  Each round allocates, checks the capacity, writes a thread-unique pattern,
/// yields, verifies the pattern (exclusive ownership: nobody else was handed the same memory) and gives
/// the buffer back.  The outcome of a case is a handful of counters judged by Trace_PoolRace.tla.
pub fn main_pool_race() {
    use std::sync::atomic::{AtomicBool, AtomicUsize, Ordering};
    let out = vcommon::arg("--out").expect("--out");
    let ncases = vcommon::arg_usize("--cases", 6);
    let rounds = vcommon::arg_usize("--rounds", 60_000);
    vcommon::quiet_panics();
    let mut tr = vcommon::Trace::create(&out);
    let mut rng = Rng::from_env();
    for ci in 0..ncases {
        let nthreads = *rng.pick(&[2usize, 4, 4, 8]);
        let pool = Arc::new(BufferPool::new());
        // interleaved small / large buffers of 4- and 8-byte element layouts
        for i in 0..24 {
            let cap = if i % 2 == 0 { 64 } else { 1024 };
            if i % 4 < 2 {
                pool.add(Vec::<f32>::with_capacity(cap));
            } else {
                pool.add(Vec::<u64>::with_capacity(cap));
            }
        }
        let too_small = Arc::new(AtomicUsize::new(0));
        let corrupted = Arc::new(AtomicUsize::new(0));
        let done_rounds = Arc::new(AtomicUsize::new(0));
        let stop = Arc::new(AtomicBool::new(false));
        let mut handles = Vec::new();
        for t in 0..nthreads {
            let (pool, too_small, corrupted, done_rounds, stop) =
                (pool.clone(), too_small.clone(), corrupted.clone(), done_rounds.clone(), stop.clone());
            let seed = rng.next_u64();
            handles.push(std::thread::spawn(move || {
                let stop2 = stop.clone();
                vcommon::guarded(move || {
                    let mut rng = Rng::new(seed);
                    for r in 0..rounds {
                        if stop.load(Ordering::Relaxed) {
                            break;
                        }
                        let cap = *rng.pick(&[16usize, 64, 65, 512, 1024]);
                        let tag = ((t as u32) << 24) | (r as u32 & 0xff_ffff);
                        macro_rules! round {
                            ($ty:ty, $val:expr) => {{
                                let mut v = pool.alloc::<$ty>(cap);
                                if v.capacity() < cap {
                                    too_small.fetch_add(1, Ordering::Relaxed);
                                } else {
                                    v.clear();
                                    v.resize(cap, $val);
                                    if rng.chance(1, 3) {
                                        std::thread::yield_now();
                                    }
                                    if v.iter().any(|x| *x != $val) {
                                        corrupted.fetch_add(1, Ordering::Relaxed);
                                    }
                                }
                                if rng.chance(7, 8) {
                                    pool.add(v);
                                }
                            }};
                        }
                        match rng.below(3) {
                            0 => round!(f32, f32::from_bits(tag & 0x3fff_ffff)),
                            1 => round!(u64, tag as u64),
                            _ => round!(i32, tag as i32),
                        }
                        done_rounds.fetch_add(1, Ordering::Relaxed);
                    }
                })
                .map_err(|m| {
                    stop2.store(true, Ordering::Relaxed);
                    m
                })
            }));
        }
        let mut panics = 0;
        let mut msg = String::new();
        for h in handles {
            match h.join() {
                Ok(Ok(())) => {}
                Ok(Err(m)) => {
                    panics += 1;
                    if msg.is_empty() {
                        msg = m.chars().take(80).collect();
                    }
                }
                Err(_) => panics += 1,
            }
        }
        tr.emit(vcommon::json!({"ev": "race_case", "case": ci, "threads": nthreads, "rounds": rounds,
            "done": done_rounds.load(Ordering::Relaxed), "too_small": too_small.load(Ordering::Relaxed),
            "corrupted": corrupted.load(Ordering::Relaxed), "panics": panics, "msg": msg}));
    }
    tr.flush();
    eprintln!("cases={ncases}");
}

#[allow(dead_code)]
fn unused(_: Value) {}
