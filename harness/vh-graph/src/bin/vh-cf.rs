//! vh-cf: C24 engine "control-flow subgraphs behave like the equivalent inlined graph".
//!
//! `vh-cf gen --out TRACE --cases N [--first-idx K] [--deep] [--only-idx I] [--dump DIR]`
//!   For every case (derived from VERIF_SEED and the case index only) a program with nested
//!   If / Loop operators is generated, encoded as an ONNX model, loaded by rten with graph
//!   optimisation on and off and run with owned and with borrowed inputs on 1..3 input sets
//!   (same loaded model, so plan caches of subgraphs are reused; other branch / other trip
//!   count / other requested outputs).  For every input set the harness also builds the
//!   INLINED model (branch selected, loops unrolled) and runs it with the real code.
//!   Nothing is judged here: Trace_ControlFlow.tla evaluates the program (ONNX If/Loop
//!   semantics over OnnxOps) and compares.
//! `vh-cf repro` prints minimal reproductions of the defects found through this engine.
//! `vh-cf mixers --programs FILE --out TRACE` replays the TLC-enumerated design family (see vh_cf/mixers.rs).
//!
//! Trace records (fixed field sets), two per case:
//!  {"ev":"case","idx","id","st":false (true = copy corrupted by the engine's binding self-test),"tags":[..],"prog":G,"runs":[{"inputs":[{"name","t"}],"req":[{"name","role"}]}]}
//!  {"ev":"res","idx","id","kind":"done|timeout|abort|panic","load":[{"model","opt","outcome","msg"}],
//!   "runs":[[{"variant","model","opt","owned","outcome","msg","outs":[{"p","shape","dtype","data","nonint"}]}]]}

#[path = "vh_cf/gen.rs"]
mod cfgen;
#[path = "vh_cf/inline.rs"]
mod inline;
#[path = "vh_cf/mixers.rs"]
mod mixers;
#[path = "vh_cf/prog.rs"]
mod prog;
#[path = "vh_cf/repro.rs"]
mod repro;

use rten::{Model, ModelOptions, Value, ValueOrView};
use rten_tensor::prelude::*;
use vcommon::{Trace, Value as J, arg, arg_usize, guarded, json, quiet_panics, seed_from_env};

use prog::T;

fn trunc(s: &str) -> String {
    s.chars().filter(|c| c.is_ascii() && !c.is_ascii_control() && *c != '"' && *c != '\\').take(160).collect()
}

pub fn out_json(v: &Value) -> J {
    fn ints<I: Iterator<Item = i64>>(shape: &[usize], dt: &str, it: I) -> J {
        json!({"p": true, "shape": shape, "dtype": dt, "data": it.collect::<Vec<i64>>(), "nonint": 0})
    }
    match v {
        Value::FloatTensor(t) => {
            let mut nonint = 0;
            let data: Vec<i64> = t
                .iter()
                .map(|x| {
                    if x.is_finite() && x.fract() == 0.0 && x.abs() < (1u64 << 30) as f32 {
                        *x as i64
                    } else {
                        nonint += 1;
                        0
                    }
                })
                .collect();
            json!({"p": true, "shape": t.shape(), "dtype": "f32", "data": data, "nonint": nonint})
        }
        Value::Int32Tensor(t) => ints(t.shape(), "i32", t.iter().map(|x| *x as i64)),
        Value::Int8Tensor(t) => ints(t.shape(), "i8", t.iter().map(|x| *x as i64)),
        Value::UInt8Tensor(t) => ints(t.shape(), "u8", t.iter().map(|x| *x as i64)),
        _ => json!({"p": true, "shape": [], "dtype": "unknown", "data": [], "nonint": 0}),
    }
}

/// Coarse class of an error / panic message (part of finding signatures only).
fn mclass(outcome: &str, msg: &str) -> &'static str {
    if outcome == "ok" {
        "none"
    } else if msg.contains("output mismatch") {
        "output_mismatch"
    } else if msg.contains("Outputs are not unique") {
        "outputs_not_unique"
    } else if msg.contains("Invalid plan did not produce input value") {
        "invalid_plan_missing_input"
    } else if msg.contains("missing output value") {
        "missing_output_value"
    } else if msg.contains("Missing input") {
        "missing_input"
    } else {
        "other"
    }
}

fn absent_json() -> J {
    json!({"p": false, "shape": [], "dtype": "none", "data": [], "nonint": 0})
}

pub enum Loaded {
    Ok(Model),
    Fail(&'static str, String, &'static str),
}

pub fn load(bytes: Vec<u8>, opt: bool) -> Loaded {
    match guarded(|| {
        let mut o = ModelOptions::with_all_ops();
        o.enable_optimization(opt);
        o.load(bytes)
    }) {
        Ok(Ok(m)) => Loaded::Ok(m),
        Ok(Err(e)) => Loaded::Fail("loaderr", trunc(&e.to_string()), mclass("loaderr", &e.to_string())),
        Err(msg) => Loaded::Fail("loadpanic", trunc(&msg), mclass("loadpanic", &msg)),
    }
}

/// Run a loaded model; `skip` = requested names that do not exist in this model.
pub fn run_model(m: &Loaded, inputs: &[(String, T)], req: &[String], skip: &[String], owned: bool) -> (String, String, Vec<J>, &'static str) {
    let model = match m {
        Loaded::Ok(m) => m,
        Loaded::Fail(kind, msg, mc) => return (kind.to_string(), msg.clone(), vec![], *mc),
    };
    let values: Vec<(String, Value)> = inputs.iter().map(|(n, t)| (n.clone(), t.to_value())).collect();
    let r = guarded(|| -> Result<Vec<Value>, String> {
        let mut ins: Vec<(rten::NodeId, ValueOrView)> = Vec::new();
        for (n, v) in &values {
            let id = model.node_id(n).map_err(|e| format!("input {n}: {e}"))?;
            if owned {
                ins.push((id, v.clone().into()));
            } else {
                ins.push((id, v.into()));
            }
        }
        let mut outs = Vec::new();
        for n in req {
            if skip.contains(n) {
                continue;
            }
            outs.push(model.node_id(n).map_err(|e| format!("output {n}: {e}"))?);
        }
        model.run(ins, &outs, None).map_err(|e| e.to_string())
    });
    match r {
        Ok(Ok(vals)) => {
            let mut it = vals.iter();
            let outs = req
                .iter()
                .map(|n| if skip.contains(n) { absent_json() } else { out_json(it.next().unwrap()) })
                .collect();
            ("ok".into(), String::new(), outs, "none")
        }
        Ok(Err(msg)) => ("err".into(), trunc(&msg), vec![], mclass("err", &msg)),
        Err(msg) => ("panic".into(), trunc(&msg), vec![], mclass("panic", &msg)),
    }
}

fn load_json(model: &str, opt: bool, l: &Loaded) -> J {
    match l {
        Loaded::Ok(_) => json!({"model": model, "opt": opt, "outcome": "ok", "mclass": "none", "msg": ""}),
        Loaded::Fail(k, m, mc) => json!({"model": model, "opt": opt, "outcome": k, "mclass": mc, "msg": m}),
    }
}

fn case_json(idx: usize, id: usize, c: &cfgen::Case) -> J {
    json!({
        "ev": "case", "idx": idx, "id": id, "st": false, "tags": c.tags, "prog": c.prog.json(),
        "runs": c.runs.iter().map(|r| json!({
            "inputs": r.inputs.iter().map(|(n, t)| json!({"name": n, "t": t.json()})).collect::<Vec<_>>(),
            "req": r.outs_req.iter().map(|(n, role)| json!({"name": n, "role": role})).collect::<Vec<_>>(),
        })).collect::<Vec<_>>(),
    })
}

fn run_case(idx: usize, id: usize, c: &cfgen::Case, dump: Option<&str>) -> J {
    let bytes = c.prog.to_model();
    if let Some(dir) = dump {
        std::fs::create_dir_all(dir).unwrap();
        std::fs::write(format!("{dir}/case{id}_cf.onnx"), &bytes).unwrap();
        std::fs::write(format!("{dir}/case{id}_prog.json"), serde_json::to_string_pretty(&c.prog.json()).unwrap()).unwrap();
    }
    let cf_opt = load(bytes.clone(), true);
    let cf_noopt = load(bytes, false);
    let load_recs = vec![load_json("cf", true, &cf_opt), load_json("cf", false, &cf_noopt)];
    let mut runs = Vec::new();
    for (k, r) in c.runs.iter().enumerate() {
        let req: Vec<String> = r.outs_req.iter().map(|(n, _)| n.clone()).collect();
        let mut res = Vec::new();
        let mut push = |variant: &str, model: &str, opt: bool, owned: bool, out: (String, String, Vec<J>, &str)| {
            res.push(json!({"variant": variant, "model": model, "opt": opt, "owned": owned,
                            "outcome": out.0, "mclass": out.3, "msg": out.1, "outs": out.2}));
        };
        push("cf_opt_owned", "cf", true, true, run_model(&cf_opt, &r.inputs, &req, &[], true));
        push("cf_opt_borrowed", "cf", true, false, run_model(&cf_opt, &r.inputs, &req, &[], false));
        push("cf_noopt_owned", "cf", false, true, run_model(&cf_noopt, &r.inputs, &req, &[], true));
        push("cf_noopt_borrowed", "cf", false, false, run_model(&cf_noopt, &r.inputs, &req, &[], false));
        match inline::inline(&c.prog, &r.inputs) {
            Ok(flat) => {
                let fb = flat.graph.to_model();
                if let Some(dir) = dump {
                    std::fs::write(format!("{dir}/case{id}_run{k}_inlined.onnx"), &fb).unwrap();
                    std::fs::write(format!("{dir}/case{id}_run{k}_inlined.json"), serde_json::to_string_pretty(&flat.graph.json()).unwrap()).unwrap();
                }
                let skip: Vec<String> = flat.absent.iter().cloned().collect();
                let m0 = load(fb.clone(), false);
                push("inl_noopt", "inl", false, true, run_model(&m0, &r.inputs, &req, &skip, true));
                let m1 = load(fb, true);
                push("inl_opt", "inl", true, false, run_model(&m1, &r.inputs, &req, &skip, false));
            }
            Err(e) => {
                // cannot happen for generated cases (the generator validates); kept total
                push("inl_noopt", "inl", false, true, ("noinline".into(), trunc(&e), vec![], "other"));
                push("inl_opt", "inl", true, false, ("noinline".into(), trunc(&e), vec![], "other"));
            }
        }
        runs.push(J::Array(res));
    }
    json!({"ev": "res", "idx": idx, "id": id, "kind": "done", "load": load_recs, "runs": runs})
}

fn main_gen() {
    let out = arg("--out").expect("--out");
    let n = arg_usize("--cases", 100);
    let first = arg_usize("--first-idx", 0);
    let deep = std::env::args().any(|a| a == "--deep");
    let seed = seed_from_env();
    let dump = arg("--dump");
    if let Some(only) = arg("--only-idx") {
        let id: usize = only.parse().expect("--only-idx");
        quiet_panics();
        let c = cfgen::gen_case(seed, id, deep);
        let mut tr = Trace::create(&out);
        tr.emit(case_json(0, id, &c));
        tr.flush();
        tr.emit(run_case(0, id, &c, dump.as_deref()));
        tr.flush();
        return;
    }
    if let Some(from) = arg("--child-from") {
        let from: usize = from.parse().unwrap();
        let to = arg_usize("--child-to", n);
        quiet_panics();
        let mut tr = Trace::create(&out);
        for i in from..to {
            let c = cfgen::gen_case(seed, first + i, deep);
            tr.emit(case_json(i, first + i, &c));
            tr.flush();
            tr.emit(run_case(i, first + i, &c, None));
            tr.flush();
        }
        return;
    }
    let mut args: Vec<String> = vec!["gen".into(), "--cases".into(), n.to_string(), "--first-idx".into(), first.to_string()];
    if deep {
        args.push("--deep".into());
    }
    let outcome = |kind: &str, seq: u64| json!({"ev": "res", "idx": 0, "id": 0, "kind": kind, "load": [], "runs": [], "seq": seq});
    vcommon::run_chunked(&out, &args, n, 0, 30_000, &outcome);
    eprintln!("cases={n}");
}

fn main_stats() {
    // generator statistics (no model is run): tag frequencies, rejects, sizes
    let n = arg_usize("--cases", 1000);
    let first = arg_usize("--first-idx", 0);
    let deep = std::env::args().any(|a| a == "--deep");
    let seed = seed_from_env();
    let mut tags: std::collections::BTreeMap<String, usize> = Default::default();
    let (mut rejects, mut size, mut runs) = (0, 0, 0);
    for i in 0..n {
        let c = cfgen::gen_case(seed, first + i, deep);
        rejects += c.rejects;
        size += c.prog.size();
        runs += c.runs.len();
        for t in c.tags {
            *tags.entry(t).or_default() += 1;
        }
    }
    println!("cases={n} rejects={rejects} avg_nodes={:.1} runs={runs}", size as f64 / n as f64);
    for (t, k) in tags {
        println!("{k:6} {t}");
    }
}

fn main() {
    let cmd = std::env::args().nth(1).unwrap_or_default();
    match cmd.as_str() {
        "gen" => main_gen(),
        "stats" => main_stats(),
        "repro" => repro::main_repro(),
        "mixers" => mixers::main_mixers(),
        _ => {
            eprintln!("usage: vh-cf <gen|stats|repro|mixers> [options]");
            std::process::exit(2);
        }
    }
}
