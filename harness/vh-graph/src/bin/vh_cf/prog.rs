//! Program representation for the C24 engine: ONNX graphs with nested If / Loop
//! subgraphs over integer-valued tensors, their JSON form (what the trace spec
//! evaluates) and their ONNX encoding.

use vcommon::onnx::{self, Attr, TensorData, ValueInfo};
use vcommon::{Value as J, json};

#[derive(Clone, Copy, PartialEq, Eq, Debug)]
pub enum Dt {
    F32,
    I32,
}

impl Dt {
    pub fn name(self) -> &'static str {
        match self {
            Dt::F32 => "f32",
            Dt::I32 => "i32",
        }
    }
    /// Default ONNX element type of data tensors of this run-time type.
    pub fn onnx(self) -> i32 {
        match self {
            Dt::F32 => onnx::FLOAT,
            Dt::I32 => onnx::INT32,
        }
    }
}

/// Integer-valued tensor. `ot` is the ONNX element type declared in the model
/// (INT64 and BOOL are i32 at run time in rten).
#[derive(Clone, Debug, PartialEq)]
pub struct T {
    pub shape: Vec<usize>,
    pub dt: Dt,
    pub ot: i32,
    pub data: Vec<i64>,
}

impl T {
    pub fn new(shape: Vec<usize>, dt: Dt, data: Vec<i64>) -> T {
        assert_eq!(shape.iter().product::<usize>(), data.len());
        T {
            shape,
            dt,
            ot: dt.onnx(),
            data,
        }
    }
    pub fn scalar_i64(v: i64) -> T {
        T {
            shape: vec![],
            dt: Dt::I32,
            ot: onnx::INT64,
            data: vec![v],
        }
    }
    pub fn scalar_bool(v: bool) -> T {
        T {
            shape: vec![],
            dt: Dt::I32,
            ot: onnx::BOOL,
            data: vec![v as i64],
        }
    }
    pub fn i64s(v: Vec<i64>) -> T {
        T {
            shape: vec![v.len()],
            dt: Dt::I32,
            ot: onnx::INT64,
            data: v,
        }
    }
    pub fn json(&self) -> J {
        json!({"shape": self.shape, "dtype": self.dt.name(), "data": self.data})
    }
    pub fn to_onnx(&self, name: &str) -> onnx::Tensor {
        let data = match self.ot {
            onnx::FLOAT => TensorData::F32(self.data.iter().map(|v| *v as f32).collect()),
            onnx::INT32 => TensorData::I32(self.data.iter().map(|v| *v as i32).collect()),
            onnx::INT64 => TensorData::I64(self.data.clone()),
            onnx::BOOL => TensorData::Bool(self.data.iter().map(|v| *v != 0).collect()),
            other => panic!("unsupported onnx type {other}"),
        };
        onnx::Tensor {
            name: name.to_string(),
            dims: self.shape.iter().map(|d| *d as i64).collect(),
            data,
        }
    }
    pub fn to_value(&self) -> rten::Value {
        use rten_tensor::Tensor;
        let sh = self.shape.as_slice();
        match self.dt {
            Dt::F32 => Tensor::from_data(sh, self.data.iter().map(|v| *v as f32).collect::<Vec<_>>()).into(),
            Dt::I32 => Tensor::from_data(sh, self.data.iter().map(|v| *v as i32).collect::<Vec<_>>()).into(),
        }
    }
}

#[derive(Clone, Debug)]
pub enum AttrV {
    Int(i64),
}

#[derive(Clone, Debug)]
pub struct Node {
    pub op: String,
    /// "" = omitted optional input
    pub ins: Vec<String>,
    pub outs: Vec<String>,
    pub attrs: Vec<(String, AttrV)>,
    /// If: then_branch, Loop: body
    pub g1: Option<Box<Graph>>,
    /// If: else_branch
    pub g2: Option<Box<Graph>>,
}

impl Node {
    pub fn plain(op: &str, ins: &[&str], outs: &[&str]) -> Node {
        Node {
            op: op.to_string(),
            ins: ins.iter().map(|s| s.to_string()).collect(),
            outs: outs.iter().map(|s| s.to_string()).collect(),
            attrs: vec![],
            g1: None,
            g2: None,
        }
    }
    pub fn attr_int(mut self, name: &str, v: i64) -> Node {
        self.attrs.push((name.to_string(), AttrV::Int(v)));
        self
    }
}

/// A constant of a graph: an initializer or (as_node) a `Constant` operator.
#[derive(Clone, Debug)]
pub struct Init {
    pub name: String,
    pub t: T,
    pub as_node: bool,
}

/// Graph input / output declaration.
#[derive(Clone, Debug)]
pub struct Port {
    pub name: String,
    pub ot: i32,
    pub shape: Option<Vec<usize>>,
}

#[derive(Clone, Debug, Default)]
pub struct Graph {
    pub ins: Vec<Port>,
    pub inits: Vec<Init>,
    pub nodes: Vec<Node>,
    pub outs: Vec<Port>,
}

impl Graph {
    /// JSON form evaluated by Trace_ControlFlow.tla (fixed field sets).
    pub fn json(&self) -> J {
        let sub = |g: &Option<Box<Graph>>| match g {
            Some(g) => g.json(),
            None => json!(0),
        };
        json!({
            "ins": self.ins.iter().map(|p| p.name.clone()).collect::<Vec<_>>(),
            "inits": self.inits.iter().map(|i| json!({"name": i.name, "t": i.t.json(), "node": i.as_node})).collect::<Vec<_>>(),
            "nodes": self.nodes.iter().map(|n| {
                let mut attrs = serde_json::Map::new();
                attrs.insert("_".into(), json!([]));
                for (k, v) in &n.attrs {
                    match v {
                        AttrV::Int(i) => { attrs.insert(k.clone(), json!([i])); }
                    }
                }
                json!({"op": n.op, "ins": n.ins, "outs": n.outs, "attrs": J::Object(attrs), "g1": sub(&n.g1), "g2": sub(&n.g2)})
            }).collect::<Vec<_>>(),
            "outs": self.outs.iter().map(|p| p.name.clone()).collect::<Vec<_>>(),
        })
    }

    pub fn to_onnx(&self, name: &str) -> onnx::Graph {
        let vi = |p: &Port| match &p.shape {
            Some(s) => ValueInfo::fixed(&p.name, p.ot, &s.iter().map(|d| *d as i64).collect::<Vec<_>>()),
            None => ValueInfo::new(&p.name, p.ot, None),
        };
        let mut g = onnx::Graph {
            name: name.to_string(),
            ..Default::default()
        };
        g.inputs = self.ins.iter().map(vi).collect();
        g.outputs = self.outs.iter().map(vi).collect();
        for i in &self.inits {
            if i.as_node {
                g.nodes.push(
                    onnx::Node::new("Constant", &[], &[i.name.as_str()]).attr("value", Attr::Tensor(i.t.to_onnx(""))),
                );
            } else {
                g.initializers.push(i.t.to_onnx(&i.name));
            }
        }
        for n in &self.nodes {
            let ins: Vec<&str> = n.ins.iter().map(|s| s.as_str()).collect();
            let outs: Vec<&str> = n.outs.iter().map(|s| s.as_str()).collect();
            let mut on = onnx::Node::new(&n.op, &ins, &outs);
            for (k, v) in &n.attrs {
                match v {
                    AttrV::Int(i) => on = on.attr(k, Attr::Int(*i)),
                }
            }
            match n.op.as_str() {
                "If" => {
                    on = on
                        .attr("then_branch", Attr::Graph(n.g1.as_ref().unwrap().to_onnx(&format!("then_{}", n.outs[0]))))
                        .attr("else_branch", Attr::Graph(n.g2.as_ref().unwrap().to_onnx(&format!("else_{}", n.outs[0]))));
                }
                "Loop" => {
                    let tag = n.outs.first().cloned().unwrap_or_else(|| format!("n{}", g.nodes.len()));
                    on.name = format!("Loop_{tag}");
                    on = on.attr("body", Attr::Graph(n.g1.as_ref().unwrap().to_onnx(&format!("body_{tag}"))));
                }
                _ => {}
            }
            g.nodes.push(on);
        }
        g
    }

    pub fn to_model(&self) -> Vec<u8> {
        self.to_onnx("main").to_model()
    }

    /// Number of operator nodes including subgraphs.
    pub fn size(&self) -> usize {
        self.nodes
            .iter()
            .map(|n| 1 + n.g1.as_ref().map_or(0, |g| g.size()) + n.g2.as_ref().map_or(0, |g| g.size()))
            .sum()
    }
}
