//! Inliner: turns a program with If / Loop nodes into the equivalent flat graph
//! for ONE input set: the branch of every If is selected by the statically
//! known condition, every Loop is unrolled for its statically known trip count
//! (scan outputs = Concat of the Unsqueeze'd per-iteration values).
//!
//! "Statically known": control values (BOOL / INT64 scalars) are model inputs
//! with known data, constants, iteration counters and comparisons / logic /
//! increments of those; the inliner folds exactly these. Data tensors are never
//! evaluated here (the expected results are computed by the trace spec).

use std::collections::{HashMap, HashSet};

use super::prog::{Graph, Init, Node, Port, T};
use vcommon::onnx;

pub struct Flat {
    pub graph: Graph,
    /// top-level outputs that do not exist in the inlined model (scan outputs
    /// of a loop that ran zero iterations)
    pub absent: HashSet<String>,
    /// largest bound on |element| over all values (interval arithmetic)
    pub max_bound: i64,
    /// total number of loop iterations unrolled / loops with zero iterations
    pub iterations: usize,
    pub zero_trip_loops: usize,
    pub early_exit_loops: usize,
}

struct Inl {
    nodes: Vec<Node>,
    inits: Vec<Init>,
    stat: HashMap<String, i64>,
    absent: HashSet<String>,
    fresh: usize,
    iterations: usize,
    zero_trip_loops: usize,
    early_exit_loops: usize,
}

type Scope = HashMap<String, String>;

fn is_ctl_scalar(t: &T) -> bool {
    t.shape.is_empty() && (t.ot == onnx::BOOL || t.ot == onnx::INT64)
}

impl Inl {
    fn resolve(&self, scope: &Scope, name: &str) -> Result<String, String> {
        if name.is_empty() {
            return Ok(String::new());
        }
        let f = scope.get(name).ok_or_else(|| format!("unbound name {name}"))?;
        if self.absent.contains(f) {
            return Err(format!("absent value {name} is consumed"));
        }
        Ok(f.clone())
    }

    fn fold_static(&mut self, op: &str, ins: &[String], out: &str) {
        let v: Vec<Option<i64>> = ins.iter().map(|i| self.stat.get(i).copied()).collect();
        let r = match (op, v.as_slice()) {
            ("Less", [Some(a), Some(b)]) => Some((a < b) as i64),
            ("Greater", [Some(a), Some(b)]) => Some((a > b) as i64),
            ("Equal", [Some(a), Some(b)]) => Some((a == b) as i64),
            ("And", [Some(a), Some(b)]) => Some((*a != 0 && *b != 0) as i64),
            ("Or", [Some(a), Some(b)]) => Some((*a != 0 || *b != 0) as i64),
            ("Add", [Some(a), Some(b)]) => Some(a + b),
            ("Sub", [Some(a), Some(b)]) => Some(a - b),
            ("Not", [Some(a)]) => Some((*a == 0) as i64),
            ("Identity", [Some(a)]) => Some(*a),
            _ => None,
        };
        if let Some(r) = r {
            self.stat.insert(out.to_string(), r);
        }
    }

    fn add_const(&mut self, prefix: &str, t: T) -> String {
        self.fresh += 1;
        let name = format!("{prefix}_{}", self.fresh);
        if is_ctl_scalar(&t) {
            self.stat.insert(name.clone(), t.data[0]);
        }
        self.inits.push(Init {
            name: name.clone(),
            t,
            as_node: false,
        });
        name
    }

    /// Inline `g` with its inputs bound to the flat names `args`; returns the
    /// flat names of its outputs.
    fn graph(&mut self, g: &Graph, args: &[String], outer: &Scope, suffix: &str) -> Result<Vec<String>, String> {
        let mut scope = outer.clone();
        if g.ins.len() != args.len() {
            return Err("arity".into());
        }
        for (p, a) in g.ins.iter().zip(args) {
            scope.insert(p.name.clone(), a.clone());
        }
        for i in &g.inits {
            let flat = format!("{}{}", i.name, suffix);
            if is_ctl_scalar(&i.t) {
                self.stat.insert(flat.clone(), i.t.data[0]);
            }
            self.inits.push(Init {
                name: flat.clone(),
                t: i.t.clone(),
                as_node: false,
            });
            scope.insert(i.name.clone(), flat);
        }
        for n in &g.nodes {
            match n.op.as_str() {
                "If" => {
                    let c = self.resolve(&scope, &n.ins[0])?;
                    let cv = *self.stat.get(&c).ok_or_else(|| format!("If condition {} not static", n.ins[0]))?;
                    let (branch, tag) = if cv != 0 { (n.g1.as_ref().unwrap(), "t") } else { (n.g2.as_ref().unwrap(), "e") };
                    self.fresh += 1;
                    let sfx = format!("{suffix}_{tag}{}", self.fresh);
                    let outs = self.graph(branch, &[], &scope, &sfx)?;
                    for (k, o) in n.outs.iter().enumerate() {
                        let flat = format!("{o}{suffix}");
                        let src = &outs[k];
                        if self.absent.contains(src) {
                            self.absent.insert(flat.clone());
                        } else {
                            self.nodes.push(Node::plain("Identity", &[src.as_str()], &[flat.as_str()]));
                            self.fold_static("Identity", &[src.clone()], &flat);
                        }
                        scope.insert(o.clone(), flat);
                    }
                }
                "Loop" => {
                    let body = n.g1.as_ref().unwrap();
                    let m = if n.ins[0].is_empty() {
                        i64::MAX
                    } else {
                        let f = self.resolve(&scope, &n.ins[0])?;
                        *self.stat.get(&f).ok_or_else(|| format!("trip count {} not static", n.ins[0]))?
                    };
                    let mut cond = if n.ins.len() < 2 || n.ins[1].is_empty() {
                        1
                    } else {
                        let f = self.resolve(&scope, &n.ins[1])?;
                        *self.stat.get(&f).ok_or_else(|| format!("loop condition {} not static", n.ins[1]))?
                    };
                    let mut carried: Vec<String> = Vec::new();
                    for i in n.ins.iter().skip(2) {
                        carried.push(self.resolve(&scope, i)?);
                    }
                    let nc = carried.len();
                    let nscan = body.outs.len() - 1 - nc;
                    let mut scans: Vec<Vec<String>> = vec![Vec::new(); nscan];
                    self.fresh += 1;
                    let lid = self.fresh;
                    let mut t: i64 = 0;
                    while t < m && cond != 0 {
                        if t >= 12 {
                            return Err("loop does not terminate within 12 iterations".into());
                        }
                        let it = self.add_const("iter", T::scalar_i64(t));
                        let ci = self.add_const("condin", T::scalar_bool(true));
                        let mut args = vec![it, ci];
                        args.extend(carried.iter().cloned());
                        let sfx = format!("{suffix}_L{lid}i{t}");
                        let outs = self.graph(body, &args, &scope, &sfx)?;
                        cond = *self.stat.get(&outs[0]).ok_or_else(|| "loop condition output not static".to_string())?;
                        carried = outs[1..1 + nc].to_vec();
                        for k in 0..nscan {
                            scans[k].push(outs[1 + nc + k].clone());
                        }
                        t += 1;
                        self.iterations += 1;
                    }
                    if t == 0 {
                        self.zero_trip_loops += 1;
                    }
                    if t < m && t > 0 {
                        self.early_exit_loops += 1;
                    }
                    for (k, o) in n.outs.iter().enumerate() {
                        if o.is_empty() {
                            continue;
                        }
                        let flat = format!("{o}{suffix}");
                        if k < nc {
                            let src = carried[k].clone();
                            self.nodes.push(Node::plain("Identity", &[src.as_str()], &[flat.as_str()]));
                            self.fold_static("Identity", &[src], &flat);
                        } else if t == 0 {
                            self.absent.insert(flat.clone());
                        } else {
                            let axes = self.add_const("axes", T::i64s(vec![0]));
                            let mut us = Vec::new();
                            for (j, s) in scans[k - nc].iter().enumerate() {
                                if self.absent.contains(s) {
                                    return Err("absent value used as scan output".into());
                                }
                                let u = format!("{flat}_u{j}");
                                self.nodes.push(Node::plain("Unsqueeze", &[s.as_str(), axes.as_str()], &[u.as_str()]));
                                us.push(u);
                            }
                            let usr: Vec<&str> = us.iter().map(|s| s.as_str()).collect();
                            self.nodes.push(Node::plain("Concat", &usr, &[flat.as_str()]).attr_int("axis", 0));
                        }
                        scope.insert(o.clone(), flat);
                    }
                }
                op => {
                    let mut ins = Vec::new();
                    for i in &n.ins {
                        ins.push(self.resolve(&scope, i)?);
                    }
                    let outs: Vec<String> = n.outs.iter().map(|o| format!("{o}{suffix}")).collect();
                    let mut fnode = n.clone();
                    fnode.ins = ins.clone();
                    fnode.outs = outs.clone();
                    self.nodes.push(fnode);
                    if outs.len() == 1 {
                        self.fold_static(op, &ins, &outs[0]);
                    }
                    for (o, f) in n.outs.iter().zip(&outs) {
                        scope.insert(o.clone(), f.clone());
                    }
                }
            }
        }
        let mut res = Vec::new();
        for o in &g.outs {
            let f = scope.get(&o.name).ok_or_else(|| format!("unbound output {}", o.name))?;
            res.push(f.clone());
        }
        Ok(res)
    }
}

/// Interval bounds over the flat graph: max |element| of every value.
fn bounds(g: &Graph, inputs: &[(String, T)]) -> i64 {
    let maxabs = |t: &T| t.data.iter().map(|v| v.abs()).max().unwrap_or(0);
    let mut b: HashMap<String, i64> = HashMap::new();
    for (n, t) in inputs {
        b.insert(n.clone(), maxabs(t));
    }
    for i in &g.inits {
        b.insert(i.name.clone(), maxabs(&i.t));
    }
    let mut worst = 0i64;
    for n in &g.nodes {
        let ins: Vec<i64> = n.ins.iter().filter(|s| !s.is_empty()).map(|s| *b.get(s).unwrap_or(&0)).collect();
        let r: i64 = match n.op.as_str() {
            "Add" | "Sub" => ins.iter().fold(0i64, |a, x| a.saturating_add(*x)),
            "Mul" => ins.iter().fold(1i64, |a, x| a.saturating_mul(*x)),
            "Min" | "Max" | "Concat" | "Where" => ins.iter().copied().max().unwrap_or(0),
            "Neg" | "Abs" | "Relu" | "Identity" | "Cast" => ins[0],
            "Unsqueeze" | "Reshape" => ins[0],
            "ReduceSum" => ins[0].saturating_mul(16),
            "Less" | "Greater" | "Equal" | "And" | "Or" | "Not" => 1,
            other => panic!("bounds: unknown operator {other}"),
        };
        worst = worst.max(r);
        for o in &n.outs {
            b.insert(o.clone(), r);
        }
    }
    worst
}

pub fn inline(prog: &Graph, inputs: &[(String, T)]) -> Result<Flat, String> {
    let mut inl = Inl {
        nodes: vec![],
        inits: vec![],
        stat: HashMap::new(),
        absent: HashSet::new(),
        fresh: 0,
        iterations: 0,
        zero_trip_loops: 0,
        early_exit_loops: 0,
    };
    let mut scope = Scope::new();
    let mut args = Vec::new();
    for p in &prog.ins {
        let (_, t) = inputs.iter().find(|(n, _)| *n == p.name).ok_or_else(|| format!("no data for input {}", p.name))?;
        if is_ctl_scalar(t) {
            inl.stat.insert(p.name.clone(), t.data[0]);
        }
        args.push(p.name.clone());
    }
    let outs = inl.graph(prog, &args, &mut scope, "")?;
    let mut absent = HashSet::new();
    let mut ports = Vec::new();
    for (p, f) in prog.outs.iter().zip(&outs) {
        if inl.absent.contains(f) {
            absent.insert(p.name.clone());
            continue;
        }
        if *f != p.name {
            // an output that is a graph input or a renamed value: give it the declared name
            // through an Identity, unless the name is taken by the input itself
            if prog.ins.iter().any(|i| i.name == p.name) {
                ports.push(Port { name: p.name.clone(), ot: p.ot, shape: None });
                continue;
            }
            inl.nodes.push(Node::plain("Identity", &[f.as_str()], &[p.name.as_str()]));
        }
        ports.push(Port {
            name: p.name.clone(),
            ot: p.ot,
            shape: None,
        });
    }
    let graph = Graph {
        ins: prog.ins.clone(),
        inits: inl.inits,
        nodes: inl.nodes,
        outs: ports,
    };
    let max_bound = bounds(&graph, inputs);
    Ok(Flat {
        graph,
        absent,
        max_bound,
        iterations: inl.iterations,
        zero_trip_loops: inl.zero_trip_loops,
        early_exit_loops: inl.early_exit_loops,
    })
}
