//! Seeded generator of programs with nested If / Loop over the exact integer
//! operator subset.  Every case is derived from (seed, case index) only.
//!
//! What is varied (the quantifier of C24): If / Loop / nesting (depth <= 2, 3 in
//! the thorough tier), subgraph values captured from every enclosing scope
//! (model inputs, intermediate parent values, loop-carried inputs and iteration
//! counters of an enclosing loop body, outputs of an earlier control-flow
//! operator), captured values consumed at the in-place position of in-place
//! capable operators (Add/Sub/Mul/Min/Max/Neg/Abs/Relu/Identity), captured values
//! used again after the control-flow operator or requested as model outputs,
//! loop-carried dependencies, scan outputs, zero-iteration loops (trip count 0
//! or initial condition false), early termination through the condition output,
//! constant / input / iteration-dependent conditions, constants as initializers
//! or Constant nodes, dead operators in subgraphs, one value returned twice,
//! two control-flow operators sharing captures.

use std::collections::{BTreeSet, HashSet};

use super::inline;
use super::prog::{Dt, Graph, Init, Node, Port, T};
use vcommon::Rng;
use vcommon::onnx;

#[derive(Clone, Debug, PartialEq)]
enum Cls {
    Input,
    Temp,
    Const,
    Carried,
    CfOut,
}

#[derive(Clone, Debug)]
struct Val {
    name: String,
    dt: Dt,
    /// for `dynamic` values: the shape without the leading (iteration) axis
    shape: Vec<usize>,
    depth: usize,
    cls: Cls,
    /// scan output: leading axis = number of iterations (unknown to the generator)
    dynamic: bool,
    /// produced after the first control-flow operator of its scope
    after_cf: bool,
}

#[derive(Default)]
struct ScopeInfo {
    vals: Vec<Val>,
    /// iteration counter / condition input when this scope is a loop body
    iter: Option<String>,
    cond_in: Option<String>,
    seen_cf: bool,
}

pub struct RunSpec {
    pub inputs: Vec<(String, T)>,
    /// (name, role)
    pub outs_req: Vec<(String, String)>,
}

pub struct Case {
    pub prog: Graph,
    pub runs: Vec<RunSpec>,
    pub tags: Vec<String>,
    pub rejects: usize,
}

#[derive(Clone, Copy, PartialEq)]
enum CtlIn {
    Bool,
    Trip,
}

struct Gen {
    r: Rng,
    n: usize,
    dt: Dt,
    base: Vec<usize>,
    tags: BTreeSet<String>,
    scopes: Vec<ScopeInfo>,
    graphs: Vec<Graph>,
    ctl_inputs: Vec<(String, CtlIn)>,
    captured: HashSet<String>,
    exclude: HashSet<String>,
    max_depth: usize,
    budget: isize,
    /// name of a parent value the first body operator must consume at its in-place position
    victim: Option<String>,
    in_loop: usize,
}

fn numel(s: &[usize]) -> usize {
    s.iter().product()
}

fn broadcast(a: &[usize], b: &[usize]) -> Option<Vec<usize>> {
    let n = a.len().max(b.len());
    let mut out = vec![0; n];
    for i in 0..n {
        let x = if i + a.len() >= n { a[i + a.len() - n] } else { 1 };
        let y = if i + b.len() >= n { b[i + b.len() - n] } else { 1 };
        out[i] = if x == y || y == 1 {
            x
        } else if x == 1 {
            y
        } else {
            return None;
        };
    }
    Some(out)
}

impl Gen {
    fn fresh(&mut self, p: &str) -> String {
        self.n += 1;
        format!("{p}{}", self.n)
    }
    fn depth(&self) -> usize {
        self.scopes.len() - 1
    }
    fn tag(&mut self, t: &str) {
        self.tags.insert(t.to_string());
    }
    fn g(&mut self) -> &mut Graph {
        self.graphs.last_mut().unwrap()
    }
    fn push_val(&mut self, name: &str, dt: Dt, shape: Vec<usize>, cls: Cls, dynamic: bool) -> Val {
        let depth = self.depth();
        let after_cf = self.scopes[depth].seen_cf;
        let v = Val {
            name: name.to_string(),
            dt,
            shape,
            depth,
            cls,
            dynamic,
            after_cf,
        };
        self.scopes[depth].vals.push(v.clone());
        v
    }
    fn note_use(&mut self, v: &Val) {
        if v.depth < self.depth() {
            self.captured.insert(v.name.clone());
            self.tag("capture");
            match v.cls {
                Cls::Temp => self.tag("capture_parent_temp"),
                Cls::Input => self.tag(if v.depth == 0 { "capture_model_input" } else { "capture_body_input" }),
                Cls::Carried => self.tag("capture_enclosing_carried"),
                Cls::CfOut => self.tag("capture_cf_output"),
                Cls::Const => self.tag("capture_parent_const"),
            }
            if self.depth() - v.depth >= 2 {
                self.tag("capture_two_levels_up");
            }
        }
    }
    fn small_data(&mut self, n: usize, lo: i64, hi: i64) -> Vec<i64> {
        (0..n).map(|_| self.r.range(lo, hi)).collect()
    }
    /// New constant of the current graph (initializer or Constant node).
    fn add_init(&mut self, prefix: &str, t: T) -> String {
        let name = self.fresh(prefix);
        let as_node = self.depth() > 0 && self.r.chance(1, 3);
        if as_node {
            self.tag("constant_node_in_subgraph");
        }
        self.g().inits.push(Init {
            name: name.clone(),
            t,
            as_node,
        });
        name
    }
    fn data_const(&mut self, shape: Vec<usize>) -> Val {
        let mut data = self.small_data(numel(&shape), -3, 3);
        if data.len() == 1 && !shape.is_empty() && (data[0] == 0 || data[0] == 1) {
            // x+0 / x*1 with a one-element constant of HIGHER rank is rewritten by the optimiser's
            // identity fusion and loses the broadcast rank (a C01 matter, not control flow): keep
            // clear of it; rank-0 zeros / ones stay in (fusion of a captured value must be skipped)
            data[0] = *self.r.pick(&[-3, -2, 2, 3]);
        }
        let mut t = T::new(shape.clone(), self.dt, data);
        t.ot = self.dt.onnx();
        let name = self.add_init("c", t);
        let dt = self.dt;
        self.push_val(&name, dt, shape, Cls::Const, false)
    }

    /// All data values visible from the current scope that satisfy `f`.
    fn visible(&self, f: &dyn Fn(&Val) -> bool) -> Vec<Val> {
        let mut out = Vec::new();
        for s in &self.scopes {
            for v in &s.vals {
                if !self.exclude.contains(&v.name) && f(v) {
                    out.push(v.clone());
                }
            }
        }
        out
    }
    /// Pick a visible value: outer-scope values (captures) and recent local values are preferred.
    fn pick(&mut self, f: &dyn Fn(&Val) -> bool) -> Option<Val> {
        let all = self.visible(f);
        if all.is_empty() {
            return None;
        }
        let d = self.depth();
        let outer: Vec<&Val> = all.iter().filter(|v| v.depth < d && v.cls != Cls::Const).collect();
        let local: Vec<&Val> = all.iter().filter(|v| v.depth == d && v.cls != Cls::Const).collect();
        let roll = self.r.below(100);
        let v = if d > 0 && !outer.is_empty() && roll < 45 {
            (*self.r.pick(&outer)).clone()
        } else if !local.is_empty() && roll < 85 {
            // recent values first
            let k = local.len();
            let i = if self.r.chance(2, 3) { k - 1 - self.r.below(k.min(2)) } else { self.r.below(k) };
            local[i].clone()
        } else {
            self.r.pick(&all).clone()
        };
        Some(v)
    }

    fn shape_variant(&mut self) -> Vec<usize> {
        let base = self.base.clone();
        match self.r.below(10) {
            0 => vec![],
            1 => vec![1],
            2 if base.len() > 1 => base[base.len() - 1..].to_vec(),
            _ => base,
        }
    }

    /// Append one plain data operator to the current graph.
    fn gen_data_op(&mut self) -> Val {
        self.budget -= 1;
        let dt = self.dt;
        let in_loop = self.in_loop > 0;
        if let Some(vname) = self.victim.take() {
            // forced: the captured parent value at the in-place position
            let vic = self.visible(&|v| v.name == vname).pop().expect("victim visible");
            self.note_use(&vic);
            self.exclude.insert(vname.clone());
            let out = self.fresh("v");
            if self.r.chance(1, 3) {
                let ops: &[&str] = if dt == Dt::F32 { &["Neg", "Abs", "Relu", "Identity"] } else { &["Neg", "Abs", "Identity"] };
                let op = *self.r.pick(ops);
                self.g().nodes.push(Node::plain(op, &[&vname], &[&out]));
                return self.push_val(&out, dt, vic.shape.clone(), Cls::Temp, false);
            }
            let vs = vic.shape.clone();
            let other = self
                .pick(&|v| v.dt == dt && !v.dynamic && broadcast(&vs, &v.shape).as_deref() == Some(&vs[..]))
                .unwrap_or_else(|| vic.clone());
            let other = if other.name == vname { self.data_const(vs.clone()) } else { other };
            self.note_use(&other);
            let op = *self.r.pick(&["Add", "Sub", "Mul", "Min", "Max", "Add", "Sub"]);
            let op = if in_loop && op == "Mul" { "Add" } else { op };
            // non-commutative: position 0 is the in-place position; commutative: either
            let swap = matches!(op, "Add" | "Mul" | "Min" | "Max") && self.r.chance(1, 3);
            let (a, b) = if swap { (other.name.clone(), vname.clone()) } else { (vname.clone(), other.name.clone()) };
            self.g().nodes.push(Node::plain(op, &[&a, &b], &[&out]));
            self.tag("forced_capture_at_inplace_position");
            return self.push_val(&out, dt, vs, Cls::Temp, false);
        }
        let roll = self.r.below(100);
        let out = self.fresh("v");
        // iteration counter as data
        if roll < 6 {
            let iters: Vec<String> = self.scopes.iter().filter_map(|s| s.iter.clone()).collect();
            if !iters.is_empty() {
                let it = self.r.pick(&iters).clone();
                if Some(&it) != self.scopes.last().unwrap().iter.as_ref() {
                    self.tag("capture_enclosing_iteration_counter");
                    self.captured.insert(it.clone());
                }
                self.g().nodes.push(Node::plain("Cast", &[&it], &[&out]).attr_int("to", dt.onnx() as i64));
                self.tag("iteration_counter_as_data");
                return self.push_val(&out, dt, vec![], Cls::Temp, false);
            }
        }
        if roll < 36 {
            // unary (also the only consumers of scan outputs besides ReduceSum)
            if let Some(a) = self.pick(&|v| v.dt == dt) {
                self.note_use(&a);
                let ops: &[&str] = if dt == Dt::F32 { &["Neg", "Abs", "Relu", "Identity"] } else { &["Neg", "Abs", "Identity"] };
                let op = *self.r.pick(ops);
                if self.r.chance(1, 8) {
                    // a no-op Cast (removed by the optimiser's CastElimination)
                    self.g().nodes.push(Node::plain("Cast", &[&a.name], &[&out]).attr_int("to", dt.onnx() as i64));
                    self.tag("noop_cast");
                } else {
                    self.g().nodes.push(Node::plain(op, &[&a.name], &[&out]));
                }
                return self.push_val(&out, dt, a.shape.clone(), Cls::Temp, a.dynamic);
            }
        }
        if roll < 41 {
            if let Some(a) = self.pick(&|v| v.dt == dt && (v.dynamic || !v.shape.is_empty())) {
                self.note_use(&a);
                self.g().nodes.push(Node::plain("ReduceSum", &[&a.name], &[&out]).attr_int("keepdims", 0));
                self.tag("reduce");
                return self.push_val(&out, dt, vec![], Cls::Temp, false);
            }
        }
        if roll < 47 {
            if let Some(a) = self.pick(&|v| v.dt == dt && !v.dynamic && !v.shape.is_empty() && numel(&v.shape) <= 6) {
                let sh = a.shape.clone();
                let b = self.pick(&|v| v.dt == dt && !v.dynamic && v.shape == sh).unwrap_or_else(|| a.clone());
                self.note_use(&a);
                self.note_use(&b);
                self.g().nodes.push(Node::plain("Concat", &[&a.name, &b.name], &[&out]).attr_int("axis", 0));
                let mut s = a.shape.clone();
                s[0] *= 2;
                self.tag("concat");
                return self.push_val(&out, dt, s, Cls::Temp, false);
            }
        }
        // binary with broadcasting
        let a = match self.pick(&|v| v.dt == dt && !v.dynamic) {
            Some(a) => a,
            None => {
                let s = self.shape_variant();
                self.data_const(s)
            }
        };
        let ash = a.shape.clone();
        let b = if self.r.chance(1, 8) {
            let s = if self.r.chance(1, 2) { ash.clone() } else { vec![] };
            self.data_const(s)
        } else {
            self.pick(&|v| v.dt == dt && !v.dynamic && broadcast(&ash, &v.shape).is_some()).unwrap_or_else(|| a.clone())
        };
        self.note_use(&a);
        self.note_use(&b);
        let mut op = *self.r.pick(&["Add", "Sub", "Mul", "Min", "Max", "Add", "Sub", "Add"]);
        if op == "Mul" && in_loop && self.r.chance(2, 3) {
            op = "Sub";
        }
        let shape = broadcast(&a.shape, &b.shape).unwrap();
        if a.name == b.name {
            self.tag("same_value_both_operands");
        }
        self.g().nodes.push(Node::plain(op, &[&a.name, &b.name], &[&out]));
        self.push_val(&out, dt, shape, Cls::Temp, false)
    }

    /// A node-produced local value of exactly this shape (creating one if needed).
    fn ensure_local(&mut self, shape: &[usize], avoid: &[String]) -> Val {
        let d = self.depth();
        let dt = self.dt;
        let sh = shape.to_vec();
        let cands = self.visible(&|v| v.depth == d && v.dt == dt && !v.dynamic && v.shape == sh && matches!(v.cls, Cls::Temp | Cls::CfOut) && !avoid.contains(&v.name));
        if !cands.is_empty() && self.r.chance(5, 6) {
            // prefer the most recent one
            let k = cands.len();
            return if self.r.chance(3, 4) { cands[k - 1].clone() } else { self.r.pick(&cands).clone() };
        }
        // Op(v, const of the target shape) where v broadcasts into the target shape
        let v = self.pick(&|v| v.dt == dt && !v.dynamic && broadcast(&sh, &v.shape).as_deref() == Some(&sh[..]));
        let out = self.fresh("v");
        self.budget -= 1;
        match v {
            Some(v) => {
                self.note_use(&v);
                let c = self.data_const(sh.clone());
                let op = *self.r.pick(&["Add", "Sub", "Max"]);
                self.g().nodes.push(Node::plain(op, &[&v.name, &c.name], &[&out]));
            }
            None => {
                let c = self.data_const(sh.clone());
                self.g().nodes.push(Node::plain("Identity", &[&c.name], &[&out]));
            }
        }
        self.push_val(&out, dt, sh, Cls::Temp, false)
    }

    fn ctl_input(&mut self, kind: CtlIn) -> String {
        let have: Vec<String> = self.ctl_inputs.iter().filter(|(_, k)| *k == kind).map(|(n, _)| n.clone()).collect();
        if !have.is_empty() && self.r.chance(1, 2) {
            return self.r.pick(&have).clone();
        }
        let name = self.fresh(if kind == CtlIn::Bool { "cb" } else { "m" });
        self.ctl_inputs.push((name.clone(), kind));
        name
    }

    /// A statically known boolean usable in the current scope.
    fn gen_cond(&mut self) -> String {
        let iters: Vec<String> = self.scopes.iter().filter_map(|s| s.iter.clone()).collect();
        let roll = self.r.below(100);
        let c = if !iters.is_empty() && roll < 45 {
            let it = self.r.pick(&iters).clone();
            if Some(&it) != self.scopes.last().unwrap().iter.as_ref() {
                self.tag("capture_enclosing_iteration_counter");
            }
            let k = self.r.range(0, 2);
            let kc = self.add_init("k", T::scalar_i64(k));
            let out = self.fresh("b");
            let op = *self.r.pick(&["Less", "Equal", "Greater"]);
            self.g().nodes.push(Node::plain(op, &[&it, &kc], &[&out]));
            self.tag("iteration_dependent_condition");
            out
        } else if roll < 60 {
            let v = self.r.chance(1, 2);
            self.tag("constant_condition");
            self.add_init("kb", T::scalar_bool(v))
        } else if roll < 68 && self.scopes.iter().any(|s| s.cond_in.is_some()) {
            let cs: Vec<String> = self.scopes.iter().filter_map(|s| s.cond_in.clone()).collect();
            self.r.pick(&cs).clone()
        } else {
            if self.depth() > 0 {
                self.tag("condition_captured_from_model_input");
            }
            self.ctl_input(CtlIn::Bool)
        };
        if self.r.chance(1, 10) {
            let out = self.fresh("b");
            self.g().nodes.push(Node::plain("Not", &[&c], &[&out]));
            out
        } else {
            c
        }
    }

    fn begin_sub(&mut self) {
        self.scopes.push(ScopeInfo::default());
        self.graphs.push(Graph::default());
    }
    fn end_sub(&mut self) -> Graph {
        self.scopes.pop();
        self.graphs.pop().unwrap()
    }

    /// Body nodes of a subgraph: data operators, possibly a nested control-flow operator.
    fn gen_body_nodes(&mut self) {
        let n1 = 1 + self.r.below(2);
        for _ in 0..n1 {
            self.gen_data_op();
        }
        if self.depth() < self.max_depth && self.budget > 6 && self.r.chance(35, 100) {
            self.tag("nested");
            if self.depth() >= 2 {
                self.tag("nesting_depth_3");
            }
            self.gen_cf();
            let n2 = self.r.below(2);
            for _ in 0..n2 {
                self.gen_data_op();
            }
        }
        if self.r.chance(1, 12) {
            // an operator nobody uses
            self.gen_data_op();
            self.tag("maybe_dead_operator_in_subgraph");
        }
    }

    fn gen_cf(&mut self) {
        if self.r.chance(1, 2) {
            self.gen_if();
        } else {
            self.gen_loop();
        }
        let d = self.depth();
        self.scopes[d].seen_cf = true;
    }

    fn gen_if(&mut self) {
        self.tag("if");
        self.budget -= 1;
        let cond = self.gen_cond();
        let n_out = 1 + self.r.below(2);
        // then branch: free
        self.begin_sub();
        self.gen_body_nodes();
        let mut specs: Vec<Vec<usize>> = Vec::new();
        let mut then_outs: Vec<String> = Vec::new();
        let d = self.depth();
        let dt = self.dt;
        for k in 0..n_out {
            let locals = self.visible(&|v| v.depth == d && v.dt == dt && !v.dynamic && matches!(v.cls, Cls::Temp | Cls::CfOut));
            let v = if locals.is_empty() {
                let s = self.shape_variant();
                self.ensure_local(&s, &[])
            } else if k == 0 {
                locals[locals.len() - 1].clone()
            } else {
                self.r.pick(&locals).clone()
            };
            if then_outs.contains(&v.name) {
                if self.r.chance(1, 12) {
                    self.tag("subgraph_returns_one_value_twice");
                } else {
                    let s = v.shape.clone();
                    let w = self.ensure_local(&s, &then_outs);
                    if then_outs.contains(&w.name) {
                        self.tag("subgraph_returns_one_value_twice");
                    }
                    specs.push(w.shape.clone());
                    then_outs.push(w.name.clone());
                    continue;
                }
            }
            specs.push(v.shape.clone());
            then_outs.push(v.name.clone());
        }
        let mut then_g = self.end_sub();
        let ot = self.dt.onnx();
        then_g.outs = then_outs.iter().map(|n| Port { name: n.clone(), ot, shape: None }).collect();
        // else branch: outputs must have the same shapes
        self.begin_sub();
        if self.r.chance(4, 5) {
            self.gen_body_nodes();
        }
        let mut else_outs: Vec<String> = Vec::new();
        for s in &specs {
            let v = self.ensure_local(s, &else_outs);
            else_outs.push(v.name.clone());
        }
        let mut else_g = self.end_sub();
        else_g.outs = else_outs.iter().map(|n| Port { name: n.clone(), ot, shape: None }).collect();
        let outs: Vec<String> = (0..n_out).map(|_| self.fresh("y")).collect();
        let node = Node {
            op: "If".into(),
            ins: vec![cond],
            outs: outs.clone(),
            attrs: vec![],
            g1: Some(Box::new(then_g)),
            g2: Some(Box::new(else_g)),
        };
        self.g().nodes.push(node);
        for (o, s) in outs.iter().zip(specs) {
            self.push_val(o, dt, s, Cls::CfOut, false);
        }
    }

    fn gen_loop(&mut self) {
        self.tag("loop");
        self.budget -= 1;
        let dt = self.dt;
        // trip count
        let mut may_be_empty = false;
        let mut m_omitted = false;
        let m = match self.r.below(100) {
            0..=44 => {
                let v = if self.r.chance(1, 5) { 0 } else { self.r.range(1, 3) };
                if v == 0 {
                    may_be_empty = true;
                    self.tag("constant_trip_count_zero");
                }
                self.add_init("mk", T::scalar_i64(v))
            }
            45..=79 => {
                may_be_empty = true;
                if self.depth() > 0 {
                    self.tag("trip_count_captured_from_model_input");
                }
                self.ctl_input(CtlIn::Trip)
            }
            _ => {
                m_omitted = true;
                String::new()
            }
        };
        // initial condition
        let c0 = match self.r.below(100) {
            0..=59 => String::new(),
            60..=74 => self.add_init("kb", T::scalar_bool(true)),
            75..=84 => {
                may_be_empty = true;
                self.tag("initial_condition_false");
                self.add_init("kb", T::scalar_bool(false))
            }
            _ => {
                may_be_empty = true;
                self.ctl_input(CtlIn::Bool)
            }
        };
        // loop-carried values
        let nc = self.r.below(3);
        let mut inits: Vec<Val> = Vec::new();
        for _ in 0..nc {
            if let Some(v) = self.pick(&|v| v.dt == dt && !v.dynamic) {
                inits.push(v);
            }
        }
        if may_be_empty && inits.is_empty() && self.r.chance(4, 5) {
            // a possibly empty loop without carried values can only be observed through scan
            // outputs (the known zero-iteration defect): usually give it a carried value
            if let Some(v) = self.pick(&|v| v.dt == dt && !v.dynamic) {
                inits.push(v);
            }
        }
        if !inits.is_empty() {
            self.tag("loop_carried");
        }
        // body
        self.begin_sub();
        self.in_loop += 1;
        let iter = self.fresh("it");
        let cin = self.fresh("ci");
        {
            let s = self.scopes.last_mut().unwrap();
            s.iter = Some(iter.clone());
            s.cond_in = Some(cin.clone());
        }
        let mut ports = vec![
            Port { name: iter.clone(), ot: onnx::INT64, shape: Some(vec![]) },
            Port { name: cin.clone(), ot: onnx::BOOL, shape: Some(vec![]) },
        ];
        let mut carried_in: Vec<Val> = Vec::new();
        for v in &inits {
            let n = self.fresh("cr");
            ports.push(Port { name: n.clone(), ot: dt.onnx(), shape: None });
            carried_in.push(self.push_val(&n, dt, v.shape.clone(), Cls::Carried, false));
        }
        self.gen_body_nodes();
        // condition output
        let must_terminate = m_omitted;
        let roll = self.r.below(100);
        let cond_out = if must_terminate || roll < 25 {
            let k = self.r.range(0, 1);
            let kc = self.add_init("k", T::scalar_i64(k));
            let out = self.fresh("b");
            self.g().nodes.push(Node::plain("Less", &[&iter, &kc], &[&out]));
            self.tag("early_exit_through_condition");
            out
        } else if roll < 60 {
            let out = self.fresh("b");
            self.g().nodes.push(Node::plain("Identity", &[&cin], &[&out]));
            out
        } else if roll < 75 {
            // a constant returned directly
            self.tag("condition_output_is_constant");
            self.add_init("kb", T::scalar_bool(true))
        } else if roll < 85 {
            let c = self.add_init("kb", T::scalar_bool(true));
            let out = self.fresh("b");
            self.g().nodes.push(Node::plain("Identity", &[&c], &[&out]));
            out
        } else {
            // stop after the first iteration
            let c = self.add_init("kb", T::scalar_bool(false));
            let out = self.fresh("b");
            self.g().nodes.push(Node::plain("Identity", &[&c], &[&out]));
            self.tag("early_exit_through_condition");
            out
        };
        let mut out_ports = vec![Port { name: cond_out, ot: onnx::BOOL, shape: None }];
        let mut used: Vec<String> = Vec::new();
        for ci in &carried_in {
            if self.r.chance(1, 14) {
                // carried value passed through unchanged (output names the body input)
                self.tag("carried_passthrough");
                out_ports.push(Port { name: ci.name.clone(), ot: dt.onnx(), shape: None });
                used.push(ci.name.clone());
                continue;
            }
            // prefer a value computed from the carried input
            let out = self.fresh("v");
            let cs = ci.shape.clone();
            let other = self.pick(&|v| v.dt == dt && !v.dynamic && broadcast(&cs, &v.shape).as_deref() == Some(&cs[..]));
            let v = match other {
                Some(o) if self.r.chance(4, 5) => {
                    self.note_use(&o);
                    self.budget -= 1;
                    let op = *self.r.pick(&["Add", "Sub", "Max", "Min", "Add"]);
                    let (a, b) = if self.r.chance(1, 2) { (ci.name.clone(), o.name.clone()) } else { (o.name.clone(), ci.name.clone()) };
                    self.g().nodes.push(Node::plain(op, &[&a, &b], &[&out]));
                    self.push_val(&out, dt, cs.clone(), Cls::Temp, false)
                }
                _ => self.ensure_local(&cs, &used),
            };
            out_ports.push(Port { name: v.name.clone(), ot: dt.onnx(), shape: None });
            used.push(v.name.clone());
        }
        // scan outputs
        let mut nscan = match self.r.below(10) {
            0..=3 => 0,
            4..=8 => 1,
            _ => 2,
        };
        if may_be_empty && !inits.is_empty() && self.r.chance(4, 5) {
            // (a known defect makes every such run fail: keep most cases clear of it)
            nscan = 0;
        }
        let d = self.depth();
        let mut scan_shapes: Vec<Vec<usize>> = Vec::new();
        for _ in 0..nscan {
            let locals = self.visible(&|v| v.depth == d && v.dt == dt && !v.dynamic && matches!(v.cls, Cls::Temp | Cls::CfOut));
            let v = if locals.is_empty() {
                let s = self.shape_variant();
                self.ensure_local(&s, &[])
            } else {
                self.r.pick(&locals).clone()
            };
            if used.contains(&v.name) {
                if self.r.chance(1, 12) {
                    self.tag("subgraph_returns_one_value_twice");
                } else {
                    continue;
                }
            }
            out_ports.push(Port { name: v.name.clone(), ot: dt.onnx(), shape: None });
            used.push(v.name.clone());
            scan_shapes.push(v.shape.clone());
        }
        if inits.is_empty() && scan_shapes.is_empty() {
            // a loop without outputs cannot be observed: give it a scan output
            let s = self.shape_variant();
            let v = self.ensure_local(&s, &used);
            out_ports.push(Port { name: v.name.clone(), ot: dt.onnx(), shape: None });
            used.push(v.name.clone());
            scan_shapes.push(v.shape.clone());
        }
        if !scan_shapes.is_empty() {
            self.tag("scan_output");
            if may_be_empty {
                self.tag("scan_output_of_possibly_empty_loop");
            }
        }
        self.in_loop -= 1;
        let mut body = self.end_sub();
        body.ins = ports;
        body.outs = out_ports;
        // the Loop node
        let mut ins = vec![m, c0];
        for v in &inits {
            self.note_use(v);
            ins.push(v.name.clone());
        }
        let mut outs: Vec<String> = Vec::new();
        for _ in &inits {
            outs.push(self.fresh("y"));
        }
        for _ in &scan_shapes {
            outs.push(self.fresh("s"));
        }
        let node = Node {
            op: "Loop".into(),
            ins,
            outs: outs.clone(),
            attrs: vec![],
            g1: Some(Box::new(body)),
            g2: None,
        };
        self.g().nodes.push(node);
        for (k, v) in inits.iter().enumerate() {
            self.push_val(&outs[k], dt, v.shape.clone(), Cls::CfOut, false);
        }
        for (k, s) in scan_shapes.iter().enumerate() {
            let name = outs[inits.len() + k].clone();
            let v = self.push_val(&name, dt, s.clone(), Cls::CfOut, true);
            if may_be_empty {
                // never consumed by another operator: it may not exist in the inlined model
                self.exclude.insert(v.name);
            }
        }
    }
}

fn case_rng(seed: u64, idx: usize, attempt: usize) -> Rng {
    let mut r = Rng::new(seed.wrapping_mul(0x2545_F491_4F6C_DD1D) ^ ((idx as u64) << 20) ^ attempt as u64);
    r.next_u64();
    r
}

fn try_case(seed: u64, idx: usize, attempt: usize, deep: bool) -> Result<Case, String> {
    let mut r = case_rng(seed, idx, attempt);
    let dt = if r.chance(2, 3) { Dt::F32 } else { Dt::I32 };
    let bases: [&[usize]; 6] = [&[2], &[3], &[2, 2], &[1, 3], &[2, 1, 2], &[4]];
    let base = r.pick(&bases).to_vec();
    let max_depth = if deep && r.chance(1, 4) { 3 } else { 2 };
    let mut g = Gen {
        r,
        n: 0,
        dt,
        base,
        tags: BTreeSet::new(),
        scopes: vec![ScopeInfo::default()],
        graphs: vec![Graph::default()],
        ctl_inputs: vec![],
        captured: HashSet::new(),
        exclude: HashSet::new(),
        max_depth,
        budget: 22,
        victim: None,
        in_loop: 0,
    };
    // model inputs
    let n_in = 2 + g.r.below(2);
    let mut data_inputs: Vec<(String, Vec<usize>)> = Vec::new();
    for k in 0..n_in {
        let s = if k == 0 { g.base.clone() } else { g.shape_variant() };
        let name = g.fresh("x");
        g.push_val(&name, dt, s.clone(), Cls::Input, false);
        data_inputs.push((name, s));
    }
    // operators before the control-flow operator
    let n_pre = g.r.below(4);
    for _ in 0..n_pre {
        g.gen_data_op();
    }
    if g.r.chance(1, 8) {
        // a parent value computed from constants only (constant propagation replaces it)
        let s = g.shape_variant();
        let a = g.data_const(s.clone());
        let bs = if g.r.chance(1, 2) { s.clone() } else { vec![] };
        let b = g.data_const(bs);
        let out = g.fresh("v");
        let op = *g.r.pick(&["Add", "Sub", "Mul", "Max"]);
        g.g().nodes.push(Node::plain(op, &[&a.name, &b.name], &[&out]));
        g.push_val(&out, dt, s, Cls::Temp, false);
        g.tag("parent_value_computed_from_constants");
    }
    // scenario: a parent value the first body operator consumes at its in-place position
    let scenario = g.r.below(100);
    let mut victim_name: Option<String> = None;
    let mut victim_used_after = false;
    if scenario < 55 {
        let temps = g.visible(&|v| v.cls == Cls::Temp && !v.dynamic);
        let v = if temps.is_empty() || g.r.chance(1, 8) {
            // also model inputs (owned inputs can be moved into the subgraph)
            let ins = g.visible(&|v| v.cls == Cls::Input);
            if temps.is_empty() && g.r.chance(1, 2) { g.gen_data_op() } else { g.r.pick(&ins).clone() }
        } else {
            temps[temps.len() - 1].clone()
        };
        g.victim = Some(v.name.clone());
        victim_name = Some(v.name.clone());
        victim_used_after = g.r.chance(1, 2);
    }
    g.gen_cf();
    g.victim = None;
    if let Some(v) = &victim_name {
        if victim_used_after {
            g.exclude.remove(v);
        }
    }
    let n_mid = g.r.below(3);
    for _ in 0..n_mid {
        g.gen_data_op();
    }
    if g.budget > 8 && g.r.chance(3, 10) {
        g.tag("two_control_flow_operators");
        g.gen_cf();
        let n_post = g.r.below(2);
        for _ in 0..n_post {
            g.gen_data_op();
        }
    }
    if let Some(v) = &victim_name {
        if victim_used_after && g.captured.contains(v) {
            // make sure the captured value really is used again
            let vic = g.visible(&|x| x.name == *v).pop().unwrap();
            let out = g.fresh("v");
            let op = *g.r.pick(&["Neg", "Abs", "Identity"]);
            g.g().nodes.push(Node::plain(op, &[&vic.name], &[&out]));
            g.push_val(&out, dt, vic.shape.clone(), Cls::Temp, false);
            g.tag("forced_capture_used_after_cf");
        }
    }
    // outputs
    let top: Vec<Val> = g.scopes[0].vals.clone();
    let mut outs: Vec<(String, String)> = Vec::new();
    let last_temp = top.iter().rev().find(|v| v.cls == Cls::Temp).map(|v| v.name.clone());
    for v in &top {
        let role = match v.cls {
            Cls::CfOut => "cf",
            Cls::Temp | Cls::Input if g.captured.contains(&v.name) => "captured",
            Cls::Temp if v.after_cf => "after",
            Cls::Temp => "before",
            _ => "other",
        };
        let p = match (role, &v.cls) {
            ("cf", _) => 85,
            ("captured", Cls::Temp) => 40,
            ("captured", Cls::Input) => 12,
            ("after", _) => {
                if Some(&v.name) == last_temp.as_ref() {
                    90
                } else {
                    40
                }
            }
            ("before", _) => 8,
            _ => 0,
        };
        if g.r.below(100) < p {
            outs.push((v.name.clone(), role.to_string()));
        }
    }
    if !outs.iter().any(|(_, r)| r == "cf") {
        if let Some(v) = top.iter().find(|v| v.cls == Cls::CfOut) {
            outs.push((v.name.clone(), "cf".into()));
        } else {
            return Err("no control-flow output".into());
        }
    }
    for (n, role) in &outs {
        if role == "captured" {
            g.tags.insert("captured_value_requested_as_output".into());
            let _ = n;
        }
    }
    if let Some(v) = &victim_name {
        if g.captured.contains(v) {
            let later = outs.iter().any(|(n, _)| n == v) || victim_used_after;
            g.tags.insert(if later { "inplace_candidate_needed_afterwards".into() } else { "inplace_candidate_last_use".into() });
        }
    }
    let mut prog = g.graphs.pop().unwrap();
    prog.ins = data_inputs
        .iter()
        .map(|(n, s)| Port { name: n.clone(), ot: dt.onnx(), shape: Some(s.clone()) })
        .collect();
    for (n, k) in &g.ctl_inputs {
        prog.ins.push(Port {
            name: n.clone(),
            ot: if *k == CtlIn::Bool { onnx::BOOL } else { onnx::INT64 },
            shape: Some(vec![]),
        });
    }
    let is_input = |n: &str| prog.ins.iter().any(|p| p.name == n);
    prog.outs = outs
        .iter()
        .filter(|(n, _)| !is_input(n))
        .map(|(n, _)| Port { name: n.clone(), ot: dt.onnx(), shape: None })
        .collect();
    // input sets
    let n_runs = 1 + g.r.below(3);
    let mut trip_vals: Vec<i64> = vec![0, 1, 2, 3];
    g.r.shuffle(&mut trip_vals);
    if g.r.chance(1, 2) {
        // make sure a zero-iteration run is among the first ones
        let p = trip_vals.iter().position(|v| *v == 0).unwrap();
        trip_vals.swap(0, p.min(n_runs - 1));
    }
    let mut runs = Vec::new();
    let mut first_bools: Vec<bool> = Vec::new();
    for k in 0..n_runs {
        let mut inputs: Vec<(String, T)> = Vec::new();
        for (n, s) in &data_inputs {
            let data = g.small_data(numel(s), -4, 4);
            inputs.push((n.clone(), T::new(s.clone(), dt, data)));
        }
        let mut bi = 0;
        for (n, kind) in g.ctl_inputs.clone() {
            match kind {
                CtlIn::Bool => {
                    let v = if k == 0 {
                        let v = g.r.chance(1, 2);
                        first_bools.push(v);
                        v
                    } else if k == 1 {
                        !first_bools[bi]
                    } else {
                        g.r.chance(1, 2)
                    };
                    bi += 1;
                    inputs.push((n, T::scalar_bool(v)));
                }
                CtlIn::Trip => {
                    let v = trip_vals[(k + bi) % 4];
                    inputs.push((n, T::scalar_i64(v)));
                }
            }
        }
        // requested outputs: all in the first run, a subset afterwards
        let req: Vec<(String, String)> = if k == 0 || g.r.chance(1, 2) {
            outs.clone()
        } else {
            let mut sub: Vec<(String, String)> = outs.iter().filter(|_| g.r.chance(1, 2)).cloned().collect();
            if sub.is_empty() {
                sub.push(outs[0].clone());
            }
            sub
        };
        runs.push(RunSpec { inputs, outs_req: req });
    }
    // validate: every run must be inlinable and stay inside the exact value range
    let mut zero = false;
    let mut early = false;
    let mut iters = 0;
    for r in &runs {
        let f = inline::inline(&prog, &r.inputs)?;
        if f.max_bound > (1 << 20) {
            return Err("values may leave the exact range".into());
        }
        zero |= f.zero_trip_loops > 0;
        early |= f.early_exit_loops > 0;
        iters += f.iterations;
    }
    if zero {
        g.tags.insert("zero_iteration_loop_executed".into());
    }
    if early {
        g.tags.insert("early_exit_executed".into());
    }
    if iters >= 4 {
        g.tags.insert("four_or_more_iterations".into());
    }
    Ok(Case {
        prog,
        runs,
        tags: g.tags.into_iter().collect(),
        rejects: 0,
    })
}

pub fn gen_case(seed: u64, idx: usize, deep: bool) -> Case {
    for attempt in 0..200 {
        match try_case(seed, idx, attempt, deep) {
            Ok(mut c) => {
                c.rejects = attempt;
                return c;
            }
            Err(_) => continue,
        }
    }
    panic!("generator: no acceptable program for case {idx} after 200 attempts");
}
