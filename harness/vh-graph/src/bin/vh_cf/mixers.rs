//! spec -> impl binding of the design-level family: every program TLC enumerates from
//! ControlFlow.tla is built as a real `rten::verif::Graph` whose plain operators are synthetic
//! integer "mixers" (defined here, outside rten, through the `rten::verif` hook; the in-place
//! path REALLY overwrites the taken buffer) and whose control-flow operators are the real
//! `rten::verif::ops::{If, Loop}` structs with hand-built subgraphs and capture lists.
//!
//! `vh-cf mixers --programs FILE --out TRACE`
//! Program (one JSON per line, from MC_ControlFlow's generator):
//!   {"g": G, "owned": ["a", ..]},  G = {"ins":[..], "outs":[..], "ops":[{"kind":"op|if|loop","out","sout",
//!   "ins":[..],"inplace","trip","scan","body":G,"els":G}]}
//! Trace: {"ev":"mcase","idx","st":false,"prog","a":[..],"b":[..]}  {"ev":"mres","idx","kind","msg","outs":[{"name","shape","data"}]}
//! Expected values are computed by Trace_ControlFlow.tla (inlined evaluation with the mixer arithmetic).

use std::collections::HashMap;
use std::sync::Arc;

use rten::verif::ops::{If, Loop};
use rten::verif::{
    Graph, InPlaceInputs, InferShapes, NodeId, OpError, OpRunContext, Operator, OutputList, OutputTypeList,
    OutputTypesContext,
};
use rten::{Value, ValueOrView, ValueView};
use rten_base::bit_set::BitSet;
use rten_tensor::Tensor;
use rten_tensor::prelude::*;
use vcommon::{Rng, Trace, Value as J, json};

pub const MODULUS: i64 = 65521;

/// out[j] = (sum_p (p + 2) * arg_p[j] + 7 * k + 1) mod 65521 (p 0-based), one-element arguments broadcast.
/// (copied from vh-graph's exec.rs, non-commutative variant)
pub struct Mixer {
    pub k: i64,
    pub inplace: bool,
}

impl std::fmt::Debug for Mixer {
    fn fmt(&self, f: &mut std::fmt::Formatter<'_>) -> std::fmt::Result {
        write!(f, "Mixer{}", self.k)
    }
}

impl Mixer {
    fn arg<'a>(v: Option<ValueView<'a>>) -> Result<rten_tensor::TensorView<'a, i32>, OpError> {
        match v {
            Some(ValueView::Int32Tensor(t)) => Ok(t),
            _ => Err(OpError::InvalidValue("mixer expects int32 inputs")),
        }
    }
    fn mix(&self, args: &[(usize, Vec<i32>)], n: usize) -> Vec<i32> {
        (0..n)
            .map(|j| {
                let mut acc: i64 = 7 * self.k + 1;
                for (pos, data) in args {
                    let x = if data.len() == 1 { data[0] } else { data[j] } as i64;
                    acc += (*pos as i64 + 2) * x;
                }
                acc.rem_euclid(MODULUS) as i32
            })
            .collect()
    }
}

impl Operator for Mixer {
    fn name(&self) -> &str {
        "Mixer"
    }
    fn run(&self, ctx: &OpRunContext) -> Result<OutputList, OpError> {
        let mut args = Vec::new();
        for (pos, v) in ctx.inputs().iter().enumerate() {
            let t = Self::arg(v)?;
            args.push((pos, t.iter().copied().collect::<Vec<i32>>()));
        }
        let n = args.iter().map(|(_, d)| d.len()).max().unwrap_or(1);
        let res = self.mix(&args, n);
        let mut buf: Vec<i32> = ctx.pool().alloc(n);
        buf.extend_from_slice(&res);
        Ok([Value::from(Tensor::from_data(&[n], buf))].into_iter().collect())
    }
    fn max_inputs(&self) -> Option<usize> {
        None
    }
    fn output_types(&self, _ctx: &OutputTypesContext) -> Option<OutputTypeList> {
        None
    }
    fn in_place_inputs(&self) -> BitSet<u16> {
        if self.inplace { BitSet::from_indices([0]) } else { BitSet::new() }
    }
    fn run_in_place(&self, in_place: InPlaceInputs, ctx: &OpRunContext) -> Result<OutputList, OpError> {
        let taken: Vec<(usize, Value)> = in_place.into_iter().collect();
        if taken.len() != 1 {
            return Err(OpError::InvalidValue("mixer takes one in-place input"));
        }
        let (tpos, tval) = taken.into_iter().next().unwrap();
        let Value::Int32Tensor(mut ttensor) = tval else {
            return Err(OpError::InvalidValue("mixer expects int32 inputs"));
        };
        let mut args = vec![(tpos, ttensor.iter().copied().collect::<Vec<i32>>())];
        for (pos, v) in ctx.inputs().iter().enumerate() {
            if pos == tpos {
                if v.is_some() {
                    return Err(OpError::InvalidValue("placeholder expected at the taken position"));
                }
                continue;
            }
            let t = Self::arg(v)?;
            args.push((pos, t.iter().copied().collect::<Vec<i32>>()));
        }
        let n = args.iter().map(|(_, d)| d.len()).max().unwrap_or(1);
        let res = self.mix(&args, n);
        if ttensor.len() == n {
            // really overwrite the taken buffer
            for (dst, src) in ttensor.iter_mut().zip(res.iter()) {
                *dst = *src;
            }
            Ok([Value::from(ttensor)].into_iter().collect())
        } else {
            // the taken operand is the broadcast side: scribble over it, allocate the output
            for dst in ttensor.iter_mut() {
                *dst = -1;
            }
            let mut buf: Vec<i32> = ctx.pool().alloc(n);
            buf.extend_from_slice(&res);
            Ok([Value::from(Tensor::from_data(&[n], buf))].into_iter().collect())
        }
    }
    fn as_infer_shapes(&self) -> Option<&dyn InferShapes> {
        None
    }
}

/// The mixer constant of an operator, from the name of its output (same table in the trace spec).
fn mixer_k(out: &str) -> i64 {
    match out {
        "p" => 1,
        "q" => 2,
        "m1" => 3,
        "m2" => 4,
        "n1" => 5,
        "e1" => 6,
        _ => 9,
    }
}

fn strs(v: &J) -> Vec<String> {
    v.as_array().map(|a| a.iter().map(|x| x.as_str().unwrap().to_string()).collect()).unwrap_or_default()
}

struct Builder {
    uniq: usize,
}

impl Builder {
    /// Build graph `g`. `loop_body`: its inputs are (iteration, condition, g.ins...) and its outputs
    /// (condition, g.outs...).
    fn graph(&mut self, g: &J, loop_body: bool) -> Graph {
        let mut gr = Graph::new();
        let mut ids: HashMap<String, NodeId> = HashMap::new();
        let ins = strs(&g["ins"]);
        let outs = strs(&g["outs"]);
        let ops = g["ops"].as_array().cloned().unwrap_or_default();
        // names defined here
        let mut defined: Vec<String> = ins.clone();
        for o in &ops {
            defined.push(o["out"].as_str().unwrap().to_string());
            if o["kind"] == "loop" && o["scan"].as_bool().unwrap() {
                defined.push(o["sout"].as_str().unwrap().to_string());
            }
        }
        for n in &defined {
            ids.insert(n.clone(), gr.add_value(Some(n), None, None));
        }
        // capture placeholders: names the operators use that are defined further out
        let mut caps = Vec::new();
        for o in &ops {
            for n in strs(&o["ins"]) {
                if !ids.contains_key(&n) {
                    let id = gr.add_value(Some(&n), None, None);
                    ids.insert(n.clone(), id);
                    caps.push(id);
                }
            }
        }
        gr.set_captures(&caps);
        let mut in_ids: Vec<NodeId> = Vec::new();
        let mut out_ids: Vec<NodeId> = Vec::new();
        if loop_body {
            self.uniq += 1;
            let it = gr.add_value(Some(&format!("iter{}", self.uniq)), None, None);
            let ci = gr.add_value(Some(&format!("cond{}", self.uniq)), None, None);
            in_ids.push(it);
            in_ids.push(ci);
            out_ids.push(ci); // the condition is passed through
        }
        in_ids.extend(ins.iter().map(|n| ids[n]));
        for o in &ops {
            let out = o["out"].as_str().unwrap();
            let op_ins: Vec<Option<NodeId>> = strs(&o["ins"]).iter().map(|n| Some(ids[n])).collect();
            match o["kind"].as_str().unwrap() {
                "op" => {
                    let m = Mixer {
                        k: mixer_k(out),
                        inplace: o["inplace"].as_bool().unwrap(),
                    };
                    gr.add_op(Some(&format!("op_{out}")), Arc::new(m), &op_ins, &[Some(ids[out])]);
                }
                "if" => {
                    let then_branch = self.graph(&o["body"], false);
                    let els = &o["els"];
                    let else_branch = if els["ops"].as_array().map_or(true, |a| a.is_empty()) {
                        // never selected and captures nothing: returns a constant
                        let mut e = Graph::new();
                        self.uniq += 1;
                        let z = e.add_constant(Some(&format!("zero{}", self.uniq)), Tensor::<i32>::from_data(&[1], vec![0]).into_arc());
                        e.set_output_ids(&[z]);
                        e
                    } else {
                        self.graph(els, false)
                    };
                    let op = If { then_branch, else_branch };
                    gr.add_op(Some(&format!("if_{out}")), Arc::new(op), &op_ins, &[Some(ids[out])]);
                }
                "loop" => {
                    let body = self.graph(&o["body"], true);
                    self.uniq += 1;
                    let trip = o["trip"].as_i64().unwrap() as i32;
                    let m = gr.add_constant(Some(&format!("trip{}", self.uniq)), Tensor::<i32>::from(trip).into_arc());
                    let mut lins = vec![Some(m), None];
                    lins.extend(op_ins);
                    let mut louts = vec![Some(ids[out])];
                    if o["scan"].as_bool().unwrap() {
                        louts.push(Some(ids[o["sout"].as_str().unwrap()]));
                    }
                    gr.add_op(Some(&format!("loop_{out}")), Arc::new(Loop { body }), &lins, &louts);
                }
                other => panic!("unknown kind {other}"),
            }
        }
        out_ids.extend(outs.iter().map(|n| ids[n]));
        gr.set_input_ids(&in_ids);
        gr.set_output_ids(&out_ids);
        gr
    }
}

fn out_json(name: &str, v: &Value) -> J {
    match v {
        Value::Int32Tensor(t) => json!({"name": name, "shape": t.shape(), "data": t.iter().copied().collect::<Vec<i32>>()}),
        _ => json!({"name": name, "shape": [], "data": []}),
    }
}

pub fn main_mixers() {
    let programs = vcommon::read_json_lines(&vcommon::arg("--programs").expect("--programs"));
    let out = vcommon::arg("--out").expect("--out");
    vcommon::quiet_panics();
    let mut tr = Trace::create(&out);
    let mut rng = Rng::from_env();
    for (idx, p) in programs.iter().enumerate() {
        // one-element tensors: loop-carried values and scan slices keep their shape whatever the body mixes
        let a: Vec<i32> = vec![rng.range(1, 60) as i32];
        let b: Vec<i32> = vec![rng.range(1, 60) as i32]; // one element, non-zero: also the If condition
        tr.emit(json!({"ev": "mcase", "idx": idx, "st": false, "prog": p, "a": a, "b": b}));
        tr.flush();
        let owned = strs(&p["owned"]);
        let outs = strs(&p["g"]["outs"]);
        let res = vcommon::guarded(|| {
            let mut bld = Builder { uniq: 0 };
            let g = bld.graph(&p["g"], false);
            let ta = Tensor::from_data(&[a.len()], a.clone());
            let tb = Tensor::from_data(&[b.len()], b.clone());
            let ida = g.get_node_id("a").unwrap();
            let idb = g.get_node_id("b").unwrap();
            let mut inputs: Vec<(NodeId, ValueOrView)> = Vec::new();
            inputs.push((ida, if owned.iter().any(|n| n == "a") { ta.clone().into() } else { ta.view().into() }));
            inputs.push((idb, if owned.iter().any(|n| n == "b") { tb.clone().into() } else { tb.view().into() }));
            let out_ids: Vec<NodeId> = outs.iter().map(|n| g.get_node_id(n).unwrap()).collect();
            let r = g.run(inputs, &out_ids, None, None).map_err(|e| e.to_string());
            // borrowed inputs after the run
            (r, ta.iter().copied().collect::<Vec<i32>>(), tb.iter().copied().collect::<Vec<i32>>())
        });
        let rec = match res {
            Ok((Ok(vals), a2, b2)) => json!({"ev": "mres", "idx": idx, "kind": "ok", "msg": "",
                "outs": outs.iter().zip(&vals).map(|(n, v)| out_json(n, v)).collect::<Vec<_>>(), "a_after": a2, "b_after": b2}),
            Ok((Err(e), a2, b2)) => json!({"ev": "mres", "idx": idx, "kind": "err", "msg": e.chars().filter(|c| c.is_ascii() && *c != '"' && *c != '\\').take(120).collect::<String>(), "outs": [], "a_after": a2, "b_after": b2}),
            Err(m) => json!({"ev": "mres", "idx": idx, "kind": "panic", "msg": m.chars().filter(|c| c.is_ascii() && *c != '"' && *c != '\\').take(120).collect::<String>(), "outs": [], "a_after": [], "b_after": []}),
        };
        tr.emit(rec);
    }
    tr.flush();
    eprintln!("programs={}", programs.len());
}
