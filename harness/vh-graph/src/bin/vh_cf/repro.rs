//! Minimal reproductions of the defects found through the C24 check, as hand-written
//! ONNX models run through `rten::Model` (`vh-cf repro`).

use super::prog::{Dt, Graph, Init, Node, Port, T};
use super::{Loaded, load, run_model};
use vcommon::onnx;

fn port(name: &str, ot: i32, shape: Option<Vec<usize>>) -> Port {
    Port {
        name: name.to_string(),
        ot,
        shape,
    }
}
fn init(name: &str, t: T) -> Init {
    Init {
        name: name.to_string(),
        t,
        as_node: false,
    }
}
fn cf(op: &str, ins: &[&str], outs: &[&str], g1: Graph, g2: Option<Graph>) -> Node {
    let mut n = Node::plain(op, ins, outs);
    n.g1 = Some(Box::new(g1));
    n.g2 = g2.map(Box::new);
    n
}
fn f32s(shape: &[usize], data: &[i64]) -> T {
    T::new(shape.to_vec(), Dt::F32, data.to_vec())
}

fn show(title: &str, g: &Graph, inputs: &[(String, T)], req: &[&str]) {
    println!("== {title}");
    let req: Vec<String> = req.iter().map(|s| s.to_string()).collect();
    for opt in [false, true] {
        let m = load(g.to_model(), opt);
        if let Loaded::Fail(k, msg, _) = &m {
            println!("   optimisation {:5}: Model::load -> {k}: {msg}", opt);
            continue;
        }
        for owned in [true, false] {
            let (outcome, msg, outs, _) = run_model(&m, inputs, &req, &[], owned);
            let outs: Vec<String> = outs.iter().map(|o| format!("{}{}", o["shape"], o["data"])).collect();
            println!(
                "   optimisation {:5} inputs {:8}: Model::run -> {outcome} {msg} {}",
                opt,
                if owned { "owned" } else { "borrowed" },
                outs.join(" ")
            );
        }
    }
}

/// Loop body (i, cond, acc) -> (cond, acc + x, acc * 2 as scan output)
fn scan_loop_model() -> Graph {
    let body = Graph {
        ins: vec![port("i", onnx::INT64, Some(vec![])), port("c", onnx::BOOL, Some(vec![])), port("acc", onnx::FLOAT, None)],
        inits: vec![init("two", f32s(&[], &[2]))],
        nodes: vec![
            Node::plain("Identity", &["c"], &["c_out"]),
            Node::plain("Add", &["acc", "x"], &["acc_out"]),
            Node::plain("Mul", &["acc", "two"], &["scan"]),
        ],
        outs: vec![port("c_out", onnx::BOOL, None), port("acc_out", onnx::FLOAT, None), port("scan", onnx::FLOAT, None)],
    };
    Graph {
        ins: vec![port("x", onnx::FLOAT, Some(vec![2])), port("m", onnx::INT64, Some(vec![]))],
        inits: vec![],
        nodes: vec![cf("Loop", &["m", "", "x"], &["final", "scans"], body, None)],
        outs: vec![port("final", onnx::FLOAT, None), port("scans", onnx::FLOAT, None)],
    }
}

pub fn main_repro() {
    vcommon::quiet_panics();
    let x = ("x".to_string(), f32s(&[2], &[1, 2]));

    // 1. zero-iteration loop with a scan output
    let g = scan_loop_model();
    show(
        "Loop with one carried value and one scan output, trip count 2 (works)",
        &g,
        &[x.clone(), ("m".to_string(), T::scalar_i64(2))],
        &["final", "scans"],
    );
    show(
        "the same model, trip count 0: the scan output is skipped, fewer outputs than declared",
        &g,
        &[x.clone(), ("m".to_string(), T::scalar_i64(0))],
        &["final", "scans"],
    );
    show(
        "the same model, trip count 0, only the carried output requested",
        &g,
        &[x.clone(), ("m".to_string(), T::scalar_i64(0))],
        &["final"],
    );

    // 2. a subgraph that returns one value twice
    let branch = |name: &str, op: &str| Graph {
        ins: vec![],
        inits: vec![],
        nodes: vec![Node::plain(op, &["x"], &[name])],
        outs: vec![port(name, onnx::FLOAT, None), port(name, onnx::FLOAT, None)],
    };
    let g = Graph {
        ins: vec![port("x", onnx::FLOAT, Some(vec![2])), port("cond", onnx::BOOL, Some(vec![]))],
        inits: vec![],
        nodes: vec![cf("If", &["cond"], &["a", "b"], branch("t", "Neg"), Some(branch("e", "Abs")))],
        outs: vec![port("a", onnx::FLOAT, None), port("b", onnx::FLOAT, None)],
    };
    show(
        "If whose branches return the same value for both outputs",
        &g,
        &[x.clone(), ("cond".to_string(), T::scalar_bool(true))],
        &["a", "b"],
    );

    // 3. nested If with a constant condition that uses a value of the outermost graph
    let inner = |name: &str, op: &str| Graph {
        ins: vec![],
        inits: vec![],
        nodes: vec![Node::plain(op, &["x"], &[name])],
        outs: vec![port(name, onnx::FLOAT, None)],
    };
    let middle = Graph {
        ins: vec![],
        inits: vec![init("always", T::scalar_bool(true))],
        nodes: vec![cf("If", &["always"], &["inner_out"], inner("it", "Neg"), Some(inner("ie", "Abs")))],
        outs: vec![port("inner_out", onnx::FLOAT, None)],
    };
    let other = Graph {
        ins: vec![],
        inits: vec![],
        nodes: vec![Node::plain("Identity", &["x"], &["oe"])],
        outs: vec![port("oe", onnx::FLOAT, None)],
    };
    let g = Graph {
        ins: vec![port("x", onnx::FLOAT, Some(vec![2])), port("cond", onnx::BOOL, Some(vec![]))],
        inits: vec![],
        nodes: vec![cf("If", &["cond"], &["y"], middle, Some(other))],
        outs: vec![port("y", onnx::FLOAT, None)],
    };
    show(
        "If(cond) { If(constant true) { Neg(x) } } with x a model input: constant propagation runs the inner If without its captures",
        &g,
        &[x.clone(), ("cond".to_string(), T::scalar_bool(true))],
        &["y"],
    );

    // 4. a value moved into a subgraph, read there, and read again by a nested subgraph
    let inner = Graph {
        ins: vec![],
        inits: vec![init("k", f32s(&[2], &[10, 20]))],
        nodes: vec![Node::plain("Sub", &["k", "t"], &["r"])],
        outs: vec![port("r", onnx::FLOAT, None)],
    };
    let inner_else = Graph {
        ins: vec![],
        inits: vec![init("k2", f32s(&[2], &[5, 5]))],
        nodes: vec![Node::plain("Identity", &["k2"], &["r2"])],
        outs: vec![port("r2", onnx::FLOAT, None)],
    };
    let middle = Graph {
        ins: vec![],
        inits: vec![],
        nodes: vec![
            Node::plain("Abs", &["t"], &["a"]),
            cf("If", &["cond2"], &["n"], inner, Some(inner_else)),
            Node::plain("Add", &["a", "n"], &["mo"]),
        ],
        outs: vec![port("mo", onnx::FLOAT, None)],
    };
    let other = Graph {
        ins: vec![],
        inits: vec![init("k3", f32s(&[2], &[7, 7]))],
        nodes: vec![Node::plain("Identity", &["k3"], &["oe"])],
        outs: vec![port("oe", onnx::FLOAT, None)],
    };
    let g = Graph {
        ins: vec![
            port("x", onnx::FLOAT, Some(vec![2])),
            port("cond", onnx::BOOL, Some(vec![])),
            port("cond2", onnx::BOOL, Some(vec![])),
        ],
        inits: vec![],
        nodes: vec![Node::plain("Neg", &["x"], &["t"]), cf("If", &["cond"], &["y"], middle, Some(other))],
        outs: vec![port("y", onnx::FLOAT, None)],
    };
    show(
        "t = Neg(x); If(cond) { a = Abs(t); n = If(cond2) { k - t }; a + n }: t is moved into the outer branch, then into the inner If",
        &g,
        &[x.clone(), ("cond".to_string(), T::scalar_bool(true)), ("cond2".to_string(), T::scalar_bool(true))],
        &["y"],
    );
}
