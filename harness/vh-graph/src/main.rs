//! vh-graph: graph-level engines (planner, executor, plan cache, buffer pool, ...).
mod exec;
mod partial;
mod plan;
mod pool;
mod prepack;
mod realops;
mod requests;
mod synth;

fn main() {
    let cmd = std::env::args().nth(1).unwrap_or_default();
    match cmd.as_str() {
        "exec" => exec::main_exec(),
        "exec-prepack" => prepack::main_prepack(),
        "exec-realops" => realops::main_realops(),
        "partial" => partial::main_partial(),
        "partial-random" => partial::main_partial_random(),
        "plan" => plan::main_plan(),
        "pool" => pool::main_pool(),
        "pool-stress" => pool::main_pool_stress(),
        "pool-race" => pool::main_pool_race(),
        "requests" => requests::main_requests(),
        _ => {
            eprintln!("usage: vh-graph <plan|...> [options]");
            std::process::exit(2);
        }
    }
}
