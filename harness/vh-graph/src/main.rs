//! vh-graph: graph-level engines (planner, executor, plan cache, buffer pool, ...).
mod plan;
mod synth;

fn main() {
    let cmd = std::env::args().nth(1).unwrap_or_default();
    match cmd.as_str() {
        "plan" => plan::main_plan(),
        _ => {
            eprintln!("usage: vh-graph <plan|...> [options]");
            std::process::exit(2);
        }
    }
}
