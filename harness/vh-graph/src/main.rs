fn main() {
    eprintln!("usage: vh-graph <subcommand> [options]");
    std::process::exit(2);
}
