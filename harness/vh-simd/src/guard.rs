//! Guard-page buffers: an observation instrument that turns an out-of-slice
//! SIMD load or store into a SIGSEGV of the (child) process.
//!
//! Layout: [PROT_NONE page][accessible pages][PROT_NONE page]. The slice is
//! placed flush against the high guard page ("hi": catches any access past
//! the end) or flush against the low guard page ("lo": catches any access
//! before the start). The rest of the accessible region is filled with a
//! sentinel byte and checked afterwards (stores into the slack on the
//! non-flush side).

use std::marker::PhantomData;

pub const SENTINEL: u8 = 0xA5;

#[derive(Copy, Clone, Debug, PartialEq, Eq)]
pub enum Place {
    Hi,
    Lo,
}

impl Place {
    pub fn name(self) -> &'static str {
        match self {
            Place::Hi => "hi",
            Place::Lo => "lo",
        }
    }
    pub fn parse(s: &str) -> Place {
        match s {
            "hi" => Place::Hi,
            "lo" => Place::Lo,
            _ => panic!("bad place {s}"),
        }
    }
}

pub struct GuardBuf<T> {
    base: *mut u8,
    total: usize,
    page: usize,
    data_pages: usize,
    off: usize, // byte offset of the slice inside the accessible region
    len: usize, // elements
    _t: PhantomData<T>,
}

impl<T: Copy> GuardBuf<T> {
    pub fn new(len: usize, place: Place) -> GuardBuf<T> {
        let page = unsafe { libc::sysconf(libc::_SC_PAGESIZE) } as usize;
        let bytes = len * size_of::<T>();
        let data_pages = bytes.div_ceil(page).max(1);
        let total = (data_pages + 2) * page;
        let base = unsafe {
            libc::mmap(
                std::ptr::null_mut(),
                total,
                libc::PROT_READ | libc::PROT_WRITE,
                libc::MAP_PRIVATE | libc::MAP_ANONYMOUS,
                -1,
                0,
            )
        };
        assert!(base != libc::MAP_FAILED, "mmap failed");
        let base = base as *mut u8;
        unsafe {
            std::ptr::write_bytes(base.add(page), SENTINEL, data_pages * page);
            assert_eq!(libc::mprotect(base as *mut libc::c_void, page, libc::PROT_NONE), 0);
            assert_eq!(
                libc::mprotect(base.add((data_pages + 1) * page) as *mut libc::c_void, page, libc::PROT_NONE),
                0
            );
        }
        let off = match place {
            Place::Hi => data_pages * page - bytes,
            Place::Lo => 0,
        };
        GuardBuf { base, total, page, data_pages, off, len, _t: PhantomData }
    }

    pub fn ptr(&self) -> *mut T {
        unsafe { self.base.add(self.page + self.off) as *mut T }
    }

    pub fn slice(&self) -> &[T] {
        unsafe { std::slice::from_raw_parts(self.ptr(), self.len) }
    }

    #[allow(clippy::mut_from_ref)]
    pub fn slice_mut(&mut self) -> &mut [T] {
        unsafe { std::slice::from_raw_parts_mut(self.ptr(), self.len) }
    }

    pub fn uninit_mut(&mut self) -> &mut [std::mem::MaybeUninit<T>] {
        unsafe { std::slice::from_raw_parts_mut(self.ptr() as *mut std::mem::MaybeUninit<T>, self.len) }
    }

    pub fn fill(&mut self, vals: &[T]) {
        self.slice_mut().copy_from_slice(vals);
    }

    /// Byte offsets (relative to the slice start; negative = before it) of
    /// sentinel bytes that were overwritten. At most 8 are reported.
    pub fn damage(&self) -> Vec<i64> {
        let region = unsafe { std::slice::from_raw_parts(self.base.add(self.page), self.data_pages * self.page) };
        let bytes = self.len * size_of::<T>();
        let mut d = vec![];
        for (i, b) in region.iter().enumerate() {
            if (i < self.off || i >= self.off + bytes) && *b != SENTINEL {
                d.push(i as i64 - self.off as i64);
                if d.len() >= 8 {
                    break;
                }
            }
        }
        d
    }
}

impl<T> Drop for GuardBuf<T> {
    fn drop(&mut self) {
        unsafe {
            libc::munmap(self.base as *mut libc::c_void, self.total);
        }
    }
}
