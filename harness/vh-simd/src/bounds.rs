//! C18 bounds engine: enumerate (function, type, ISA, length, placement)
//! cases, run each in a child process on guard-page buffers, and turn a dead
//! child (SIGSEGV on a guard page, abort, timeout) into an outcome record.
//!
//! Parent:  vh-simd bounds --fam mem|vm --out trace.ndjson [--only-case JSON]
//! Child:   vh-simd bounds-child --cases FILE --from K --log FILE
//! The child appends `{"begin": idx}` before and the result record after each
//! case (unbuffered), so the parent knows which case killed it.

use std::fs::{File, OpenOptions};
use std::io::Write;

use vcommon::{ChildOutcome, Rng, Trace, Value, guarded, json, read_json_lines, run_child};

use crate::guard::Place;
use crate::isa::{ALL, IsaSel};
use crate::{mem, vm};

/// Wall-clock budget of a single case in the child (seconds).
const CASE_TIMEOUT_S: u32 = 60;

fn thorough() -> bool {
    std::env::var("VERIF_TIER").map(|t| t == "thorough").unwrap_or(false)
}

/// Slice lengths 0..=4v+3: all of them (thorough) or the boundary ones plus a seeded sample.
fn lengths(v: usize, rng: &mut Rng, all: bool) -> Vec<usize> {
    let maxn = 4 * v + 3;
    if all {
        return (0..=maxn).collect();
    }
    let mut l = vec![0, 1, 3, v - 1, v, v + 1, 2 * v - 1, 2 * v, 2 * v + 1, 3 * v + 2, 4 * v - 1, 4 * v, maxn];
    for _ in 0..2 {
        l.push(rng.below(maxn + 1));
    }
    l.sort();
    l.dedup();
    l
}

fn mem_cases(rng: &mut Rng, part: &str) -> Vec<Value> {
    let all = thorough();
    let mut cases = vec![];
    for ty in ["f32", "i32", "i16", "u16", "i8", "u8", "f16"] {
        if part != "all" && part != ty {
            continue;
        }
        let mut sels: Vec<IsaSel> = ALL.iter().copied().filter(|s| s.available()).collect();
        sels.push(IsaSel::Dispatch);
        for sel in sels {
            let fns: Vec<&str> = if sel == IsaSel::Dispatch {
                if ty == "f16" { vec![] } else { mem::DISPATCH_FNS.to_vec() }
            } else if ty == "f16" {
                mem::BIT_FNS.to_vec()
            } else {
                mem::NUM_FNS.to_vec()
            };
            let v = mem::width(ty, sel);
            let ls = lengths(v, rng, all);
            for fun in fns {
                for &n in &ls {
                    for place in [Place::Hi, Place::Lo] {
                        if place == Place::Lo && !all && ![0, 1, v - 1, v + 1, 4 * v + 3].contains(&n) {
                            continue;
                        }
                        cases.push(json!({"fam": "mem", "fn": fun, "ty": ty, "isa": sel.name(), "n": n,
                                          "place": place.name()}));
                    }
                }
            }
        }
    }
    cases
}

fn vm_cases(rng: &mut Rng, part: &str) -> Vec<Value> {
    let all = thorough();
    let sels: Vec<IsaSel> = ALL.iter().copied().filter(|s| s.available()).collect();
    let widest = *sels.last().unwrap();
    let mut cases = vec![];
    let mut groups: Vec<(&str, &str, &str)> = vec![]; // (op, variant, dclass)
    for op in vm::UNARY {
        for variant in ["srcdst", "inplace"] {
            for d in ["rand", "grid"] {
                groups.push((op, variant, d));
            }
        }
    }
    for op in vm::SLICE_OPS {
        for variant in ["srcdst", "inplace"] {
            let ds: &[&str] = if op.starts_with("normalize") { &["ints"] } else { &["moderate", "grid"] };
            for d in ds {
                groups.push((op, variant, d));
            }
        }
    }
    for op in vm::REDUCE {
        let ds: &[&str] = match *op {
            "min_max" | "max_num" | "min_num" => &["rand", "grid", "ints"],
            "sum_exp_sub" => &["moderate", "grid"],
            _ => &["ints", "rand"],
        };
        for d in ds {
            groups.push((op, "reduce", d));
        }
    }
    for d in ["rand", "grid"] {
        groups.push(("f16_to_f32", "srcdst", d));
        groups.push(("f32_to_f16", "srcdst", d));
    }
    for variant in ["s1_z0", "s1_z10", "s05_z255", "s52_z10"] {
        for d in ["moderate", "ints", "grid"] {
            groups.push(("quantize", variant, d));
        }
    }
    for (op, variant, d) in groups {
        let grp = if vm::UNARY.contains(&op) {
            "unary"
        } else if vm::SLICE_OPS.contains(&op) {
            "slice"
        } else if vm::REDUCE.contains(&op) {
            "reduce"
        } else {
            "convert"
        };
        if part != "all" && part != op && part != grp {
            continue;
        }
        let ls = lengths(vm::block(op, widest), rng, all);
        for &n in &ls {
            let b = vm::block(op, widest);
            for place in [Place::Hi, Place::Lo] {
                if place == Place::Lo && !all && ![0, 1, b - 1, b + 1, 4 * b + 3].contains(&n) {
                    continue;
                }
                for sel in &sels {
                    cases.push(json!({"fam": "vm", "op": op, "variant": variant, "dclass": d, "isa": sel.name(),
                                      "n": n, "place": place.name()}));
                }
            }
        }
    }
    cases
}

fn s<'a>(c: &'a Value, k: &str) -> &'a str {
    c[k].as_str().unwrap_or("")
}

fn run_one(c: &Value, seed: u64) -> Value {
    let sel = IsaSel::parse(s(c, "isa"));
    let n = c["n"].as_u64().unwrap() as usize;
    let place = Place::parse(s(c, "place"));
    match s(c, "fam") {
        "mem" => mem::run_case(s(c, "fn"), s(c, "ty"), sel, n, place),
        "vm" => vm::run_case(s(c, "op"), s(c, "variant"), s(c, "dclass"), sel, n, place, seed),
        f => panic!("bad fam {f}"),
    }
}

pub fn main_child() {
    let cases = read_json_lines(&vcommon::arg("--cases").expect("--cases"));
    let from = vcommon::arg_usize("--from", 0);
    let log = vcommon::arg("--log").expect("--log");
    let seed = vcommon::seed_from_env();
    vcommon::quiet_panics();
    let mut f: File = OpenOptions::new().create(true).append(true).open(&log).expect("open log");
    for (idx, c) in cases.iter().enumerate().skip(from) {
        f.write_all(format!("{{\"begin\":{idx}}}\n").as_bytes()).unwrap();
        // per-case watchdog: a hang of the code under test kills the child with SIGALRM
        unsafe { libc::alarm(CASE_TIMEOUT_S) };
        let r = guarded(|| run_one(c, seed));
        unsafe { libc::alarm(0) };
        let rec = match r {
            Ok(v) => json!({"idx": idx, "st": "ok", "res": v}),
            Err(msg) => json!({"idx": idx, "st": "panic", "msg": msg.chars().take(120).collect::<String>()}),
        };
        let mut line = serde_json::to_vec(&rec).unwrap();
        line.push(b'\n');
        f.write_all(&line).unwrap();
    }
}

/// Run all cases through child processes; returns per case (st, sig, res).
fn run_cases(cases: &[Value], work: &str) -> Vec<(String, i64, Value)> {
    let cases_path = format!("{work}.cases.jsonl");
    {
        let mut f = File::create(&cases_path).unwrap();
        for c in cases {
            serde_json::to_writer(&mut f, c).unwrap();
            f.write_all(b"\n").unwrap();
        }
    }
    let log = format!("{work}.child.log");
    let mut results: Vec<Option<(String, i64, Value)>> = vec![None; cases.len()];
    let mut from = 0usize;
    let mut spawns = 0;
    while from < cases.len() {
        let _ = std::fs::remove_file(&log);
        spawns += 1;
        let from_s = from.to_string();
        let outcome = run_child(&["bounds-child", "--cases", &cases_path, "--from", &from_s, "--log", &log],
                                b"", 7_200_000, 0);
        let lines = if std::path::Path::new(&log).exists() { read_json_lines(&log) } else { vec![] };
        let mut begun: Option<usize> = None;
        for l in &lines {
            if let Some(b) = l.get("begin") {
                begun = Some(b.as_u64().unwrap() as usize);
            } else {
                let idx = l["idx"].as_u64().unwrap() as usize;
                results[idx] = Some((l["st"].as_str().unwrap().to_string(), 0, l.get("res").cloned().unwrap_or(json!({}))));
                if begun == Some(idx) {
                    begun = None;
                }
            }
        }
        let (st, sig) = match outcome {
            ChildOutcome::Ok(_) => ("ok".to_string(), 0),
            ChildOutcome::Abort(sig) if sig == libc::SIGALRM => ("timeout".to_string(), sig as i64),
            ChildOutcome::Abort(sig) => ("abort".to_string(), sig as i64),
            ChildOutcome::Timeout => ("timeout".to_string(), 0),
            ChildOutcome::Panic(m) => {
                eprintln!("bounds child failed: {m}");
                std::process::exit(2)
            }
        };
        match (st.as_str(), begun) {
            ("ok", _) => break,
            (_, Some(idx)) => {
                results[idx] = Some((st, sig, json!({})));
                from = idx + 1;
            }
            (_, None) => {
                eprintln!("bounds child died ({st}) outside any case");
                std::process::exit(2)
            }
        }
        if spawns > 20000 {
            eprintln!("too many child restarts");
            std::process::exit(2)
        }
    }
    let _ = std::fs::remove_file(&log);
    let _ = std::fs::remove_file(&cases_path);
    results
        .into_iter()
        .enumerate()
        .map(|(i, r)| r.unwrap_or_else(|| {
            eprintln!("case {i} has no result");
            std::process::exit(2)
        }))
        .collect()
}

fn arr(res: &Value, k: &str) -> Value {
    res.get(k).cloned().unwrap_or(json!([]))
}

pub fn main_bounds() {
    let out = vcommon::arg_or("--out", "-");
    let fam = vcommon::arg_or("--fam", "mem");
    let part = vcommon::arg_or("--part", "all");
    let mut rng = Rng::from_env();
    let mut cases = match vcommon::arg("--only-case") {
        Some(js) => {
            let c: Value = serde_json::from_str(&js).expect("--only-case json");
            // a vm replay re-runs the whole ISA group of the case
            if c["fam"] == "vm" {
                ALL.iter().filter(|s| s.available()).map(|sel| {
                    let mut c2 = c.clone();
                    c2["isa"] = json!(sel.name());
                    c2
                }).collect()
            } else {
                vec![c]
            }
        }
        None => match fam.as_str() {
            "mem" => mem_cases(&mut rng, &part),
            "vm" => vm_cases(&mut rng, &part),
            _ => panic!("bad --fam"),
        },
    };
    if let Some(limit) = vcommon::arg("--limit") {
        cases.truncate(limit.parse().unwrap());
    }
    let work = format!("{}.{}", if out == "-" { "bounds".to_string() } else { out.clone() }, std::process::id());
    let results = run_cases(&cases, &work);
    let mut tr = Trace::create(&out);
    tr.emit(json!({"ev": "meta", "fam": fam, "part": part, "cases": cases.len()}));
    let mut i = 0;
    while i < cases.len() {
        let c = &cases[i];
        if c["fam"] == "mem" {
            let (st, sig, res) = &results[i];
            tr.emit(json!({"ev": "mem", "fn": c["fn"], "ty": c["ty"], "isa": c["isa"], "n": c["n"], "place": c["place"],
                           "st": st, "sig": sig, "v": mem::width(s(c, "ty"), IsaSel::parse(s(c, "isa"))),
                           "inp": arr(res, "inp"), "calls": arr(res, "calls"), "masks": arr(res, "masks"),
                           "out": arr(res, "out"), "aux": arr(res, "aux"), "src_after": arr(res, "src_after"),
                           "dst_after": arr(res, "dst_after"), "dmg": arr(res, "dmg")}));
            i += 1;
        } else {
            // group of consecutive cases that differ only in the ISA
            let same = |a: &Value, b: &Value| ["op", "variant", "dclass", "n", "place"].iter().all(|k| a[*k] == b[*k]);
            let mut j = i;
            while j < cases.len() && same(&cases[j], c) {
                j += 1;
            }
            let grp = &results[i..j];
            let first_ok = grp.iter().find(|(st, _, _)| st == "ok").map(|(_, _, r)| r.clone()).unwrap_or(json!({}));
            let col = |k: &str| -> Vec<Value> { grp.iter().map(|(_, _, r)| arr(r, k)).collect() };
            tr.emit(json!({"ev": "vm", "op": c["op"], "variant": c["variant"], "dclass": c["dclass"], "n": c["n"],
                           "place": c["place"],
                           "isas": cases[i..j].iter().map(|x| x["isa"].clone()).collect::<Vec<Value>>(),
                           "st": grp.iter().map(|(st, _, _)| json!(st)).collect::<Vec<Value>>(),
                           "sig": grp.iter().map(|(_, sg, _)| json!(sg)).collect::<Vec<Value>>(),
                           "inp": arr(&first_ok, "inp"), "extra_in": arr(&first_ok, "extra_in"),
                           "params": arr(&first_ok, "params"),
                           "out": col("out"), "aux": col("aux"), "dmg": col("dmg"), "src_after": col("src_after")}));
            i = j;
        }
    }
    tr.flush();
}
