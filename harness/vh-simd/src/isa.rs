//! Evaluate a `SimdOp` on a chosen instruction set, exactly as
//! `rten_simd::dispatch` does (a `#[target_feature]` wrapper per ISA so the
//! intrinsics inline), but with the ISA selected by the harness.

use rten_simd::isa::{Avx2Isa, Avx512Isa, GenericIsa};
use rten_simd::{Isa, SimdOp};

#[derive(Copy, Clone, Debug, PartialEq, Eq)]
pub enum IsaSel {
    Generic,
    Avx2,
    Avx512,
    /// `SimdOp::dispatch()` (whatever the crate picks on this host).
    Dispatch,
}

pub const ALL: [IsaSel; 3] = [IsaSel::Generic, IsaSel::Avx2, IsaSel::Avx512];

impl IsaSel {
    pub fn name(self) -> &'static str {
        match self {
            IsaSel::Generic => "generic",
            IsaSel::Avx2 => "avx2",
            IsaSel::Avx512 => "avx512",
            IsaSel::Dispatch => "dispatch",
        }
    }
    pub fn parse(s: &str) -> IsaSel {
        match s {
            "generic" => IsaSel::Generic,
            "avx2" => IsaSel::Avx2,
            "avx512" => IsaSel::Avx512,
            "dispatch" => IsaSel::Dispatch,
            _ => panic!("unknown isa {s}"),
        }
    }
    pub fn available(self) -> bool {
        match self {
            IsaSel::Generic | IsaSel::Dispatch => true,
            IsaSel::Avx2 => Avx2Isa::new().is_some(),
            IsaSel::Avx512 => Avx512Isa::new().is_some(),
        }
    }
}

// The target features enabled here match those tested by `Avx512Isa::new`
// (same list as rten-simd/src/dispatch.rs).
#[target_feature(enable = "avx512f")]
#[target_feature(enable = "avx512vl")]
#[target_feature(enable = "avx512bw")]
#[target_feature(enable = "avx512dq")]
#[target_feature(enable = "f16c")]
unsafe fn eval_avx512<Op: SimdOp>(isa: impl Isa, op: Op) -> Op::Output {
    op.eval(isa)
}

#[target_feature(enable = "avx2")]
#[target_feature(enable = "avx")]
#[target_feature(enable = "fma")]
#[target_feature(enable = "f16c")]
unsafe fn eval_avx2<Op: SimdOp>(isa: impl Isa, op: Op) -> Op::Output {
    op.eval(isa)
}

/// Evaluate `op` with the selected ISA. Panics if the ISA is unavailable
/// (callers check `available()` first).
pub fn eval_on<Op: SimdOp>(sel: IsaSel, op: Op) -> Op::Output {
    match sel {
        IsaSel::Generic => op.eval(GenericIsa::new()),
        IsaSel::Avx2 => {
            let isa = Avx2Isa::new().expect("avx2 unavailable");
            unsafe { eval_avx2(isa, op) }
        }
        IsaSel::Avx512 => {
            let isa = Avx512Isa::new().expect("avx512 unavailable");
            unsafe { eval_avx512(isa, op) }
        }
        IsaSel::Dispatch => op.dispatch(),
    }
}
