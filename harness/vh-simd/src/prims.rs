//! C18 primitives engine: evaluate every rten-simd primitive on chosen ISAs
//! and record operands + per-ISA results. Nothing is judged here: the
//! expected lane values are computed by TLC from `SimdInt.tla` /
//! `SimdFloat.tla`, and cross-ISA equality is evaluated by the trace spec.

use rten_simd::ops::{
    BitOps, Concat, Extend, FloatOps, IntOps, Interleave, MaskOps, NarrowSaturate, NumOps,
    SignedIntOps, ToFloat,
};
use rten_simd::{Isa, Mask, Simd, SimdOp, f16};
use vcommon::{Rng, Trace, Value, guarded, json};

use crate::isa::{ALL, eval_on};

/// Largest vector width in lanes (AVX-512, 8-bit lanes).
pub const MAXV: usize = 64;

// --------------------------------------------------------------- lane jobs

/// Lane-wise integer operation applied to flat operand lists whose length is
/// a multiple of `MAXV`; every ISA processes them in chunks of its own width.
pub struct IntLane<'a, T> {
    pub op: &'a str,
    pub k: i32,
    pub a: &'a [T],
    pub b: &'a [T],
    pub c: &'a [T],
}

enum R<S, M> {
    V(S),
    M(M),
}

macro_rules! shift_match {
    ($ops:ident, $x:ident, $k:expr, $f:ident, [$($s:literal),*]) => {
        match $k { $( $s => $ops.$f::<$s>($x), )* _ => panic!("harness: bad shift") }
    };
}

macro_rules! signed_arm {
    (true, $ops:ident, $op:expr, $x:ident) => {
        match $op {
            "neg" => Some($ops.neg($x)),
            "abs" => Some($ops.abs($x)),
            _ => None,
        }
    };
    (false, $ops:ident, $op:expr, $x:ident) => {{
        let _ = $x;
        None
    }};
}

macro_rules! impl_int_lane {
    ($T:ty, $acc:ident, $signed:tt, [$($s:literal),*]) => {
        impl SimdOp for IntLane<'_, $T> {
            type Output = Vec<i64>;

            #[inline(always)]
            fn eval<I: Isa>(self, isa: I) -> Vec<i64> {
                let ops = isa.$acc();
                let v = ops.len();
                let n = self.a.len();
                let mut out = Vec::with_capacity(n);
                let mut buf = vec![<$T>::default(); v];
                let mut i = 0;
                while i + v <= n {
                    let x = ops.load(&self.a[i..]);
                    let y = if self.b.is_empty() { x } else { ops.load(&self.b[i..]) };
                    let z = if self.c.is_empty() { x } else { ops.load(&self.c[i..]) };
                    let r = match self.op {
                        "add" => R::V(ops.add(x, y)),
                        "sub" => R::V(ops.sub(x, y)),
                        "mul" => R::V(ops.mul(x, y)),
                        "min" => R::V(ops.min(x, y)),
                        "max" => R::V(ops.max(x, y)),
                        "and" => R::V(ops.and(x, y)),
                        "or" => R::V(ops.or(x, y)),
                        "xor" => R::V(ops.xor(x, y)),
                        "not" => R::V(ops.not(x)),
                        "eq" => R::M(ops.eq(x, y)),
                        "ge" => R::M(ops.ge(x, y)),
                        "gt" => R::M(ops.gt(x, y)),
                        "lt" => R::M(ops.lt(x, y)),
                        "le" => R::M(ops.le(x, y)),
                        "mul_add" => R::V(ops.mul_add(x, y, z)),
                        "clamp" => R::V(ops.clamp(x, y, z)),
                        // mask := z > 0
                        "select" => R::V(ops.select(x, y, ops.gt(z, ops.zero()))),
                        // x*c0 + x^2*c1 + x^3*3 with c0 = y, c1 = z
                        "poly" => R::V(ops.poly_eval(x, &[y, z, ops.splat(3 as $T)])),
                        "shl" => R::V(shift_match!(ops, x, self.k, shift_left, [$($s),*])),
                        "shr" => R::V(shift_match!(ops, x, self.k, shift_right, [$($s),*])),
                        other => match signed_arm!($signed, ops, other, x) {
                            Some(s) => R::V(s),
                            None => panic!("harness: unknown op {other}"),
                        },
                    };
                    match r {
                        R::V(s) => {
                            ops.store(s, &mut buf);
                            out.extend(buf.iter().map(|e| *e as i64));
                        }
                        R::M(m) => out.extend(m.to_array().as_ref().iter().map(|b| *b as i64)),
                    }
                    i += v;
                }
                out
            }
        }
    };
}

impl_int_lane!(i8, i8, true, [0, 1, 2, 3, 4, 5, 6, 7]);
impl_int_lane!(u8, u8, false, [0, 1, 2, 3, 4, 5, 6, 7]);
impl_int_lane!(i16, i16, true, [0, 1, 2, 3, 4, 5, 6, 7, 8, 9, 10, 11, 12, 13, 14, 15]);
impl_int_lane!(u16, u16, false, [0, 1, 2, 3, 4, 5, 6, 7, 8, 9, 10, 11, 12, 13, 14, 15]);
impl_int_lane!(
    i32,
    i32,
    true,
    [
        0, 1, 2, 3, 4, 5, 6, 7, 8, 9, 10, 11, 12, 13, 14, 15, 16, 17, 18, 19, 20, 21, 22, 23, 24,
        25, 26, 27, 28, 29, 30, 31
    ]
);

/// Lane-wise f32 operation; operands and results are bit patterns.
pub struct F32Lane<'a> {
    pub op: &'a str,
    pub a: &'a [f32],
    pub b: &'a [f32],
    pub c: &'a [f32],
}

impl SimdOp for F32Lane<'_> {
    type Output = Vec<i64>;

    #[inline(always)]
    fn eval<I: Isa>(self, isa: I) -> Vec<i64> {
        let ops = isa.f32();
        let iops = isa.i32();
        let v = ops.len();
        let n = self.a.len();
        let mut out = Vec::with_capacity(n);
        let mut buf = vec![0f32; v];
        let mut ibuf = vec![0i32; v];
        enum RF<S, M, J> {
            V(S),
            M(M),
            I(J),
        }
        let mut i = 0;
        while i + v <= n {
            let x = ops.load(&self.a[i..]);
            let y = if self.b.is_empty() { x } else { ops.load(&self.b[i..]) };
            let z = if self.c.is_empty() { x } else { ops.load(&self.c[i..]) };
            let r = match self.op {
                "add" => RF::V(ops.add(x, y)),
                "sub" => RF::V(ops.sub(x, y)),
                "mul" => RF::V(ops.mul(x, y)),
                "div" => RF::V(ops.div(x, y)),
                "min" => RF::V(ops.min(x, y)),
                "max" => RF::V(ops.max(x, y)),
                "and" => RF::V(ops.and(x, y)),
                "or" => RF::V(ops.or(x, y)),
                "xor" => RF::V(ops.xor(x, y)),
                "not" => RF::V(ops.not(x)),
                "neg" => RF::V(ops.neg(x)),
                "abs" => RF::V(ops.abs(x)),
                "reciprocal" => RF::V(ops.reciprocal(x)),
                "round_ties_even" => RF::V(ops.round_ties_even(x)),
                "mul_add" => RF::V(ops.mul_add(x, y, z)),
                "mul_sub_from" => RF::V(ops.mul_sub_from(x, y, z)),
                "clamp" => RF::V(ops.clamp(x, y, z)),
                // mask := z > 0 evaluated on the bit pattern as i32 (no float compare involved)
                "select" => {
                    let zi: I::I32 = z.reinterpret_cast();
                    RF::V(ops.select(x, y, iops.gt(zi, iops.zero())))
                }
                "eq" => RF::M(ops.eq(x, y)),
                "ge" => RF::M(ops.ge(x, y)),
                "gt" => RF::M(ops.gt(x, y)),
                "lt" => RF::M(ops.lt(x, y)),
                "le" => RF::M(ops.le(x, y)),
                "to_int_trunc" => RF::I(ops.to_int_trunc(x)),
                "to_int_round" => RF::I(ops.to_int_round(x)),
                // i32 -> f32: operand bit pattern is the integer
                "to_float" => {
                    let xi: I::I32 = x.reinterpret_cast();
                    RF::V(iops.to_float(xi))
                }
                other => panic!("harness: unknown f32 op {other}"),
            };
            match r {
                RF::V(s) => {
                    ops.store(s, &mut buf);
                    out.extend(buf.iter().map(|e| e.to_bits() as i32 as i64));
                }
                RF::M(m) => out.extend(m.to_array().as_ref().iter().map(|b| *b as i64)),
                RF::I(s) => {
                    iops.store(s, &mut ibuf);
                    out.extend(ibuf.iter().map(|e| *e as i64));
                }
            }
            i += v;
        }
        out
    }
}

/// Lane-wise bit operation on f16 vectors (BitOps only); bit patterns as u16.
pub struct F16Lane<'a> {
    pub op: &'a str,
    pub a: &'a [f16],
    pub b: &'a [f16],
    pub c: &'a [f16],
}

impl SimdOp for F16Lane<'_> {
    type Output = Vec<i64>;

    #[inline(always)]
    fn eval<I: Isa>(self, isa: I) -> Vec<i64> {
        let ops = isa.f16();
        let iops = isa.i16();
        let v = ops.len();
        let n = self.a.len();
        let mut out = Vec::with_capacity(n);
        let mut buf = vec![f16::default(); v];
        let mut i = 0;
        while i + v <= n {
            let x = ops.load(&self.a[i..]);
            let y = if self.b.is_empty() { x } else { ops.load(&self.b[i..]) };
            let z = if self.c.is_empty() { x } else { ops.load(&self.c[i..]) };
            let r = match self.op {
                "and" => ops.and(x, y),
                "or" => ops.or(x, y),
                "xor" => ops.xor(x, y),
                "not" => ops.not(x),
                "select" => {
                    let zi: I::I16 = z.reinterpret_cast();
                    ops.select(x, y, iops.gt(zi, iops.zero()))
                }
                other => panic!("harness: unknown f16 op {other}"),
            };
            ops.store(r, &mut buf);
            out.extend(buf.iter().map(|e| e.to_bits() as i64));
            i += v;
        }
        out
    }
}

// ---------------------------------------------------------- whole-vector jobs

/// Whole-vector operation on one vector pair (first `v` lanes of `a`, `b`).
/// Output: (v, result lanes).
pub struct VecJob<'a, T> {
    pub op: &'a str,
    pub k: usize,
    pub a: &'a [T],
    pub b: &'a [T],
}

fn mask_vals<M: Mask>(m: M) -> Vec<i64> {
    m.to_array().as_ref().iter().map(|b| *b as i64).collect()
}

macro_rules! vals {
    ($s:expr) => {
        $s.to_array().as_ref().iter().map(|e| *e as i64).collect::<Vec<i64>>()
    };
}

macro_rules! lane_match {
    ($ops:ident, $x:ident, $k:expr, [$($l:literal),*]) => {
        match $k { $( $l => $ops.broadcast_lane::<$l>($x), )* _ => panic!("harness: bad lane") }
    };
}

/// Operations available for every numeric element type.
macro_rules! vec_common {
    ($self:ident, $isa:ident, $ops:ident, $mops:ident, $T:ty, $x:ident, $y:ident) => {
        match $self.op {
            "sum" => Some(vec![$ops.sum($x) as i64]),
            "first_n" => Some(mask_vals($ops.first_n_mask($self.k))),
            "splat" => Some(vals!($ops.splat($self.a[0]))),
            "zero" => Some(vals!($ops.zero())),
            "one" => Some(vals!($ops.one())),
            "broadcast_lane" => Some(vals!(lane_match!($ops, $x, $self.k, [0, 1, 2, 3]))),
            "fold_splat" => Some(vals!($ops.fold_splat($x, $self.b[0], |p, q| p.wrapping_add(q)))),
            // load_pad of the first k elements: lanes followed by mask lanes
            "load_pad" => {
                let (vec, mask) = $ops.load_pad(&$self.a[..$self.k]);
                let mut o = vals!(vec);
                o.extend(mask_vals(mask));
                Some(o)
            }
            // masks m1 = (a > 0), m2 = (b > 0): [any(m1), all(m1), all_false(m1)] ++ and(m1, m2) ++ m1 ++ m2
            "mask_ops" => {
                let m1 = $ops.gt($x, $ops.zero());
                let m2 = $ops.gt($y, $ops.zero());
                let mut o = vec![$mops.any(m1) as i64, $mops.all(m1) as i64, $mops.all_false(m1) as i64];
                o.extend(mask_vals($mops.and(m1, m2)));
                o.extend(mask_vals(m1));
                o.extend(mask_vals(m2));
                Some(o)
            }
            _ => None,
        }
    };
}

macro_rules! vec_extend {
    (true, $self:ident, $ops:ident, $x:ident) => {
        match $self.op {
            "extend_low" => Some(vals!($ops.extend_low($x))),
            "extend_high" => Some(vals!($ops.extend_high($x))),
            _ => None,
        }
    };
    (false, $self:ident, $ops:ident, $x:ident) => {
        None::<Vec<i64>>
    };
}
macro_rules! vec_interleave {
    (true, $self:ident, $ops:ident, $x:ident, $y:ident) => {
        match $self.op {
            "interleave_low" => Some(vals!($ops.interleave_low($x, $y))),
            "interleave_high" => Some(vals!($ops.interleave_high($x, $y))),
            _ => None,
        }
    };
    (false, $self:ident, $ops:ident, $x:ident, $y:ident) => {
        None::<Vec<i64>>
    };
}
macro_rules! vec_concat {
    (true, $self:ident, $ops:ident, $x:ident, $y:ident) => {
        match $self.op {
            "concat_low" => Some(vals!($ops.concat_low($x, $y))),
            "concat_high" => Some(vals!($ops.concat_high($x, $y))),
            _ => None,
        }
    };
    (false, $self:ident, $ops:ident, $x:ident, $y:ident) => {
        None::<Vec<i64>>
    };
}
macro_rules! vec_narrow {
    (true, $self:ident, $ops:ident, $x:ident, $y:ident) => {
        match $self.op {
            "narrow_saturate" => Some(vals!($ops.narrow_saturate($x, $y))),
            _ => None,
        }
    };
    (false, $self:ident, $ops:ident, $x:ident, $y:ident) => {
        None::<Vec<i64>>
    };
}

macro_rules! impl_vec_job {
    ($T:ty, $acc:ident, $macc:ident, extend=$e:tt, interleave=$il:tt, concat=$c:tt, narrow=$n:tt) => {
        impl SimdOp for VecJob<'_, $T> {
            type Output = (usize, Vec<i64>);

            #[inline(always)]
            fn eval<I: Isa>(self, isa: I) -> (usize, Vec<i64>) {
                let ops = isa.$acc();
                let mops = isa.$macc();
                let v = ops.len();
                let x = ops.load(self.a);
                let y = ops.load(self.b);
                let out = vec_common!(self, isa, ops, mops, $T, x, y)
                    .or_else(|| vec_extend!($e, self, ops, x))
                    .or_else(|| vec_interleave!($il, self, ops, x, y))
                    .or_else(|| vec_concat!($c, self, ops, x, y))
                    .or_else(|| vec_narrow!($n, self, ops, x, y))
                    .unwrap_or_else(|| panic!("harness: unknown vec op {}", self.op));
                (v, out)
            }
        }
    };
}

impl_vec_job!(i8, i8, m8, extend = true, interleave = true, concat = false, narrow = false);
impl_vec_job!(u8, u8, m8, extend = true, interleave = true, concat = false, narrow = false);
impl_vec_job!(i16, i16, m16, extend = true, interleave = true, concat = false, narrow = true);
impl_vec_job!(u16, u16, m16, extend = false, interleave = false, concat = false, narrow = false);
impl_vec_job!(i32, i32, m32, extend = false, interleave = false, concat = true, narrow = true);

/// f32 -> f16 narrow and f16 -> f32 extend on whole vectors (bit patterns).
pub struct CvtJob<'a> {
    pub op: &'a str,
    pub a: &'a [u32], // f32 bits (narrow: low) or f16 bits (extend)
    pub b: &'a [u32], // f32 bits (narrow: high)
}

impl SimdOp for CvtJob<'_> {
    type Output = (usize, Vec<i64>);

    #[inline(always)]
    fn eval<I: Isa>(self, isa: I) -> (usize, Vec<i64>) {
        let f32o = isa.f32();
        let f16o = isa.f16();
        match self.op {
            "narrow_f16" => {
                let a: Vec<f32> = self.a.iter().map(|b| f32::from_bits(*b)).collect();
                let b: Vec<f32> = self.b.iter().map(|b| f32::from_bits(*b)).collect();
                let h = f32o.narrow_saturate(f32o.load(&a), f32o.load(&b));
                (
                    f32o.len(),
                    h.to_array().as_ref().iter().map(|e| e.to_bits() as i64).collect(),
                )
            }
            "extend_f16_low" | "extend_f16_high" => {
                let a: Vec<f16> = self.a.iter().map(|b| f16::from_bits(*b as u16)).collect();
                let x = f16o.load(&a);
                let y = if self.op == "extend_f16_low" { f16o.extend_low(x) } else { f16o.extend_high(x) };
                (
                    f16o.len(),
                    y.to_array().as_ref().iter().map(|e| e.to_bits() as i32 as i64).collect(),
                )
            }
            other => panic!("harness: unknown cvt op {other}"),
        }
    }
}

// ------------------------------------------------------------- value sets

pub trait LaneTy: Copy + Default + 'static {
    const NAME: &'static str;
    const BITS: u32;
    const SIGNED: bool;
    fn from_i64(x: i64) -> Self;
    fn to_i64(self) -> i64;
}
macro_rules! lane_ty {
    ($T:ty, $name:literal, $bits:literal, $signed:literal) => {
        impl LaneTy for $T {
            const NAME: &'static str = $name;
            const BITS: u32 = $bits;
            const SIGNED: bool = $signed;
            fn from_i64(x: i64) -> Self {
                x as $T
            }
            fn to_i64(self) -> i64 {
                self as i64
            }
        }
    };
}
lane_ty!(i8, "i8", 8, true);
lane_ty!(u8, "u8", 8, false);
lane_ty!(i16, "i16", 16, true);
lane_ty!(u16, "u16", 16, false);
lane_ty!(i32, "i32", 32, true);

fn lo<T: LaneTy>() -> i64 {
    if T::SIGNED { -(1i64 << (T::BITS - 1)) } else { 0 }
}
fn hi<T: LaneTy>() -> i64 {
    if T::SIGNED { (1i64 << (T::BITS - 1)) - 1 } else { (1i64 << T::BITS) - 1 }
}

/// Boundary values of a lane type: extremes, around zero, powers of two +-1.
pub fn boundary<T: LaneTy>() -> Vec<i64> {
    let (l, h) = (lo::<T>(), hi::<T>());
    let mut v = vec![l, l + 1, l + 2, h, h - 1, h - 2, 0, 1, 2, 3];
    if T::SIGNED {
        v.extend([-1, -2, -3]);
    }
    for s in 1..T::BITS {
        let p = 1i64 << s;
        for x in [p - 1, p, p + 1, -p - 1, -p, -p + 1] {
            if x >= l && x <= h {
                v.push(x);
            }
        }
    }
    // byte patterns
    for pat in [0x55u32, 0xAA, 0x0F, 0xF0, 0x7F, 0x80, 0xFF] {
        let mut w: u64 = 0;
        for _ in 0..(T::BITS / 8) {
            w = (w << 8) | pat as u64;
        }
        let x = if T::SIGNED {
            let sh = 64 - T::BITS;
            ((w << sh) as i64) >> sh
        } else {
            w as i64
        };
        v.push(x);
    }
    v.sort();
    v.dedup();
    v
}

/// A smaller boundary set (extremes, around zero, a few powers of two, byte patterns).
pub fn core_boundary<T: LaneTy>() -> Vec<i64> {
    let (l, h) = (lo::<T>(), hi::<T>());
    let mut v = vec![l, l + 1, h, h - 1, 0, 1, 2, 3, 7];
    if T::SIGNED {
        v.extend([-1, -2, -3, -8]);
    }
    for s in [T::BITS / 2 - 1, T::BITS / 2, T::BITS - 2] {
        let p = 1i64 << s;
        for x in [p - 1, p, p + 1, -p, -p - 1] {
            if x >= l && x <= h {
                v.push(x);
            }
        }
    }
    let all = boundary::<T>();
    v.extend(all.iter().rev().take(0));
    v.sort();
    v.dedup();
    v
}

pub fn random_val<T: LaneTy>(rng: &mut Rng) -> i64 {
    // mixture: uniform bits, small magnitudes, near extremes
    let (l, h) = (lo::<T>(), hi::<T>());
    match rng.below(4) {
        0 => rng.range((-8i64).max(l), 8),
        1 => {
            if rng.chance(1, 2) { h - rng.range(0, 8) } else { l + rng.range(0, 8) }
        }
        _ => {
            let w = rng.next_u64();
            let sh = 64 - T::BITS;
            if T::SIGNED { ((w << sh) as i64) >> sh } else { (w >> sh) as i64 }
        }
    }
}

fn pad_to<T: Copy>(v: &mut Vec<T>, m: usize, fill: T) {
    while v.len() % m != 0 {
        v.push(fill);
    }
}

// ------------------------------------------------------------- recording

fn st_out(r: Result<Vec<i64>, String>) -> (&'static str, Vec<i64>) {
    match r {
        Ok(v) => ("ok", v),
        Err(_) => ("panic", vec![]),
    }
}

fn emit_lane<T: LaneTy>(tr: &mut Trace, op: &str, k: i32, a: &[i64], b: &[i64], c: &[i64])
where
    for<'x> IntLane<'x, T>: SimdOp<Output = Vec<i64>>,
{
    let av: Vec<T> = a.iter().map(|x| T::from_i64(*x)).collect();
    let bv: Vec<T> = b.iter().map(|x| T::from_i64(*x)).collect();
    let cv: Vec<T> = c.iter().map(|x| T::from_i64(*x)).collect();
    // log what the code actually received (values wrapped into the lane type)
    let (a, b, c): (Vec<i64>, Vec<i64>, Vec<i64>) = (
        av.iter().map(|x| x.to_i64()).collect(),
        bv.iter().map(|x| x.to_i64()).collect(),
        cv.iter().map(|x| x.to_i64()).collect(),
    );
    let mut isas = vec![];
    let mut sts = vec![];
    let mut outs = vec![];
    for sel in ALL {
        if !sel.available() {
            continue;
        }
        let r = guarded(|| eval_on(sel, IntLane::<T> { op, k, a: &av, b: &bv, c: &cv }));
        let (st, o) = st_out(r);
        isas.push(sel.name());
        sts.push(st);
        outs.push(o);
    }
    tr.emit(json!({"ev": "lane", "ty": T::NAME, "op": op, "k": k, "a": a, "b": b, "c": c,
                   "isas": isas, "st": sts, "out": outs}));
}

const BIN_OPS: &[&str] = &["add", "sub", "mul", "min", "max", "eq", "ge", "gt", "lt", "le", "and", "or", "xor"];

fn is_signed_only(op: &str) -> bool {
    op == "neg" || op == "abs"
}

/// All lane-wise integer events for one type.
fn int_lane_events<T: LaneTy>(tr: &mut Trace, rng: &mut Rng, thorough: bool)
where
    for<'x> IntLane<'x, T>: SimdOp<Output = Vec<i64>>,
{
    let (l, h) = (lo::<T>(), hi::<T>());
    let all: Vec<i64> = (l..=h.min(l + 65535)).collect();
    // ---- binary ops
    if T::BITS == 8 {
        // every operand pair: one event per left operand (256 lanes), or a
        // boundary + seeded subset of rows in the quick tier
        let rows: Vec<i64> = if thorough {
            all.clone()
        } else {
            let mut r = core_boundary::<T>();
            while r.len() < 36 {
                let x = random_val::<T>(rng);
                if !r.contains(&x) {
                    r.push(x);
                }
            }
            r
        };
        for op in BIN_OPS {
            for &x in &rows {
                let a = vec![x; all.len()];
                emit_lane::<T>(tr, op, 0, &a, &all, &[]);
            }
        }
    } else {
        let bnd: Vec<i64> = if thorough { boundary::<T>() } else { core_boundary::<T>() };
        let mut a = vec![];
        let mut b = vec![];
        for &x in &bnd {
            for &y in &bnd {
                a.push(x);
                b.push(y);
            }
        }
        let nrand = if thorough { 100000 } else { 1000 };
        for _ in 0..nrand {
            a.push(random_val::<T>(rng));
            b.push(random_val::<T>(rng));
        }
        pad_to(&mut a, 256, 0);
        pad_to(&mut b, 256, 0);
        for op in BIN_OPS {
            for (ca, cb) in a.chunks(256).zip(b.chunks(256)) {
                emit_lane::<T>(tr, op, 0, ca, cb, &[]);
            }
        }
    }
    // ---- unary ops: all values for 8/16-bit, boundary + random for 32-bit
    let mut un: Vec<i64> = if T::BITS <= 16 && (thorough || T::BITS == 8) {
        all.clone()
    } else {
        let mut u = boundary::<T>();
        for _ in 0..(if thorough { 8000 } else { 600 }) {
            u.push(random_val::<T>(rng));
        }
        u
    };
    pad_to(&mut un, 256, 0);
    let mut unary = vec!["not"];
    if T::SIGNED {
        unary.extend(["neg", "abs"]);
    }
    for op in unary {
        debug_assert!(T::SIGNED || !is_signed_only(op));
        for ch in un.chunks(256) {
            emit_lane::<T>(tr, op, 0, ch, &[], &[]);
        }
    }
    // shifts: every amount 0..bits-1; all values for 8-bit, boundary+random otherwise
    let mut sh: Vec<i64> = if T::BITS == 8 {
        all.clone()
    } else {
        let mut u = boundary::<T>();
        for _ in 0..(if thorough { 800 } else { 150 }) {
            u.push(random_val::<T>(rng));
        }
        u
    };
    pad_to(&mut sh, 64, 0);
    for op in ["shl", "shr"] {
        for k in 0..T::BITS as i32 {
            for ch in sh.chunks(512) {
                emit_lane::<T>(tr, op, k, ch, &[], &[]);
            }
        }
    }
    // ---- ternary ops on boundary triples + random
    let bnd = boundary::<T>();
    let small: Vec<i64> = if T::BITS == 8 && thorough {
        bnd.clone()
    } else if thorough {
        core_boundary::<T>()
    } else {
        let mut s = vec![l, l + 1, 0, 1, 2, 3, h - 1, h, 1 << (T::BITS / 2), (1 << (T::BITS - 2)) + 1];
        if T::SIGNED {
            s.extend([-1, -2, -(1 << (T::BITS / 2)) - 1]);
        }
        s
    };
    let (mut a, mut b, mut c) = (vec![], vec![], vec![]);
    for &x in &small {
        for &y in &small {
            for &z in &small {
                a.push(x);
                b.push(y);
                c.push(z);
            }
        }
    }
    for _ in 0..(if thorough { 6000 } else { 600 }) {
        a.push(random_val::<T>(rng));
        b.push(random_val::<T>(rng));
        c.push(random_val::<T>(rng));
    }
    pad_to(&mut a, 256, 0);
    pad_to(&mut b, 256, 0);
    pad_to(&mut c, 256, 0);
    for op in ["mul_add", "select", "clamp", "poly"] {
        for i in (0..a.len()).step_by(256) {
            emit_lane::<T>(tr, op, 0, &a[i..i + 256], &b[i..i + 256], &c[i..i + 256]);
        }
    }
}

fn emit_vec<T: LaneTy>(tr: &mut Trace, op: &str, k: usize, a: &[i64], b: &[i64])
where
    for<'x> VecJob<'x, T>: SimdOp<Output = (usize, Vec<i64>)>,
{
    let av: Vec<T> = a.iter().map(|x| T::from_i64(*x)).collect();
    let bv: Vec<T> = b.iter().map(|x| T::from_i64(*x)).collect();
    let a: Vec<i64> = av.iter().map(|x| x.to_i64()).collect();
    let b: Vec<i64> = bv.iter().map(|x| x.to_i64()).collect();
    for sel in ALL {
        if !sel.available() {
            continue;
        }
        // vector width first (never fails)
        let v = eval_on(sel, VecJob::<T> { op: "zero", k: 0, a: &av, b: &bv }).0;
        if (op == "first_n" || op == "load_pad") && k > v {
            continue;
        }
        let r = guarded(|| eval_on(sel, VecJob::<T> { op, k, a: &av, b: &bv }));
        let (st, out) = match r {
            Ok((_, o)) => ("ok", o),
            Err(_) => ("panic", vec![]),
        };
        tr.emit(json!({"ev": "vec", "ty": T::NAME, "op": op, "k": k, "isa": sel.name(), "v": v,
                       "a": &a[..v], "b": &b[..v], "st": st, "out": out}));
    }
}

fn int_vec_events<T: LaneTy>(tr: &mut Trace, rng: &mut Rng, thorough: bool, ops: &[&str])
where
    for<'x> VecJob<'x, T>: SimdOp<Output = (usize, Vec<i64>)>,
{
    let nvec = if thorough { 60 } else { 12 };
    let bnd = boundary::<T>();
    let mut vectors: Vec<(Vec<i64>, Vec<i64>)> = vec![];
    // lane-identifying vectors (distinct values per lane), boundary mixes, random
    vectors.push(((0..MAXV as i64).map(|i| T::from_i64(i + 1).to_i64()).collect(),
                  (0..MAXV as i64).map(|i| T::from_i64(100 + i).to_i64()).collect()));
    vectors.push((vec![lo::<T>(); MAXV], vec![hi::<T>(); MAXV]));
    vectors.push((vec![hi::<T>(); MAXV], vec![lo::<T>(); MAXV]));
    for _ in 0..nvec {
        let a: Vec<i64> = (0..MAXV).map(|_| if rng.chance(1, 2) { *rng.pick(&bnd) } else { random_val::<T>(rng) }).collect();
        let b: Vec<i64> = (0..MAXV).map(|_| if rng.chance(1, 2) { *rng.pick(&bnd) } else { random_val::<T>(rng) }).collect();
        vectors.push((a, b));
    }
    // sparse sign vectors for mask ops (all false / all true / single lane)
    vectors.push((vec![0; MAXV], vec![1; MAXV]));
    vectors.push((vec![1; MAXV], vec![1; MAXV]));
    for _ in 0..4 {
        let mut a = vec![0i64; MAXV];
        a[rng.below(MAXV)] = 1;
        let mut b = vec![1i64; MAXV];
        b[rng.below(MAXV)] = 0;
        vectors.push((a, b));
    }
    for op in ops {
        match *op {
            "first_n" => {
                for k in 0..=MAXV {
                    emit_vec::<T>(tr, op, k, &vectors[0].0, &vectors[0].1);
                }
            }
            "load_pad" => {
                for k in 0..=MAXV {
                    let (a, b) = &vectors[(k % 3) + 3];
                    // padding lanes must come out as zero: use non-zero data
                    let a2: Vec<i64> = a.iter().map(|x| if *x == 0 { 1 } else { *x }).collect();
                    emit_vec::<T>(tr, op, k, &a2, b);
                }
            }
            "broadcast_lane" => {
                for k in 0..4 {
                    for (a, b) in vectors.iter().take(6) {
                        emit_vec::<T>(tr, op, k, a, b);
                    }
                }
            }
            "zero" | "one" => emit_vec::<T>(tr, op, 0, &vectors[0].0, &vectors[0].1),
            _ => {
                for (a, b) in &vectors {
                    emit_vec::<T>(tr, op, 0, a, b);
                }
            }
        }
    }
}

// f32 special-value grid (bit patterns).
pub fn f32_specials() -> Vec<u32> {
    let mut v: Vec<u32> = vec![
        0x0000_0000, 0x8000_0000, // +-0
        0x7F80_0000, 0xFF80_0000, // +-inf
        0x7FC0_0000, 0xFFC0_0000, 0x7F80_0001, 0xFFBF_FFFF, 0x7FC1_2345, 0x7FFF_FFFF, // NaNs (quiet, signalling, payload)
        0x0000_0001, 0x8000_0001, 0x007F_FFFF, 0x807F_FFFF, 0x0040_0000, // subnormals
        0x0080_0000, 0x8080_0000, // min normal
        0x7F7F_FFFF, 0xFF7F_FFFF, // max finite
        0x3F80_0000, 0xBF80_0000, // +-1
        0x3F00_0000, 0xBF00_0000, // +-0.5
        0x3FC0_0000, 0xBFC0_0000, // +-1.5
        0x4020_0000, 0xC020_0000, // +-2.5
        0x4060_0000, // 3.5
        0x3EFF_FFFF, 0x3F00_0001, // just below / above 0.5
        0x4B00_0000, 0x4B00_0001, 0x4AFF_FFFF, 0xCB00_0000, // 2^23 and neighbours
        0x4B80_0000, 0x4B7F_FFFF, // 2^24
        0x4F00_0000, 0xCF00_0000, 0x4EFF_FFFF, 0xCEFF_FFFF, 0x4F00_0001, 0xCF00_0001, // +-2^31 and neighbours
        0x4F80_0000, 0x5F00_0000, // 2^32, 2^63
        0x3DCC_CCCD, 0x4049_0FDB, 0x402D_F854, // 0.1, pi, e
        0x42C8_0000, 0xC2C8_0000, 0x42B0_0000, 0xC2B0_0000, // +-100, +-88
        0x477F_E000, 0x477F_F000, 0x3880_0000, 0x3380_0000, 0x3300_0000, // f16 range edges: 65504, 65520, 2^-14, 2^-24, 2^-25
        0x3F80_1000, 0x3F80_3000, 0x3F80_2000, // f16 rounding ties
    ];
    v.sort();
    v.dedup();
    v
}

pub fn random_f32_bits(rng: &mut Rng) -> u32 {
    match rng.below(6) {
        0 => rng.next_u64() as u32,
        1 => ((rng.range(-1000, 1000) as f32) * 0.5).to_bits(),
        2 => {
            // moderate magnitude
            let m = (rng.next_u64() >> 40) as f32 / (1u64 << 24) as f32;
            let e = rng.range(-12, 12) as i32;
            let x = m * 2f32.powi(e);
            (if rng.chance(1, 2) { -x } else { x }).to_bits()
        }
        3 => {
            // subnormal / tiny
            let b = (rng.next_u64() as u32) & 0x00FF_FFFF;
            b | if rng.chance(1, 2) { 0x8000_0000 } else { 0 }
        }
        4 => {
            // large
            let b = 0x7000_0000 | ((rng.next_u64() as u32) & 0x0FFF_FFFF);
            b | if rng.chance(1, 2) { 0x8000_0000 } else { 0 }
        }
        _ => *rng.pick(&f32_specials()),
    }
}

fn emit_flane(tr: &mut Trace, op: &str, a: &[u32], b: &[u32], c: &[u32]) {
    let f = |s: &[u32]| -> Vec<f32> { s.iter().map(|x| f32::from_bits(*x)).collect() };
    let (av, bv, cv) = (f(a), f(b), f(c));
    let mut isas = vec![];
    let mut sts = vec![];
    let mut outs = vec![];
    for sel in ALL {
        if !sel.available() {
            continue;
        }
        let r = guarded(|| eval_on(sel, F32Lane { op, a: &av, b: &bv, c: &cv }));
        let (st, o) = st_out(r);
        isas.push(sel.name());
        sts.push(st);
        outs.push(o);
    }
    let i = |s: &[u32]| -> Vec<i32> { s.iter().map(|x| *x as i32).collect() };
    tr.emit(json!({"ev": "flane", "ty": "f32", "op": op, "k": 0, "a": i(a), "b": i(b), "c": i(c),
                   "isas": isas, "st": sts, "out": outs}));
}

fn emit_f16lane(tr: &mut Trace, op: &str, a: &[u32], b: &[u32], c: &[u32]) {
    let f = |s: &[u32]| -> Vec<f16> { s.iter().map(|x| f16::from_bits(*x as u16)).collect() };
    let (av, bv, cv) = (f(a), f(b), f(c));
    let mut isas = vec![];
    let mut sts = vec![];
    let mut outs = vec![];
    for sel in ALL {
        if !sel.available() {
            continue;
        }
        let r = guarded(|| eval_on(sel, F16Lane { op, a: &av, b: &bv, c: &cv }));
        let (st, o) = st_out(r);
        isas.push(sel.name());
        sts.push(st);
        outs.push(o);
    }
    tr.emit(json!({"ev": "lane", "ty": "f16", "op": op, "k": 0, "a": a, "b": b, "c": c,
                   "isas": isas, "st": sts, "out": outs}));
}

fn float_events(tr: &mut Trace, rng: &mut Rng, thorough: bool) {
    let sp = f32_specials();
    let nrand = if thorough { 60000 } else { 1000 };
    // unary
    let mut ua: Vec<u32> = sp.clone();
    // every exponent with a few mantissas, both signs: conversions and rounding
    for e in 0..=255u32 {
        let ms: &[u32] = if thorough { &[0, 1, 0x40_0000, 0x7F_FFFF, 0x12_3456] } else { &[0, 0x40_0001, 0x7F_FFFF] };
        for &m in ms {
            ua.push((e << 23) | m);
            ua.push(0x8000_0000 | (e << 23) | m);
        }
    }
    // half-integers and integers around the i32 rounding points
    for i in -40..=40 {
        ua.push((i as f32 * 0.5).to_bits());
        ua.push((i as f32 * 0.25 + 8388607.0).to_bits());
    }
    for _ in 0..nrand {
        ua.push(random_f32_bits(rng));
    }
    pad_to(&mut ua, 256, 0);
    for op in ["neg", "abs", "not", "reciprocal", "round_ties_even", "to_int_trunc", "to_int_round"] {
        for ch in ua.chunks(256) {
            emit_flane(tr, op, ch, &[], &[]);
        }
    }
    // i32 -> f32: integers as operand bit patterns
    let mut ia: Vec<u32> = boundary::<i32>().iter().map(|x| *x as i32 as u32).collect();
    for s in 23..31 {
        // rounding boundaries: 2^s + {half ulp -1, half ulp, half ulp + 1}, both parities
        let ulp = 1i64 << (s - 23);
        for base in [1i64 << s, (1i64 << s) + ulp, (1i64 << s) + 3 * ulp] {
            for d in [ulp / 2 - 1, ulp / 2, ulp / 2 + 1] {
                let x = base + d;
                if x <= i32::MAX as i64 {
                    ia.push(x as i32 as u32);
                    ia.push((-x) as i32 as u32);
                }
            }
        }
    }
    for _ in 0..nrand {
        ia.push(random_val::<i32>(rng) as i32 as u32);
    }
    pad_to(&mut ia, 256, 0);
    for ch in ia.chunks(256) {
        emit_flane(tr, "to_float", ch, &[], &[]);
    }
    // binary: all special pairs + random
    let (mut a, mut b) = (vec![], vec![]);
    for &x in &sp {
        for &y in &sp {
            a.push(x);
            b.push(y);
        }
    }
    for _ in 0..nrand {
        a.push(random_f32_bits(rng));
        b.push(random_f32_bits(rng));
    }
    pad_to(&mut a, 256, 0);
    pad_to(&mut b, 256, 0);
    for op in ["add", "sub", "mul", "div", "min", "max", "eq", "ge", "gt", "lt", "le", "and", "or", "xor"] {
        for (ca, cb) in a.chunks(256).zip(b.chunks(256)) {
            emit_flane(tr, op, ca, cb, &[]);
        }
    }
    // ternary: a reduced special set cubed + random
    let sp3: Vec<u32> = vec![0, 0x8000_0000, 0x7F80_0000, 0xFF80_0000, 0x7FC0_0000, 0x0000_0001, 0x0080_0000,
                             0x7F7F_FFFF, 0xFF7F_FFFF, 0x3F80_0000, 0xBF80_0000, 0x3DCC_CCCD, 0x4049_0FDB, 0x3F80_0001];
    let (mut a, mut b, mut c) = (vec![], vec![], vec![]);
    for &x in &sp3 {
        for &y in &sp3 {
            for &z in &sp3 {
                a.push(x);
                b.push(y);
                c.push(z);
            }
        }
    }
    for _ in 0..nrand {
        a.push(random_f32_bits(rng));
        b.push(random_f32_bits(rng));
        c.push(random_f32_bits(rng));
    }
    pad_to(&mut a, 256, 0);
    pad_to(&mut b, 256, 0);
    pad_to(&mut c, 256, 0);
    for op in ["mul_add", "mul_sub_from", "clamp", "select"] {
        for i in (0..a.len()).step_by(256) {
            emit_flane(tr, op, &a[i..i + 256], &b[i..i + 256], &c[i..i + 256]);
        }
    }
    // f16 bit operations (u16 patterns)
    let (mut a, mut b, mut c) = (vec![], vec![], vec![]);
    let hb = if thorough { boundary::<u16>() } else { core_boundary::<u16>() };
    for &x in &hb {
        for &y in &hb {
            a.push(x as u32);
            b.push(y as u32);
            c.push(((x ^ y) & 1) as u32 * 0x3C00);
        }
    }
    for _ in 0..(nrand / 4) {
        a.push(rng.below(65536) as u32);
        b.push(rng.below(65536) as u32);
        c.push(rng.below(65536) as u32);
    }
    pad_to(&mut a, 256, 0);
    pad_to(&mut b, 256, 0);
    pad_to(&mut c, 256, 0);
    for op in ["and", "or", "xor", "not", "select"] {
        for i in (0..a.len()).step_by(256) {
            emit_f16lane(tr, op, &a[i..i + 256], &b[i..i + 256], &c[i..i + 256]);
        }
    }
}

fn emit_cvt(tr: &mut Trace, op: &str, a: &[u32], b: &[u32]) {
    for sel in ALL {
        if !sel.available() {
            continue;
        }
        let r = guarded(|| eval_on(sel, CvtJob { op, a, b }));
        let (st, v, out) = match r {
            Ok((v, o)) => ("ok", v, o),
            Err(_) => ("panic", 0, vec![]),
        };
        let i = |s: &[u32]| -> Vec<i32> { s.iter().map(|x| *x as i32).collect() };
        let (la, lb) = if op == "narrow_f16" { (v.max(1), v.max(1)) } else { (v.max(1), 0) };
        tr.emit(json!({"ev": "cvt", "op": op, "isa": sel.name(), "v": v,
                       "a": i(&a[..la.min(a.len())]), "b": i(&b[..lb.min(b.len())]), "st": st, "out": out}));
    }
}

fn cvt_events(tr: &mut Trace, rng: &mut Rng, thorough: bool) {
    // f16 -> f32: every f16 bit pattern (thorough) or boundary + sample
    let mut hs: Vec<u32> = if thorough {
        (0..65536u32).collect()
    } else {
        let mut v: Vec<u32> = vec![];
        for e in 0..32u32 {
            for m in [0u32, 1, 0x200, 0x3FF, 0x155] {
                v.push((e << 10) | m);
                v.push(0x8000 | (e << 10) | m);
            }
        }
        for _ in 0..2000 {
            v.push(rng.below(65536) as u32);
        }
        v
    };
    pad_to(&mut hs, MAXV, 0);
    for ch in hs.chunks(32) {
        emit_cvt(tr, "extend_f16_low", ch, &[]);
        emit_cvt(tr, "extend_f16_high", ch, &[]);
    }
    // f32 -> f16
    let mut fs: Vec<u32> = f32_specials();
    // every f16 value, its neighbours and the midpoints between consecutive f16 values (ties)
    let step = if thorough { 1 } else { 37 };
    let mut h = 0u32;
    while h < 0x7C00 {
        let x = f16::from_bits(h as u16).to_f32().to_bits();
        let y = f16::from_bits((h + 1) as u16).to_f32().to_bits();
        let mid = x + (y - x) / 2;
        for w in [x, x + 1, mid - 1, mid, mid + 1] {
            fs.push(w);
            fs.push(w | 0x8000_0000);
        }
        h += step;
    }
    for _ in 0..(if thorough { 40000 } else { 4000 }) {
        fs.push(random_f32_bits(rng));
    }
    pad_to(&mut fs, 32, 0);
    for ch in fs.chunks(32) {
        emit_cvt(tr, "narrow_f16", &ch[..16], &ch[16..]);
    }
}

fn ivec(v: &Value) -> Vec<i64> {
    match v {
        Value::Array(a) => a.iter().map(|x| x.as_i64().unwrap_or(0)).collect(),
        Value::Number(x) => vec![x.as_i64().unwrap_or(0); MAXV],
        _ => vec![],
    }
}

/// Re-run the single failing record of a replay file (what the trace spec printed).
fn replay(tr: &mut Trace, rec: &Value) {
    let ev = rec["ev"].as_str().unwrap_or("");
    let op = rec["op"].as_str().unwrap_or("").to_string();
    let ty = rec["ty"].as_str().unwrap_or("").to_string();
    let k = rec["k"].as_i64().unwrap_or(0);
    let unary = ["not", "neg", "abs", "shl", "shr", "reciprocal", "round_ties_even", "to_int_trunc", "to_int_round", "to_float"];
    let ternary = ["mul_add", "mul_sub_from", "clamp", "select", "poly"];
    match ev {
        "lane" | "flane" => {
            // scalar operands of the failing lane, replicated over one block
            let a = ivec(&rec["a"]);
            let b = if unary.contains(&op.as_str()) { vec![] } else { ivec(&rec["b"]) };
            let c = if ternary.contains(&op.as_str()) { ivec(&rec["c"]) } else { vec![] };
            let u = |s: &[i64]| -> Vec<u32> { s.iter().map(|x| *x as u32).collect() };
            match (ev, ty.as_str()) {
                ("flane", _) => emit_flane(tr, &op, &u(&a), &u(&b), &u(&c)),
                (_, "f16") => emit_f16lane(tr, &op, &u(&a), &u(&b), &u(&c)),
                (_, "i8") => emit_lane::<i8>(tr, &op, k as i32, &a, &b, &c),
                (_, "u8") => emit_lane::<u8>(tr, &op, k as i32, &a, &b, &c),
                (_, "i16") => emit_lane::<i16>(tr, &op, k as i32, &a, &b, &c),
                (_, "u16") => emit_lane::<u16>(tr, &op, k as i32, &a, &b, &c),
                (_, "i32") => emit_lane::<i32>(tr, &op, k as i32, &a, &b, &c),
                _ => panic!("replay: bad ty"),
            }
        }
        "vec" => {
            let mut a = ivec(&rec["a"]);
            let mut b = ivec(&rec["b"]);
            a.resize(MAXV, 0);
            b.resize(MAXV, 0);
            match ty.as_str() {
                "i8" => emit_vec::<i8>(tr, &op, k as usize, &a, &b),
                "u8" => emit_vec::<u8>(tr, &op, k as usize, &a, &b),
                "i16" => emit_vec::<i16>(tr, &op, k as usize, &a, &b),
                "u16" => emit_vec::<u16>(tr, &op, k as usize, &a, &b),
                "i32" => emit_vec::<i32>(tr, &op, k as usize, &a, &b),
                _ => panic!("replay: bad ty"),
            }
        }
        "cvt" => {
            let mut a: Vec<u32> = ivec(&rec["a"]).iter().map(|x| *x as u32).collect();
            let mut b: Vec<u32> = ivec(&rec["b"]).iter().map(|x| *x as u32).collect();
            a.resize(32, 0);
            b.resize(32, 0);
            emit_cvt(tr, &op, &a, &b);
        }
        _ => panic!("replay: unknown record"),
    }
}

pub fn main_prims() {
    let out = vcommon::arg_or("--out", "-");
    let part = vcommon::arg_or("--part", "all");
    let thorough = std::env::var("VERIF_TIER").map(|t| t == "thorough").unwrap_or(false);
    vcommon::quiet_panics();
    let mut tr = Trace::create(&out);
    let mut rng = Rng::from_env();
    let isas: Vec<Value> = ALL.iter().filter(|s| s.available()).map(|s| json!(s.name())).collect();
    tr.emit(json!({"ev": "meta", "isas": isas, "part": part}));
    if let Some(js) = vcommon::arg("--replay") {
        let rec: Value = serde_json::from_str(&js).expect("--replay json");
        replay(&mut tr, &rec);
        tr.flush();
        return;
    }
    let want = |p: &str| part == "all" || part == p;
    if want("i8") {
        int_lane_events::<i8>(&mut tr, &mut rng, thorough);
    }
    if want("u8") {
        int_lane_events::<u8>(&mut tr, &mut rng, thorough);
    }
    if want("i16") {
        int_lane_events::<i16>(&mut tr, &mut rng, thorough);
    }
    if want("u16") {
        int_lane_events::<u16>(&mut tr, &mut rng, thorough);
    }
    if want("i32") {
        int_lane_events::<i32>(&mut tr, &mut rng, thorough);
    }
    if want("vec") {
        let common = ["sum", "first_n", "splat", "zero", "one", "broadcast_lane", "fold_splat", "load_pad", "mask_ops"];
        let with = |extra: &[&'static str]| -> Vec<&'static str> {
            let mut v: Vec<&'static str> = common.to_vec();
            v.extend_from_slice(extra);
            v
        };
        int_vec_events::<i8>(&mut tr, &mut rng, thorough, &with(&["extend_low", "extend_high", "interleave_low", "interleave_high"]));
        int_vec_events::<u8>(&mut tr, &mut rng, thorough, &with(&["extend_low", "extend_high", "interleave_low", "interleave_high"]));
        int_vec_events::<i16>(&mut tr, &mut rng, thorough, &with(&["extend_low", "extend_high", "interleave_low", "interleave_high", "narrow_saturate"]));
        int_vec_events::<u16>(&mut tr, &mut rng, thorough, &with(&[]));
        int_vec_events::<i32>(&mut tr, &mut rng, thorough, &with(&["concat_low", "concat_high", "narrow_saturate"]));
    }
    if want("float") {
        float_events(&mut tr, &mut rng, thorough);
    }
    if want("cvt") {
        cvt_events(&mut tr, &mut rng, thorough);
    }
    tr.flush();
}
