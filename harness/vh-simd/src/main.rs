mod bounds;
mod guard;
mod isa;
mod mem;
mod prims;
mod vm;

fn main() {
    let cmd = std::env::args().nth(1).unwrap_or_default();
    match cmd.as_str() {
        "prims" => prims::main_prims(),
        "bounds" => bounds::main_bounds(),
        "bounds-child" => bounds::main_child(),
        "repro" => repro(),
        _ => {
            eprintln!("usage: vh-simd <prims|bounds|bounds-child> [options]");
            std::process::exit(2);
        }
    }
}

/// Minimal reproductions of the defects registered for C18 (public API only).
fn repro() {
    use rten_simd::isa::GenericIsa;
    use rten_simd::ops::{BitOps, NarrowSaturate};
    use rten_simd::{Isa, Simd, SimdOp};
    use rten_vecmath::{MaxNum, MinNum};

    // 1. GenericIsa::narrow_saturate indexes `hi` with the output lane index.
    let r = std::panic::catch_unwind(|| {
        let isa = GenericIsa::new();
        let ops = isa.i32();
        let y = ops.narrow_saturate(ops.splat(1), ops.splat(2));
        y.to_array().as_ref().to_vec()
    });
    println!("GenericIsa i32.narrow_saturate(splat(1), splat(2)) -> {:?}", r.map_err(|_| "PANIC"));

    // 2. MaxNum / MinNum lose a NaN when a later vector holds a number in the same lane.
    for v in [4usize, 8, 16] {
        let mut xs = vec![0.5f32; 2 * v];
        xs[0] = f32::NAN;
        let max = isa::eval_on(isa::IsaSel::parse(match v { 4 => "generic", 8 => "avx2", _ => "avx512" }), MaxNum::new(&xs));
        let min = isa::eval_on(isa::IsaSel::parse(match v { 4 => "generic", 8 => "avx2", _ => "avx512" }), MinNum::new(&xs));
        println!("v={v}: MaxNum([NaN, 0.5 x {}]) = {max}, MinNum = {min}   (documented: NaN)", 2 * v - 1);
    }
    let mut xs = vec![0.5f32; 64];
    xs[0] = f32::NAN;
    println!("dispatch: MaxNum = {}, MinNum = {}", MaxNum::new(&xs).dispatch(), MinNum::new(&xs).dispatch());
}
