fn main() {
    eprintln!("usage: vh-simd <subcommand> [options]");
    std::process::exit(2);
}
