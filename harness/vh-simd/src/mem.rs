//! C18 slice-schedule / bounds cases ("mem" family): the slice-level helpers of
//! rten-simd (simd_map, simd_apply, SimdIterable, Iter::fold*, load/store
//! wrappers, SliceWriter, SimdUnaryOp::map) run on guard-page buffers.
//!
//! A case is (fn, ty, isa, n, place). The record logs the input, every
//! vector the user closure received, the memory afterwards and sentinel
//! damage; the predicates (partition of 0..n-1, zero padding, exact results,
//! nothing else touched, no abort) are evaluated by Trace_Bounds.tla.

use std::mem::MaybeUninit;

use rten_simd::functional::{simd_apply, simd_map};
use rten_simd::ops::{BitOps, GetNumOps, GetSimd, NumOps};
use rten_simd::{Isa, Mask, Simd, SimdIterable, SimdOp, SimdUnaryOp, SliceWriter, f16};
use vcommon::{Value, json};

use crate::guard::{GuardBuf, Place};
use crate::isa::{IsaSel, eval_on};

pub trait Enc: Copy {
    fn enc(self) -> i64;
    fn marker(m: i64) -> Self;
}
macro_rules! enc_int {
    ($T:ty) => {
        impl Enc for $T {
            fn enc(self) -> i64 {
                self as i64
            }
            fn marker(m: i64) -> Self {
                m as $T
            }
        }
    };
}
enc_int!(i8);
enc_int!(u8);
enc_int!(i16);
enc_int!(u16);
enc_int!(i32);
impl Enc for f32 {
    fn enc(self) -> i64 {
        self.to_bits() as i32 as i64
    }
    fn marker(m: i64) -> Self {
        m as f32
    }
}
impl Enc for f16 {
    fn enc(self) -> i64 {
        self.to_bits() as i64
    }
    fn marker(m: i64) -> Self {
        f16::from_bits(m as u16)
    }
}

/// Input marker of position p (0-based): 1..97, never 0 (0 is padding).
pub fn in_marker(p: usize) -> i64 {
    ((p * 7 + 3) % 97 + 1) as i64
}
/// Initial content of destination buffers.
pub fn dst_marker(p: usize) -> i64 {
    (101 + p % 20) as i64
}
/// Lanes of the vector written by the plain store cases.
pub fn store_marker(j: usize) -> i64 {
    (50 + j % 50) as i64
}

#[derive(Default)]
pub struct MemOut {
    pub v: usize,
    pub calls: Vec<Vec<i64>>,
    pub masks: Vec<Vec<i64>>,
    pub out: Vec<i64>,
    pub aux: Vec<i64>,
}

pub struct MemJob<'a, T> {
    pub fun: &'a str,
    pub data: &'a mut [T],
    pub dst: &'a mut [MaybeUninit<T>],
}

fn lanes<S: Simd>(x: S) -> Vec<i64>
where
    S::Elem: Enc,
{
    x.to_array().as_ref().iter().map(|e| e.enc()).collect()
}
fn mlanes<M: Mask>(m: M) -> Vec<i64> {
    m.to_array().as_ref().iter().map(|b| *b as i64).collect()
}

macro_rules! impl_mem_job {
    ($T:ty, $acc:ident) => {
        impl SimdOp for MemJob<'_, $T> {
            type Output = MemOut;

            #[inline(always)]
            fn eval<I: Isa>(self, isa: I) -> MemOut {
                let ops = isa.$acc();
                let v = ops.len();
                let mut o = MemOut { v, ..Default::default() };
                let one = ops.one();
                let MemJob { fun, data, dst } = self;
                match fun {
                    "simd_map_inplace" => {
                        let calls = &mut o.calls;
                        let r = simd_map(ops, &mut *data, |x| {
                            calls.push(lanes(x));
                            ops.add(x, one)
                        });
                        o.aux.push(r.len() as i64);
                    }
                    "simd_map_srcdst" => {
                        let calls = &mut o.calls;
                        let r = simd_map(ops, (&*data, &mut *dst), |x| {
                            calls.push(lanes(x));
                            ops.add(x, one)
                        });
                        o.aux.push(r.len() as i64);
                    }
                    "simd_apply_1" | "simd_apply_2" | "simd_apply_4" => {
                        let calls = &mut o.calls;
                        let f = |x| {
                            calls.push(lanes(x));
                            ops.add(x, one)
                        };
                        let r = match fun {
                            "simd_apply_1" => simd_apply::<_, _, _, 1>(ops, &mut *data, f),
                            "simd_apply_2" => simd_apply::<_, _, _, 2>(ops, &mut *data, f),
                            _ => simd_apply::<_, _, _, 4>(ops, &mut *data, f),
                        };
                        o.aux.push(r.len() as i64);
                    }
                    "iter" => {
                        let mut it = data.simd_iter(ops);
                        o.aux.push(it.len() as i64);
                        for x in &mut it {
                            o.calls.push(lanes(x));
                        }
                        if let Some((x, m)) = it.tail() {
                            o.calls.push(lanes(x));
                            o.masks.push(mlanes(m));
                        }
                    }
                    "iter_pad" => {
                        let it = data.simd_iter_pad(ops);
                        o.aux.push(it.len() as i64);
                        for x in it {
                            o.calls.push(lanes(x));
                        }
                    }
                    "fold" | "fold_unroll_2" | "fold_unroll_4" => {
                        let calls = &mut o.calls;
                        let f = |acc, x| {
                            calls.push(lanes(x));
                            ops.add(ops.add(acc, x), one)
                        };
                        let it = data.simd_iter(ops);
                        let acc = match fun {
                            "fold" => it.fold(ops.zero(), f),
                            "fold_unroll_2" => it.fold_unroll::<2>(ops.zero(), f, |p, q| ops.add(p, q)),
                            _ => it.fold_unroll::<4>(ops.zero(), f, |p, q| ops.add(p, q)),
                        };
                        o.out = lanes(acc);
                    }
                    "fold_n" | "fold_n_unroll" => {
                        let calls = &mut o.calls;
                        let f = |[a0, a1]: [_; 2], x| {
                            calls.push(lanes(x));
                            [ops.add(ops.add(a0, x), one), ops.add(ops.add(a1, ops.add(x, x)), one)]
                        };
                        let it = data.simd_iter(ops);
                        let z = [ops.zero(), ops.zero()];
                        let acc = match fun {
                            "fold_n" => it.fold_n::<2>(z, f),
                            _ => it.fold_n_unroll::<2, 4>(z, f, |[p0, p1], [q0, q1]| [ops.add(p0, q0), ops.add(p1, q1)]),
                        };
                        o.out = lanes(acc[0]);
                        o.out.extend(lanes(acc[1]));
                    }
                    "load" => o.out = lanes(ops.load(data)),
                    "load_many_2" => {
                        let [x, y] = ops.load_many::<2>(data);
                        o.out = lanes(x);
                        o.out.extend(lanes(y));
                    }
                    "load_pad" => {
                        let (x, m) = ops.load_pad(data);
                        o.out = lanes(x);
                        o.masks.push(mlanes(m));
                    }
                    "store" | "store_uninit" | "store_many_2" => {
                        let w: Vec<$T> = (0..2 * v).map(|j| <$T as Enc>::marker(store_marker(j))).collect();
                        let x = ops.load(&w);
                        let y = ops.load(&w[v..]);
                        match fun {
                            "store" => ops.store(x, data),
                            "store_uninit" => {
                                let r = ops.store_uninit(x, dst);
                                o.aux.push(r.len() as i64);
                            }
                            _ => {
                                let r = ops.store_many_uninit([x, y], dst);
                                o.aux.push(r.len() as i64);
                            }
                        }
                    }
                    // masked copy of the first min(n, v) elements through the raw masked primitives
                    "mask_copy" => {
                        let k = data.len().min(v);
                        let m = ops.first_n_mask(k);
                        let x = unsafe { ops.load_ptr_mask(data.as_ptr(), m) };
                        o.out = lanes(x);
                        o.masks.push(mlanes(m));
                        unsafe { ops.store_ptr_mask(x, dst.as_mut_ptr() as *mut $T, m) };
                    }
                    // MemCopy from the SliceWriter tests: whole vectors, then scalars
                    "writer" => {
                        let mut chunks = data.chunks_exact(v);
                        let mut w = SliceWriter::new(dst);
                        for ch in chunks.by_ref() {
                            w.write_vec(ops, ops.load(ch));
                        }
                        for x in chunks.remainder() {
                            w.write_scalar(*x);
                        }
                        o.aux.push(w.into_mut_slice().len() as i64);
                    }
                    "writer_vecs" => {
                        let mut chunks = data.chunks_exact(2 * v);
                        let mut w = SliceWriter::new(dst);
                        for ch in chunks.by_ref() {
                            w.write_vecs(ops, ops.load_many::<2>(ch));
                        }
                        for x in chunks.remainder() {
                            w.write_scalar(*x);
                        }
                        o.aux.push(w.into_mut_slice().len() as i64);
                    }
                    other => panic!("harness: unknown mem fn {other}"),
                }
                o
            }
        }
    };
}

impl_mem_job!(f32, f32);
impl_mem_job!(i32, i32);
impl_mem_job!(i16, i16);
impl_mem_job!(u16, u16);
impl_mem_job!(i8, i8);
impl_mem_job!(u8, u8);

/// f16 vectors only support the bit-level operations.
impl SimdOp for MemJob<'_, f16> {
    type Output = MemOut;

    #[inline(always)]
    fn eval<I: Isa>(self, isa: I) -> MemOut {
        let ops = isa.f16();
        let v = ops.len();
        let mut o = MemOut { v, ..Default::default() };
        let MemJob { fun, data, dst } = self;
        match fun {
            "load" => o.out = lanes(ops.load(data)),
            "load_many_2" => {
                let [x, y] = ops.load_many::<2>(data);
                o.out = lanes(x);
                o.out.extend(lanes(y));
            }
            "load_pad" => {
                let (x, m) = ops.load_pad(data);
                o.out = lanes(x);
                o.masks.push(mlanes(m));
            }
            "store" | "store_uninit" | "store_many_2" => {
                let w: Vec<f16> = (0..2 * v).map(|j| <f16 as Enc>::marker(store_marker(j))).collect();
                let x = ops.load(&w);
                let y = ops.load(&w[v..]);
                match fun {
                    "store" => ops.store(x, data),
                    "store_uninit" => {
                        let r = ops.store_uninit(x, dst);
                        o.aux.push(r.len() as i64);
                    }
                    _ => {
                        let r = ops.store_many_uninit([x, y], dst);
                        o.aux.push(r.len() as i64);
                    }
                }
            }
            "mask_copy" => {
                let k = data.len().min(v);
                let m = ops.first_n_mask(k);
                let x = unsafe { ops.load_ptr_mask(data.as_ptr(), m) };
                o.out = lanes(x);
                o.masks.push(mlanes(m));
                unsafe { ops.store_ptr_mask(x, dst.as_mut_ptr() as *mut f16, m) };
            }
            "writer" => {
                let mut chunks = data.chunks_exact(v);
                let mut w = SliceWriter::new(dst);
                for ch in chunks.by_ref() {
                    w.write_vec(ops, ops.load(ch));
                }
                for x in chunks.remainder() {
                    w.write_scalar(*x);
                }
                o.aux.push(w.into_mut_slice().len() as i64);
            }
            "writer_vecs" => {
                let mut chunks = data.chunks_exact(2 * v);
                let mut w = SliceWriter::new(dst);
                for ch in chunks.by_ref() {
                    w.write_vecs(ops, ops.load_many::<2>(ch));
                }
                for x in chunks.remainder() {
                    w.write_scalar(*x);
                }
                o.aux.push(w.into_mut_slice().len() as i64);
            }
            other => panic!("harness: unknown f16 mem fn {other}"),
        }
        o
    }
}

/// `x + 1` as a `SimdUnaryOp`, for the public `map` / `map_mut` entry points
/// (which always dispatch to the preferred ISA of the host).
pub struct PlusOne {}
impl<T: GetSimd + GetNumOps> SimdUnaryOp<T> for PlusOne {
    #[inline(always)]
    fn eval<I: Isa>(&self, isa: I, x: T::Simd<I>) -> T::Simd<I> {
        let ops = T::num_ops(isa);
        ops.add(x, ops.one())
    }
}

pub const NUM_FNS: &[&str] = &[
    "simd_map_inplace", "simd_map_srcdst", "simd_apply_1", "simd_apply_2", "simd_apply_4", "iter", "iter_pad",
    "fold", "fold_unroll_2", "fold_unroll_4", "fold_n", "fold_n_unroll", "load", "load_many_2", "load_pad",
    "store", "store_uninit", "store_many_2", "mask_copy", "writer", "writer_vecs",
];
pub const BIT_FNS: &[&str] = &[
    "load", "load_many_2", "load_pad", "store", "store_uninit", "store_many_2", "mask_copy", "writer", "writer_vecs",
];
pub const DISPATCH_FNS: &[&str] = &["unary_map", "unary_map_mut"];

fn run_typed<T: Enc + Copy + Default + 'static>(fun: &str, sel: IsaSel, n: usize, place: Place) -> Value
where
    for<'x> MemJob<'x, T>: SimdOp<Output = MemOut>,
    PlusOne: SimdUnaryOp<T>,
    T: GetNumOps,
{
    run_any::<T>(fun, sel, n, place, |fun, data, dst| match fun {
        "unary_map" => {
            let r = PlusOne {}.map(data, dst);
            MemOut { aux: vec![r.len() as i64], ..Default::default() }
        }
        "unary_map_mut" => {
            PlusOne {}.map_mut(data);
            MemOut::default()
        }
        _ => unreachable!(),
    })
}

fn run_any<T: Enc + Copy + Default + 'static>(
    fun: &str,
    sel: IsaSel,
    n: usize,
    place: Place,
    dispatch_fn: impl FnOnce(&str, &mut [T], &mut [MaybeUninit<T>]) -> MemOut,
) -> Value
where
    for<'x> MemJob<'x, T>: SimdOp<Output = MemOut>,
{
    let inp: Vec<T> = (0..n).map(|p| T::marker(in_marker(p))).collect();
    let dinit: Vec<T> = (0..n).map(|p| T::marker(dst_marker(p))).collect();
    let mut src = GuardBuf::<T>::new(n, place);
    let mut dst = GuardBuf::<T>::new(n, place);
    src.fill(&inp);
    dst.fill(&dinit);
    let o = {
        let data = src.slice_mut();
        // the destination memory is initialised with markers; it is handed to the code as MaybeUninit
        let d = unsafe { std::slice::from_raw_parts_mut(dst.ptr() as *mut MaybeUninit<T>, n) };
        if sel == IsaSel::Dispatch {
            dispatch_fn(fun, data, d)
        } else {
            eval_on(sel, MemJob::<T> { fun, data, dst: d })
        }
    };
    let enc = |s: &[T]| -> Vec<i64> { s.iter().map(|e| e.enc()).collect() };
    let mut dmg = src.damage();
    dmg.extend(dst.damage());
    json!({"v": o.v, "inp": enc(&inp), "calls": o.calls, "masks": o.masks, "out": o.out, "aux": o.aux,
           "src_after": enc(src.slice()), "dst_after": enc(dst.slice()), "dmg": dmg})
}

fn run_bits_f16(fun: &str, sel: IsaSel, n: usize, place: Place) -> Value {
    run_any::<f16>(fun, sel, n, place, |_, _, _| unreachable!())
}

macro_rules! run_num {
    ($T:ty, $fun:expr, $sel:expr, $n:expr, $place:expr) => {
        run_typed::<$T>($fun, $sel, $n, $place)
    };
}

/// Run one mem case; returns the result fields (merged into the event by the caller).
pub fn run_case(fun: &str, ty: &str, sel: IsaSel, n: usize, place: Place) -> Value {
    match ty {
        "f32" => run_num!(f32, fun, sel, n, place),
        "i32" => run_num!(i32, fun, sel, n, place),
        "i16" => run_num!(i16, fun, sel, n, place),
        "u16" => run_num!(u16, fun, sel, n, place),
        "i8" => run_num!(i8, fun, sel, n, place),
        "u8" => run_num!(u8, fun, sel, n, place),
        "f16" => run_bits_f16(fun, sel, n, place),
        _ => panic!("bad ty {ty}"),
    }
}

/// Lanes per vector of `ty` on `sel` (for enumerating lengths 0..4v+3).
pub fn width(ty: &str, sel: IsaSel) -> usize {
    let bytes = match sel {
        IsaSel::Generic => 16,
        IsaSel::Avx2 => 32,
        IsaSel::Avx512 => 64,
        IsaSel::Dispatch => {
            if IsaSel::Avx512.available() {
                64
            } else if IsaSel::Avx2.available() {
                32
            } else {
                16
            }
        }
    };
    let sz = match ty {
        "f32" | "i32" => 4,
        "i16" | "u16" | "f16" => 2,
        _ => 1,
    };
    bytes / sz
}
