//! C18 "vm" family: every public vectorized operation of rten-vecmath run on a
//! chosen ISA over guard-page buffers. The record carries the input bit
//! patterns and the produced bit patterns; relations between ISAs and (for
//! discrete / exact-data cases) the scalar definition are evaluated by
//! Trace_Bounds.tla.

use std::mem::MaybeUninit;

use rten_simd::functional::simd_map;
use rten_simd::{Isa, SimdOp, SimdUnaryOp, f16};
use rten_vecmath::{
    ApproxGelu, Cos, Elu, Erf, Exp, F16ToF32, F32ToF16, Gelu, LeakyRelu, LogSoftmax, MaxNum, MinMax, MinNum,
    Normalize, NormalizeOptions, Quantize, Sigmoid, Silu, Sin, Softmax, Sum, SumAbs, SumExpSub, SumSquare,
    SumSquareSub, Swish, Tanh,
};
use vcommon::{Rng, Value, json};

use crate::guard::{GuardBuf, Place};
use crate::isa::{IsaSel, eval_on};
use crate::prims::{f32_specials, random_f32_bits};

/// The private `SimdMapOp` of rten-simd/src/dispatch.rs re-stated (5 lines):
/// apply a unary op to a slice with `simd_map` on the ISA passed to `eval`.
struct MapOn<'a, 'b, U: SimdUnaryOp<f32>> {
    op: &'a U,
    src: Option<&'b [f32]>,
    dst: &'b mut [MaybeUninit<f32>],
}
impl<U: SimdUnaryOp<f32>> SimdOp for MapOn<'_, '_, U> {
    type Output = usize;
    #[inline(always)]
    fn eval<I: Isa>(self, isa: I) -> usize {
        let ops = isa.f32();
        match self.src {
            Some(src) => simd_map(ops, (src, self.dst), #[inline(always)] |x| self.op.eval(isa, x)).len(),
            None => {
                // in place: the destination is the (initialised) input itself
                let data = unsafe { std::slice::from_raw_parts_mut(self.dst.as_mut_ptr() as *mut f32, self.dst.len()) };
                simd_map(ops, data, #[inline(always)] |x| self.op.eval(isa, x)).len()
            }
        }
    }
}

pub const UNARY: &[&str] = &[
    "erf", "gelu", "approx_gelu", "exp", "sigmoid", "silu", "swish", "elu", "leaky_relu", "sin", "cos", "tanh",
];
pub const SLICE_OPS: &[&str] = &[
    "softmax", "softmax_flush", "log_softmax", "normalize_const", "normalize_scale", "normalize_full",
];
pub const REDUCE: &[&str] = &["min_max", "max_num", "min_num", "sum", "sum_square", "sum_abs", "sum_square_sub", "sum_exp_sub"];
#[allow(dead_code)]
pub const CONVERT: &[&str] = &["f16_to_f32", "f32_to_f16", "quantize"];

fn key_hash(s: &str) -> u64 {
    let mut h: u64 = 0xcbf29ce484222325;
    for b in s.bytes() {
        h ^= b as u64;
        h = h.wrapping_mul(0x100000001b3);
    }
    h
}

/// Input data of a case: identical for every ISA (derived from the seed and the case key).
/// Classes: "grid" special values, "rand" seeded random, "ints" small integers (exact arithmetic).
pub fn gen_input(op: &str, dclass: &str, n: usize, seed: u64) -> Vec<u32> {
    let mut rng = Rng::new(seed ^ key_hash(&format!("{op}/{dclass}/{n}")));
    let sp = f32_specials();
    (0..n)
        .map(|_| match dclass {
            "grid" => *rng.pick(&sp),
            "ints" => (rng.range(-12, 12) as f32).to_bits(),
            // finite, moderate: |x| < 64
            "moderate" => {
                let m = rng.range(-(1 << 20), 1 << 20) as f32 / (1 << 14) as f32;
                m.to_bits()
            }
            _ => random_f32_bits(&mut rng),
        })
        .collect()
}

fn bits(xs: &[f32]) -> Vec<i64> {
    xs.iter().map(|x| x.to_bits() as i32 as i64).collect()
}

/// Run one vm case on one ISA. Returns the result fields.
pub fn run_case(op: &str, variant: &str, dclass: &str, sel: IsaSel, n: usize, place: Place, seed: u64) -> Value {
    let inp_bits = gen_input(op, dclass, n, seed);
    let inp: Vec<f32> = inp_bits.iter().map(|b| f32::from_bits(*b)).collect();
    let inplace = variant == "inplace";
    let mut src = GuardBuf::<f32>::new(n, place);
    src.fill(&inp);
    let mut dst = GuardBuf::<f32>::new(n, place);
    dst.fill(&vec![f32::from_bits(0x7fa5_a5a5); n]);
    let mut params: Vec<i64> = vec![];
    let mut out: Vec<i64> = vec![];
    let mut aux: Vec<i64> = vec![];
    let mut extra_dmg: Vec<i64> = vec![];
    let mut extra_in: Vec<i64> = vec![];

    macro_rules! unary {
        ($u:expr) => {{
            let u = $u;
            let len = if inplace {
                eval_on(sel, MapOn { op: &u, src: None, dst: src.uninit_mut() })
            } else {
                eval_on(sel, MapOn { op: &u, src: Some(src.slice()), dst: dst.uninit_mut() })
            };
            aux.push(len as i64);
            out = bits(if inplace { src.slice() } else { dst.slice() });
        }};
    }
    macro_rules! slice_op {
        ($new:expr, $new_mut:expr) => {{
            let len = if inplace {
                let f = $new_mut;
                eval_on(sel, f(src.slice_mut())).len()
            } else {
                let f = $new;
                let (s, d) = (src.slice(), dst.uninit_mut());
                eval_on(sel, f(s, d)).len()
            };
            aux.push(len as i64);
            out = bits(if inplace { src.slice() } else { dst.slice() });
        }};
    }

    match op {
        "erf" => unary!(Erf {}),
        "gelu" => unary!(Gelu {}),
        "approx_gelu" => unary!(ApproxGelu {}),
        "exp" => unary!(Exp {}),
        "sigmoid" => unary!(Sigmoid {}),
        "silu" => unary!(Silu {}),
        "swish" => {
            params.push(1.702f32.to_bits() as i64);
            unary!(Swish { alpha: 1.702 })
        }
        "elu" => {
            params.push(0.5f32.to_bits() as i64);
            unary!(Elu { alpha: 0.5 })
        }
        "leaky_relu" => {
            params.push(0.01f32.to_bits() as i64);
            unary!(LeakyRelu { alpha: 0.01 })
        }
        "sin" => unary!(Sin::new()),
        "cos" => unary!(Cos::new()),
        "tanh" => unary!(Tanh {}),
        "softmax" => slice_op!(|s, d| Softmax::new(s, d), |s| Softmax::new_mut(s)),
        "softmax_flush" => slice_op!(
            |s, d| Softmax::new(s, d).flush_nans_to_zero(true),
            |s| Softmax::new_mut(s).flush_nans_to_zero(true)
        ),
        "log_softmax" => slice_op!(|s, d| LogSoftmax::new(s, d), |s| LogSoftmax::new_mut(s)),
        "normalize_const" | "normalize_scale" | "normalize_full" => {
            // exact-data parameters: integers and a power-of-two scale
            let (pre, scale, bias) = match op {
                "normalize_const" => (3.0f32, 2.0f32, 7.0f32),
                "normalize_scale" => (2.0, 2.0, 0.0),
                _ => (1.0, 4.0, -5.0),
            };
            let mut rng = Rng::new(seed ^ key_hash(&format!("{op}/{dclass}/{n}/es")));
            let es: Vec<f32> = (0..n).map(|_| rng.range(-4, 4) as f32).collect();
            let eb: Vec<f32> = (0..n).map(|_| rng.range(-9, 9) as f32).collect();
            let mut gs = GuardBuf::<f32>::new(n, place);
            gs.fill(&es);
            let mut gb = GuardBuf::<f32>::new(n, place);
            gb.fill(&eb);
            params.extend([pre, scale, bias].iter().map(|x| x.to_bits() as i32 as i64));
            let (use_s, use_b) = match op {
                "normalize_const" => (false, false),
                "normalize_scale" => (true, false),
                _ => (true, true),
            };
            if use_s {
                extra_in.extend(bits(&es));
            }
            if use_b {
                extra_in.extend(bits(&eb));
            }
            {
                let opts = NormalizeOptions {
                    pre_scale_bias: pre,
                    scale,
                    element_scale: if use_s { Some(gs.slice()) } else { None },
                    bias,
                    element_bias: if use_b { Some(gb.slice()) } else { None },
                };
                let len = if inplace {
                    eval_on(sel, Normalize::new_mut(src.slice_mut(), opts)).len()
                } else {
                    eval_on(sel, Normalize::new(src.slice(), dst.uninit_mut(), opts)).len()
                };
                aux.push(len as i64);
            }
            out = bits(if inplace { src.slice() } else { dst.slice() });
            extra_dmg.extend(gs.damage());
            extra_dmg.extend(gb.damage());
            if bits(gs.slice()) != bits(&es) || bits(gb.slice()) != bits(&eb) {
                extra_dmg.push(i64::from(i32::MAX)); // parameter slices modified
            }
        }
        "min_max" => {
            let (lo, hi) = eval_on(sel, MinMax::new(src.slice()));
            out = bits(&[lo, hi]);
        }
        "max_num" => out = bits(&[eval_on(sel, MaxNum::new(src.slice()))]),
        "min_num" => out = bits(&[eval_on(sel, MinNum::new(src.slice()))]),
        "sum" => out = bits(&[eval_on(sel, Sum::new(src.slice()))]),
        "sum_square" => out = bits(&[eval_on(sel, SumSquare::new(src.slice()))]),
        "sum_abs" => out = bits(&[eval_on(sel, SumAbs::new(src.slice()))]),
        "sum_square_sub" => {
            params.push(2.0f32.to_bits() as i64);
            out = bits(&[eval_on(sel, SumSquareSub::new(src.slice(), 2.0))])
        }
        "sum_exp_sub" => {
            params.push(1.0f32.to_bits() as i64);
            out = bits(&[eval_on(sel, SumExpSub::new(src.slice(), 1.0))])
        }
        "f32_to_f16" => {
            let mut d16 = GuardBuf::<f16>::new(n, place);
            d16.fill(&vec![f16::from_bits(0xA5A5); n]);
            let len = eval_on(sel, F32ToF16::new(src.slice(), d16.uninit_mut())).len();
            aux.push(len as i64);
            out = d16.slice().iter().map(|h| h.to_bits() as i64).collect();
            extra_dmg.extend(d16.damage());
        }
        "f16_to_f32" => {
            // input: the low 16 bits of the generated patterns
            let h: Vec<f16> = inp_bits.iter().map(|b| f16::from_bits((*b ^ (*b >> 16)) as u16)).collect();
            let mut s16 = GuardBuf::<f16>::new(n, place);
            s16.fill(&h);
            let len = eval_on(sel, F16ToF32::new(s16.slice(), dst.uninit_mut())).len();
            aux.push(len as i64);
            out = bits(dst.slice());
            extra_in = h.iter().map(|x| x.to_bits() as i64).collect();
            extra_dmg.extend(s16.damage());
            if s16.slice().iter().zip(&h).any(|(a, b)| a.to_bits() != b.to_bits()) {
                extra_dmg.push(i64::from(i32::MAX));
            }
        }
        "quantize" => {
            let (inv_scale, zp): (f32, u8) = match variant {
                "s1_z0" => (1.0, 0),
                "s1_z10" => (1.0, 10),
                "s05_z255" => (0.5, 255),
                _ => (5.2, 10),
            };
            params.push(inv_scale.to_bits() as i64);
            params.push(zp as i64);
            let mut d8 = GuardBuf::<u8>::new(n, place);
            d8.fill(&vec![0xA5u8; n]);
            let len = eval_on(sel, Quantize::new(src.slice(), d8.uninit_mut(), inv_scale, zp)).len();
            aux.push(len as i64);
            out = d8.slice().iter().map(|x| *x as i64).collect();
            extra_dmg.extend(d8.damage());
        }
        other => panic!("harness: unknown vm op {other}"),
    }
    let mut dmg = src.damage();
    dmg.extend(dst.damage());
    dmg.extend(extra_dmg);
    // "nothing else touched": the source of a src->dst / reduction op is logged again afterwards
    let src_after: Vec<i64> = if inplace { vec![] } else { bits(src.slice()) };
    json!({"inp": inp_bits.iter().map(|b| *b as i32).collect::<Vec<i32>>(), "extra_in": extra_in, "params": params,
           "out": out, "aux": aux, "dmg": dmg, "src_after": src_after})
}

/// Elements per block of the op's main loop on `sel` (lengths go to 4*block+3).
pub fn block(op: &str, sel: IsaSel) -> usize {
    let v32 = crate::mem::width("f32", sel);
    match op {
        "quantize" => 4 * v32,
        "f16_to_f32" => 2 * v32, // one f16 vector
        "f32_to_f16" => 2 * v32,
        _ => v32,
    }
}
