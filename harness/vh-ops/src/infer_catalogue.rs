// Catalogue of single-operator cases for the infer engine (included by infer.rs).
// Every generator draws shapes, attribute values and integer data from the seeded stream and
// returns a case that is meant to execute; a case that fails to load or run is recorded and skipped
// by the spec (counted).

type Generator = fn(&mut Rng) -> Case;

fn dimv(r: &mut Rng, max: usize) -> usize {
    match r.below(12) {
        0 => 0,
        1 | 2 => 1,
        _ => r.range(1, max as i64) as usize,
    }
}

fn dimnz(r: &mut Rng, max: usize) -> usize {
    if r.chance(1, 6) { 1 } else { r.range(1, max as i64) as usize }
}

fn shape(r: &mut Rng, min_rank: usize, max_rank: usize, max: usize) -> Vec<usize> {
    let rank = r.range(min_rank as i64, max_rank as i64) as usize;
    (0..rank).map(|_| dimv(r, max)).collect()
}

fn shape_nz(r: &mut Rng, min_rank: usize, max_rank: usize, max: usize) -> Vec<usize> {
    let rank = r.range(min_rank as i64, max_rank as i64) as usize;
    (0..rank).map(|_| dimnz(r, max)).collect()
}

/// Two shapes that broadcast against each other.
fn bpair(r: &mut Rng, max_rank: usize) -> (Vec<usize>, Vec<usize>) {
    let full = shape(r, 0, max_rank, 4);
    let cut = |r: &mut Rng, s: &[usize]| -> Vec<usize> {
        let drop = r.below(s.len() + 1);
        s[drop..].iter().map(|d| if r.chance(1, 4) { 1 } else { *d }).collect()
    };
    let a = cut(r, &full);
    let b = if r.chance(1, 2) { full.clone() } else { cut(r, &full) };
    if r.chance(1, 2) { (a, b) } else { (b, a) }
}

fn neg_axis(r: &mut Rng, axis: usize, rank: usize) -> i64 {
    if r.chance(1, 3) { axis as i64 - rank as i64 } else { axis as i64 }
}

fn tdata(r: &mut Rng, s: &[usize]) -> T {
    if r.chance(1, 2) { T::f32(s, r) } else { T::i32(s, r, -5, 5) }
}

/// Small integer vectors / scalars (the shape-carrying tensors of the property text), incl. negative and zero values.
fn small_ints(r: &mut Rng) -> T {
    if r.chance(1, 4) {
        T::i32(&[], r, -4, 6)
    } else {
        let n = r.range(0, 4) as usize;
        T::i32(&[n], r, -4, 6)
    }
}

fn binary(op: &'static str, r: &mut Rng) -> Case {
    if r.chance(1, 2) {
        // value-carrying operands
        let a = small_ints(r);
        let b = match r.below(3) {
            0 => T::i32(&a.shape, r, -4, 6),
            1 => T::i32(&[], r, -4, 6),
            _ => T::i32(&[1], r, -4, 6),
        };
        let mut b = b;
        if op == "Div" || op == "Mod" {
            for v in b.data.iter_mut() {
                if *v == 0 {
                    *v = 2;
                }
            }
        }
        let (a, b) = if r.chance(1, 3) && op != "Div" && op != "Mod" { (b, a) } else { (a, b) };
        let ca = r.chance(1, 4);
        let cb = !ca && r.chance(1, 3);
        Case::new(op, "values").maybe_const(a, ca).maybe_const(b, cb)
    } else {
        let (sa, sb) = bpair(r, 3);
        let f = r.chance(1, 2) && op != "Mod";
        let (a, mut b) = if f { (T::f32(&sa, r), T::f32(&sb, r)) } else { (T::i32(&sa, r, -5, 5), T::i32(&sb, r, -5, 5)) };
        if op == "Div" || op == "Mod" {
            for v in b.data.iter_mut() {
                if *v == 0 {
                    *v = 1;
                }
            }
        }
        Case::new(op, "shapes").input(a).input(b)
    }
}

fn g_add(r: &mut Rng) -> Case { binary("Add", r) }
fn g_sub(r: &mut Rng) -> Case { binary("Sub", r) }
fn g_mul(r: &mut Rng) -> Case { binary("Mul", r) }
fn g_div(r: &mut Rng) -> Case { binary("Div", r) }
fn g_equal(r: &mut Rng) -> Case { binary("Equal", r) }
fn g_greater(r: &mut Rng) -> Case { binary("Greater", r) }
fn g_less(r: &mut Rng) -> Case { binary("Less", r) }
fn g_pow(r: &mut Rng) -> Case {
    let (sa, sb) = bpair(r, 3);
    let mut b = T::f32(&sb, r);
    for v in b.data.iter_mut() {
        *v = v.abs() % 3;
    }
    Case::new("Pow", "shapes").input(T::f32(&sa, r)).input(b)
}
fn g_mod(r: &mut Rng) -> Case { binary("Mod", r) }
fn g_and(r: &mut Rng) -> Case {
    let (sa, sb) = bpair(r, 3);
    Case::new("And", "shapes").input(T::i32(&sa, r, 0, 1).ot(onnx::BOOL)).input(T::i32(&sb, r, 0, 1).ot(onnx::BOOL))
}

fn variadic(op: &'static str, r: &mut Rng) -> Case {
    let n = r.range(1, 3);
    let full = shape(r, 0, 3, 4);
    let f = r.chance(1, 2);
    let mut c = Case::new(op, &format!("n{n}"));
    for _ in 0..n {
        let drop = r.below(full.len() + 1);
        let s: Vec<usize> = full[drop..].iter().map(|d| if r.chance(1, 4) { 1 } else { *d }).collect();
        c = c.input(if f { T::f32(&s, r) } else { T::i32(&s, r, -5, 5) });
    }
    c
}
fn g_max(r: &mut Rng) -> Case { variadic("Max", r) }
fn g_min(r: &mut Rng) -> Case { variadic("Min", r) }
fn g_sum(r: &mut Rng) -> Case { variadic("Sum", r) }
fn g_mean(r: &mut Rng) -> Case {
    let mut c = variadic("Mean", r);
    for t in c.ins.iter_mut().flatten() {
        t.dt = "f32";
        t.ot = onnx::FLOAT;
    }
    c
}

fn g_where(r: &mut Rng) -> Case {
    if r.chance(1, 2) {
        let x = small_ints(r);
        let n = x.data.len();
        let cond = match r.below(3) {
            0 => T::i32(&x.shape, r, 0, 1),
            1 => T::i32(&[], r, 0, 1),
            _ => T::i32(&[1], r, 0, 1),
        }
        .ot(onnx::BOOL);
        let y = if r.chance(1, 2) { T::i32(&x.shape, r, -4, 6) } else { T::i32(&[], r, -4, 6) };
        let _ = n;
        let cc = r.chance(1, 4);
        Case::new("Where", "values").maybe_const(cond, cc).input(x).input(y)
    } else {
        let full = shape(r, 0, 3, 4);
        let mut cut = |r: &mut Rng| -> Vec<usize> {
            let drop = r.below(full.len() + 1);
            full[drop..].iter().map(|d| if r.chance(1, 4) { 1 } else { *d }).collect()
        };
        let (sc, sx, sy) = (cut(r), cut(r), cut(r));
        Case::new("Where", "shapes").input(T::i32(&sc, r, 0, 1).ot(onnx::BOOL)).input(T::f32(&sx, r)).input(T::f32(&sy, r))
    }
}

fn unary(op: &'static str, r: &mut Rng) -> Case {
    let s = shape(r, 0, 4, 4);
    Case::new(op, "").input(T::f32(&s, r))
}
fn g_neg(r: &mut Rng) -> Case {
    if r.chance(1, 2) {
        Case::new("Neg", "values").input(small_ints(r))
    } else {
        let s = shape(r, 0, 4, 4);
        Case::new("Neg", "shapes").input(tdata(r, &s))
    }
}
fn g_relu(r: &mut Rng) -> Case { unary("Relu", r) }
fn g_abs(r: &mut Rng) -> Case { unary("Abs", r) }
fn g_sigmoid(r: &mut Rng) -> Case { unary("Sigmoid", r) }
fn g_identity(r: &mut Rng) -> Case {
    if r.chance(1, 2) {
        Case::new("Identity", "values").input(small_ints(r))
    } else {
        let s = shape(r, 0, 4, 4);
        Case::new("Identity", "shapes").input(tdata(r, &s))
    }
}
fn g_cast(r: &mut Rng) -> Case {
    let to = *r.pick(&[onnx::FLOAT, onnx::INT32, onnx::INT64]);
    let t = if r.chance(1, 2) { small_ints(r) } else { let s = shape(r, 0, 3, 4); tdata(r, &s) };
    Case::new("Cast", &format!("to{to}")).input(t).int("to", to as i64)
}
fn g_clip(r: &mut Rng) -> Case {
    let s = shape(r, 0, 3, 4);
    Case::new("Clip", "").input(T::f32(&s, r)).constant(T::new(&[], "f32", vec![-1])).constant(T::new(&[], "f32", vec![2]))
}
fn g_softmax(r: &mut Rng) -> Case {
    let s = shape_nz(r, 1, 3, 4);
    let ax = r.below(s.len());
    let a = neg_axis(r, ax, s.len());
    Case::new("Softmax", "").input(T::f32(&s, r)).int("axis", a)
}

fn g_shape(r: &mut Rng) -> Case {
    let s = shape(r, 0, 4, 5);
    let n = s.len() as i64;
    let mut c = Case::new("Shape", "plain").input(tdata(r, &s));
    if r.chance(1, 2) {
        let st = r.range(-n - 1, n + 1);
        c = c.int("start", st);
        c.variant = "start".into();
    }
    if r.chance(1, 3) {
        let e = r.range(-n - 1, n + 1);
        c = c.int("end", e);
        c.variant.push_str("+end");
    }
    c
}
fn g_size(r: &mut Rng) -> Case {
    let s = shape(r, 0, 4, 4);
    Case::new("Size", "").input(tdata(r, &s))
}

/// A reshape target for `s`: a factorisation with optional -1 / 0 entries.
fn reshape_target(r: &mut Rng, s: &[usize], allow_zero: bool) -> Vec<i64> {
    let n = numel(s);
    let mut out: Vec<i64> = Vec::new();
    if n == 0 {
        out = s.iter().map(|d| *d as i64).collect();
        if out.is_empty() {
            out.push(0);
        }
        return out;
    }
    let mut rest = n;
    let rank = r.range(0, 4);
    for _ in 0..rank {
        let divs: Vec<usize> = (1..=rest).filter(|d| rest % d == 0).collect();
        let d = *r.pick(&divs);
        out.push(d as i64);
        rest /= d;
    }
    if rest != 1 || out.is_empty() && n != 1 {
        out.push(rest as i64);
    }
    if !out.is_empty() && r.chance(1, 2) {
        let k = r.below(out.len());
        out[k] = -1;
    }
    if !allow_zero && r.chance(1, 4) {
        // 0 copies the input dim at the same position
        for k in 0..out.len().min(s.len()) {
            if out[k] == s[k] as i64 && r.chance(1, 2) {
                out[k] = 0;
            }
        }
    }
    out
}
fn g_reshape(r: &mut Rng) -> Case {
    let s = shape(r, 0, 4, 4);
    let allow_zero = r.chance(1, 5);
    let tgt = reshape_target(r, &s, allow_zero);
    let mut c = Case::new("Reshape", if allow_zero { "allowzero" } else { "default" })
        .input(tdata(r, &s))
        .maybe_const(T::i64s(&tgt), r.chance(1, 2));
    if allow_zero {
        c = c.int("allowzero", 1);
    }
    c
}
fn g_flatten(r: &mut Rng) -> Case {
    let s = shape(r, 0, 4, 4);
    let n = s.len() as i64;
    let mut c = Case::new("Flatten", "default").input(tdata(r, &s));
    if r.chance(3, 4) {
        let a = r.range(-n, n);
        c = c.int("axis", a);
        c.variant = "axis".into();
    }
    c
}
fn g_squeeze(r: &mut Rng) -> Case {
    let mut s = shape(r, 0, 4, 4);
    for d in s.iter_mut() {
        if r.chance(1, 3) {
            *d = 1;
        }
    }
    let ones: Vec<usize> = (0..s.len()).filter(|i| s[*i] == 1).collect();
    let c = Case::new("Squeeze", "noaxes").input(tdata(r, &s));
    if r.chance(1, 3) || ones.is_empty() {
        return c;
    }
    let mut axes: Vec<i64> = vec![];
    for a in &ones {
        if r.chance(2, 3) {
            axes.push(neg_axis(r, *a, s.len()));
        }
    }
    let mut c = c.maybe_const(T::i64s(&axes), r.chance(2, 3));
    c.variant = "axes".into();
    c
}
fn g_unsqueeze(r: &mut Rng) -> Case {
    let s = shape(r, 0, 3, 4);
    let k = r.range(1, 2) as usize;
    let out_rank = s.len() + k;
    let mut axes: Vec<usize> = (0..out_rank).collect();
    r.shuffle(&mut axes);
    axes.truncate(k);
    let axes: Vec<i64> = axes.iter().map(|a| neg_axis(r, *a, out_rank)).collect();
    let data = if s.len() <= 1 && r.chance(1, 2) { T::i32(&s, r, -4, 6) } else { tdata(r, &s) };
    Case::new("Unsqueeze", "").input(data).maybe_const(T::i64s(&axes), r.chance(2, 3))
}
fn g_transpose(r: &mut Rng) -> Case {
    let s = shape(r, 0, 4, 4);
    let c = Case::new("Transpose", "noperm").input(tdata(r, &s));
    if r.chance(1, 3) {
        return c;
    }
    let mut p: Vec<i64> = (0..s.len() as i64).collect();
    r.shuffle(&mut p);
    let mut c = c.ints("perm", &p);
    c.variant = "perm".into();
    c
}
fn g_expand(r: &mut Rng) -> Case {
    let (a, b) = bpair(r, 3);
    let tgt: Vec<i64> = b.iter().map(|d| *d as i64).collect();
    Case::new("Expand", "").input(tdata(r, &a)).maybe_const(T::i64s(&tgt), r.chance(1, 2))
}
fn g_tile(r: &mut Rng) -> Case {
    let s = shape(r, 1, 3, 3);
    let reps: Vec<i64> = s.iter().map(|_| r.range(0, 3)).collect();
    Case::new("Tile", "").input(tdata(r, &s)).maybe_const(T::i64s(&reps), r.chance(1, 2))
}
fn g_concat(r: &mut Rng) -> Case {
    if r.chance(1, 2) {
        // vectors of shape-like values
        let n = r.range(1, 4);
        let mut c = Case::new("Concat", "values").int("axis", if r.chance(1, 2) { 0 } else { -1 });
        for _ in 0..n {
            let len = r.range(0, 3) as usize;
            let t = T::i32(&[len], r, -4, 6);
            let ci = r.chance(1, 3);
            c = c.maybe_const(t, ci);
        }
        c
    } else {
        let base = shape(r, 1, 4, 4);
        let ax = r.below(base.len());
        let n = r.range(1, 3);
        let f = r.chance(1, 2);
        let mut c = Case::new("Concat", "shapes").int("axis", neg_axis(r, ax, base.len()));
        for _ in 0..n {
            let mut s = base.clone();
            s[ax] = dimv(r, 4);
            c = c.input(if f { T::f32(&s, r) } else { T::i32(&s, r, -5, 5) });
        }
        c
    }
}
fn g_split(r: &mut Rng) -> Case {
    let mut s = shape_nz(r, 1, 3, 4);
    let ax = r.below(s.len());
    let parts = r.range(1, 3) as usize;
    let axis = neg_axis(r, ax, s.len());
    if r.chance(1, 2) {
        let sizes: Vec<i64> = (0..parts).map(|_| r.range(0, 3)).collect();
        s[ax] = sizes.iter().sum::<i64>() as usize;
        Case::new("Split", "sizes").input(tdata(r, &s)).maybe_const(T::i64s(&sizes), r.chance(2, 3)).int("axis", axis).nout(parts)
    } else {
        let per = r.range(1, 3) as usize;
        s[ax] = per * parts - if r.chance(1, 3) && per > 1 { 1 } else { 0 };
        Case::new("Split", "num_outputs").input(tdata(r, &s)).int("axis", axis).int("num_outputs", parts as i64).nout(parts)
    }
}
fn g_slice(r: &mut Rng) -> Case {
    let vec_data = r.chance(1, 3);
    let s = if vec_data { vec![r.range(0, 5) as usize] } else { shape(r, 1, 3, 6) };
    let rank = s.len();
    let mut axes: Vec<usize> = (0..rank).collect();
    r.shuffle(&mut axes);
    axes.truncate(r.range(1, rank as i64) as usize);
    let mut starts = vec![];
    let mut ends = vec![];
    let mut steps = vec![];
    for a in &axes {
        let d = s[*a] as i64;
        starts.push(r.range(-d - 2, d + 2));
        ends.push(if r.chance(1, 5) { i32::MAX as i64 } else { r.range(-d - 2, d + 2) });
        steps.push(*r.pick(&[1i64, 1, 1, 2, -1, -2, 3]));
    }
    let data = if vec_data { T::i32(&s, r, -4, 6) } else { tdata(r, &s) };
    let cst = r.chance(1, 2);
    let mut c = Case::new("Slice", "starts_ends").input(data).maybe_const(T::i64s(&starts), cst).maybe_const(T::i64s(&ends), cst);
    let with_axes = r.chance(2, 3) || axes.len() != rank || axes.iter().enumerate().any(|(i, a)| i != *a);
    let with_steps = r.chance(1, 2);
    if with_axes || with_steps {
        let ax: Vec<i64> = if with_axes { axes.iter().map(|a| neg_axis(r, *a, rank)).collect() } else { (0..rank as i64).collect() };
        if !with_axes {
            // default axes are 0..rank: starts/ends must cover every axis in order
            let mut o: Vec<usize> = (0..axes.len()).collect();
            o.sort_by_key(|i| axes[*i]);
            if axes.len() != rank {
                return c;
            }
            let st: Vec<i64> = o.iter().map(|i| starts[*i]).collect();
            let en: Vec<i64> = o.iter().map(|i| ends[*i]).collect();
            c.ins[1] = Some(T::i64s(&st));
            c.ins[2] = Some(T::i64s(&en));
        }
        c = c.maybe_const(T::i64s(&ax), r.chance(3, 4));
        c.variant = "axes".into();
        if with_steps {
            c = c.maybe_const(T::i64s(&steps), r.chance(3, 4));
            c.variant = "axes_steps".into();
        }
    }
    c
}
fn g_gather(r: &mut Rng) -> Case {
    let vec_data = r.chance(1, 2);
    let s = if vec_data { vec![r.range(1, 5) as usize] } else { shape_nz(r, 1, 3, 4) };
    let ax = r.below(s.len());
    let d = s[ax] as i64;
    let ishape = match r.below(4) { 0 | 1 => vec![], 2 => vec![r.range(0, 3) as usize], _ => vec![r.range(1, 2) as usize, r.range(1, 2) as usize] };
    let idx = T::i32(&ishape, r, -d, d - 1).ot(onnx::INT64);
    let data = if vec_data { T::i32(&s, r, -4, 6) } else { tdata(r, &s) };
    let ci = r.chance(2, 3);
    let mut c = Case::new("Gather", if vec_data { "values" } else { "shapes" }).input(data).maybe_const(idx, ci);
    if ax != 0 || r.chance(1, 2) {
        c = c.int("axis", neg_axis(r, ax, s.len()));
    }
    c
}
fn g_gather_elements(r: &mut Rng) -> Case {
    let s = shape_nz(r, 1, 3, 4);
    let ax = r.below(s.len());
    let mut is = s.clone();
    for (i, d) in is.iter_mut().enumerate() {
        if i == ax { *d = r.range(1, 3) as usize } else { *d = r.range(1, *d as i64) as usize }
    }
    let idx = T::i32(&is, r, 0, s[ax] as i64 - 1).ot(onnx::INT64);
    Case::new("GatherElements", "").input(tdata(r, &s)).input(idx).int("axis", neg_axis(r, ax, s.len()))
}
fn g_gather_nd(r: &mut Rng) -> Case {
    let s = shape_nz(r, 1, 3, 4);
    let k = r.range(1, s.len() as i64) as usize;
    let lead = shape_nz(r, 0, 2, 3);
    let mut ishape = lead.clone();
    ishape.push(k);
    let n = numel(&lead);
    let mut data = vec![];
    for _ in 0..n {
        for j in 0..k {
            data.push(r.range(0, s[j] as i64 - 1));
        }
    }
    Case::new("GatherND", "").input(tdata(r, &s)).input(T::new(&ishape, "i32", data).ot(onnx::INT64))
}
fn g_pad(r: &mut Rng) -> Case {
    let s = shape_nz(r, 1, 3, 4);
    let n = s.len();
    let mode = *r.pick(&["constant", "constant", "reflect", "edge"]);
    let mut pads: Vec<i64> = (0..2 * n).map(|_| r.range(0, 2)).collect();
    if mode == "constant" && r.chance(1, 3) {
        for (i, p) in pads.iter_mut().enumerate() {
            if r.chance(1, 3) {
                *p = -r.range(0, (s[i % n] / 2) as i64);
            }
        }
    }
    if mode == "reflect" {
        for (i, p) in pads.iter_mut().enumerate() {
            *p = (*p).min(s[i % n] as i64 - 1).max(0);
        }
    }
    let mut c = Case::new("Pad", mode).input(T::f32(&s, r)).maybe_const(T::i64s(&pads), r.chance(2, 3));
    if mode != "constant" || r.chance(1, 2) {
        c = c.attr("mode", Attr::Str(mode.into()));
    }
    c
}
fn g_constant_of_shape(r: &mut Rng) -> Case {
    let s = shape(r, 0, 3, 4);
    let sv: Vec<i64> = s.iter().map(|d| *d as i64).collect();
    let mut c = Case::new("ConstantOfShape", "default").maybe_const(T::i64s(&sv), r.chance(1, 3));
    match r.below(3) {
        0 => {}
        1 => {
            c = c.attr("value", Attr::Tensor(onnx::Tensor { name: String::new(), dims: vec![1], data: TensorData::I64(vec![r.range(-3, 7)]) }));
            c.variant = "int".into();
        }
        _ => {
            c = c.attr("value", Attr::Tensor(onnx::Tensor { name: String::new(), dims: vec![1], data: TensorData::F32(vec![r.range(-3, 7) as f32]) }));
            c.variant = "float".into();
        }
    }
    c
}
fn g_range(r: &mut Rng) -> Case {
    let start = r.range(-4, 6);
    let delta = *r.pick(&[1i64, 1, 2, -1, -2, 3]);
    let limit = start + delta * r.range(-1, 4) + r.range(0, 1);
    let f = r.chance(1, 4);
    let mk = |v: i64| if f { T::new(&[], "f32", vec![v]) } else { T::new(&[], "i32", vec![v]) };
    Case::new("Range", if f { "f32" } else { "i32" })
        .maybe_const(mk(start), r.chance(1, 3))
        .maybe_const(mk(limit), r.chance(1, 3))
        .maybe_const(mk(delta), r.chance(1, 2))
}
fn g_onehot(r: &mut Rng) -> Case {
    let s = shape(r, 0, 2, 3);
    let depth = r.range(1, 4);
    let rank = s.len() as i64;
    let mut c = Case::new("OneHot", "")
        .input(T::i32(&s, r, 0, depth - 1))
        .maybe_const(T::new(&[], "i32", vec![depth]).ot(onnx::INT64), r.chance(2, 3))
        .constant(T::new(&[2], "f32", vec![0, 1]));
    if r.chance(1, 2) {
        c = c.int("axis", r.range(-rank - 1, rank));
    }
    c
}
fn g_topk(r: &mut Rng) -> Case {
    let s = shape_nz(r, 1, 3, 4);
    let ax = r.below(s.len());
    let k = r.range(0, s[ax] as i64);
    Case::new("TopK", "").input(T::f32(&s, r)).maybe_const(T::i64s(&[k]), r.chance(1, 2)).int("axis", neg_axis(r, ax, s.len())).nout(2)
}
fn g_nonzero(r: &mut Rng) -> Case {
    let s = shape(r, 0, 3, 3);
    Case::new("NonZero", "").input(T::i32(&s, r, -1, 1))
}
fn reduce(op: &'static str, r: &mut Rng) -> Case {
    let s = shape_nz(r, 0, 4, 4);
    let rank = s.len();
    let keep = r.chance(1, 2);
    let mut c = Case::new(op, "noaxes").input(T::f32(&s, r)).int("keepdims", keep as i64);
    match r.below(4) {
        0 => {}
        1 => {
            c = c.maybe_const(T::i64s(&[]), r.chance(1, 2));
            let noop = r.chance(1, 2);
            c = c.int("noop_with_empty_axes", noop as i64);
            c.variant = if noop { "reduce_empty_axes_noop".into() } else { "reduce_empty_axes".into() };
        }
        _ if rank > 0 => {
            let mut axes: Vec<usize> = (0..rank).collect();
            r.shuffle(&mut axes);
            axes.truncate(r.range(1, rank as i64) as usize);
            let axes: Vec<i64> = axes.iter().map(|a| neg_axis(r, *a, rank)).collect();
            c = c.maybe_const(T::i64s(&axes), r.chance(2, 3));
            c.variant = "axes".into();
        }
        _ => {}
    }
    c
}
fn g_reduce_sum(r: &mut Rng) -> Case { reduce("ReduceSum", r) }
fn g_reduce_mean(r: &mut Rng) -> Case { reduce("ReduceMean", r) }
fn g_reduce_max(r: &mut Rng) -> Case { reduce("ReduceMax", r) }
fn g_reduce_min(r: &mut Rng) -> Case { reduce("ReduceMin", r) }
fn g_reduce_prod(r: &mut Rng) -> Case { reduce("ReduceProd", r) }
fn g_reduce_l2(r: &mut Rng) -> Case { reduce("ReduceL2", r) }
fn arg_reduce(op: &'static str, r: &mut Rng) -> Case {
    let s = shape_nz(r, 1, 4, 4);
    let ax = r.below(s.len());
    let keep = r.chance(1, 2);
    let mut c = Case::new(op, if keep { "keep" } else { "nokeep" }).input(T::f32(&s, r)).int("keepdims", keep as i64);
    if ax != 0 || r.chance(1, 2) {
        c = c.int("axis", neg_axis(r, ax, s.len()));
    }
    c
}
fn g_argmax(r: &mut Rng) -> Case { arg_reduce("ArgMax", r) }
fn g_argmin(r: &mut Rng) -> Case { arg_reduce("ArgMin", r) }
fn g_cumsum(r: &mut Rng) -> Case {
    let s = shape_nz(r, 1, 3, 4);
    let ax = r.below(s.len());
    Case::new("CumSum", "").input(T::f32(&s, r)).constant(T::new(&[], "i32", vec![neg_axis(r, ax, s.len())]))
}
fn g_matmul(r: &mut Rng) -> Case {
    let (m, k, n) = (dimv(r, 4), dimnz(r, 4), dimv(r, 4));
    let (ba, bb) = bpair(r, 2);
    let variant = r.below(4);
    let (sa, sb): (Vec<usize>, Vec<usize>) = match variant {
        0 => (vec![m, k], vec![k, n]),
        1 => (vec![k], vec![k, n]),
        2 => (vec![m, k], vec![k]),
        _ => ([ba.as_slice(), &[m, k]].concat(), [bb.as_slice(), &[k, n]].concat()),
    };
    Case::new("MatMul", ["2d", "vec_mat", "mat_vec", "batched"][variant]).input(T::f32(&sa, r)).maybe_const(T::f32(&sb, r), r.chance(1, 3))
}
fn g_gemm(r: &mut Rng) -> Case {
    let (m, k, n) = (dimnz(r, 4), dimnz(r, 4), dimnz(r, 4));
    let ta = r.chance(1, 3);
    let tb = r.chance(1, 3);
    let sa = if ta { vec![k, m] } else { vec![m, k] };
    let sb = if tb { vec![n, k] } else { vec![k, n] };
    let mut c = Case::new("Gemm", &format!("tA{}tB{}", ta as u8, tb as u8)).input(T::f32(&sa, r)).input(T::f32(&sb, r));
    if r.chance(1, 2) {
        let sc = match r.below(3) { 0 => vec![n], 1 => vec![m, n], _ => vec![1, n] };
        c = c.input(T::f32(&sc, r));
        c.variant.push_str("+bias");
    }
    c.int("transA", ta as i64).int("transB", tb as i64)
}
fn conv_like(op: &'static str, r: &mut Rng) -> Case {
    let nd = if r.chance(1, 4) { 1 } else { 2 };
    let (n, cin) = (dimnz(r, 2), r.range(1, 3) as usize);
    let groups = if cin % 2 == 0 && r.chance(1, 3) { 2 } else { 1 };
    let cout = groups * r.range(1, 2) as usize;
    let kernel: Vec<usize> = (0..nd).map(|_| r.range(1, 3) as usize).collect();
    let strides: Vec<i64> = (0..nd).map(|_| r.range(1, 2)).collect();
    let dil: Vec<i64> = (0..nd).map(|_| r.range(1, 2)).collect();
    let spatial: Vec<usize> = (0..nd).map(|i| (kernel[i] - 1) * dil[i] as usize + 1 + r.range(0, 4) as usize).collect();
    let pads: Vec<i64> = (0..2 * nd).map(|_| r.range(0, 2)).collect();
    let x = [vec![n, cin], spatial].concat();
    let w = if op == "ConvTranspose" { [vec![cin, cout / groups], kernel.clone()].concat() } else { [vec![cout, cin / groups], kernel.clone()].concat() };
    let mut c = Case::new(op, &format!("{nd}d_g{groups}")).input(T::f32(&x, r)).maybe_const(T::f32(&w, r), r.chance(1, 2));
    if r.chance(1, 2) {
        c = c.input(T::f32(&[cout], r));
    }
    c = c.ints("strides", &strides).int("group", groups as i64);
    if op == "Conv" {
        c = c.ints("dilations", &dil);
    } else {
        c = c.ints("dilations", &vec![1; nd]);
    }
    match r.below(4) {
        0 => {
            c = c.attr("auto_pad", Attr::Str("SAME_UPPER".into()));
            c.variant.push_str("_same");
        }
        1 => {
            // rten wants explicit pads with VALID / NOTSET: "valid" = explicit zero padding
            c = c.ints("pads", &vec![0; 2 * nd]);
            c.variant.push_str("_nopad");
        }
        _ => {
            c = c.ints("pads", &pads);
            c.variant.push_str("_pads");
        }
    }
    if r.chance(1, 2) {
        c = c.ints("kernel_shape", &kernel.iter().map(|k| *k as i64).collect::<Vec<_>>());
    }
    c
}
fn g_conv(r: &mut Rng) -> Case { conv_like("Conv", r) }
fn g_conv_transpose(r: &mut Rng) -> Case { conv_like("ConvTranspose", r) }
fn pool(op: &'static str, r: &mut Rng) -> Case {
    let nd = 2;
    let (n, ch) = (dimnz(r, 2), dimnz(r, 3));
    let kernel: Vec<i64> = (0..nd).map(|_| r.range(1, 3)).collect();
    let strides: Vec<i64> = (0..nd).map(|_| r.range(1, 3)).collect();
    let spatial: Vec<usize> = (0..nd).map(|i| kernel[i] as usize + r.range(0, 5) as usize).collect();
    let pads: Vec<i64> = (0..2 * nd).map(|i| r.range(0, (kernel[i % nd] - 1).min(2))).collect();
    let ceil = r.chance(1, 3);
    let x = [vec![n, ch], spatial].concat();
    let mut c = Case::new(op, if ceil { "ceil" } else { "floor" }).input(T::f32(&x, r)).ints("kernel_shape", &kernel).ints("strides", &strides);
    if ceil {
        c = c.int("ceil_mode", 1);
    }
    match r.below(4) {
        0 => {
            c = c.attr("auto_pad", Attr::Str("SAME_UPPER".into()));
            c.variant.push_str("_same");
        }
        1 => {}
        _ => {
            c = c.ints("pads", &pads);
            c.variant.push_str("_pads");
        }
    }
    c
}
fn g_maxpool(r: &mut Rng) -> Case { pool("MaxPool", r) }
fn g_avgpool(r: &mut Rng) -> Case { pool("AveragePool", r) }
fn g_global_avgpool(r: &mut Rng) -> Case {
    let s = [vec![dimnz(r, 2), dimnz(r, 3)], shape_nz(r, 2, 2, 4)].concat();
    Case::new("GlobalAveragePool", "").input(T::f32(&s, r))
}
fn g_global_maxpool(r: &mut Rng) -> Case {
    let s = [vec![dimnz(r, 2), dimnz(r, 3)], shape_nz(r, 2, 2, 4)].concat();
    Case::new("GlobalMaxPool", "").input(T::f32(&s, r))
}
fn g_depth_to_space(r: &mut Rng) -> Case {
    let b = r.range(1, 2) as usize;
    let s = vec![dimnz(r, 2), b * b * r.range(1, 2) as usize, dimnz(r, 3), dimnz(r, 3)];
    let mut c = Case::new("DepthToSpace", "dcr").input(T::f32(&s, r)).int("blocksize", b as i64);
    if r.chance(1, 2) {
        c = c.attr("mode", Attr::Str("CRD".into()));
        c.variant = "crd".into();
    }
    c
}
fn g_resize(r: &mut Rng) -> Case {
    let s = vec![dimnz(r, 2), dimnz(r, 2), dimnz(r, 4), dimnz(r, 4)];
    let c = Case::new("Resize", "sizes").input(T::f32(&s, r)).skip();
    if r.chance(1, 2) {
        let sizes = [s[0] as i64, s[1] as i64, r.range(1, 6), r.range(1, 6)];
        c.skip().maybe_const(T::i64s(&sizes), r.chance(1, 2)).attr("mode", Attr::Str("nearest".into()))
    } else {
        let mut c = c.maybe_const(T::new(&[4], "f32", vec![1, 1, r.range(1, 3), r.range(1, 3)]), r.chance(1, 2)).attr("mode", Attr::Str("nearest".into()));
        c.variant = "scales".into();
        c
    }
}
fn g_einsum(r: &mut Rng) -> Case {
    let (i, j, k, b) = (dimnz(r, 3), dimnz(r, 3), dimnz(r, 3), dimnz(r, 2));
    match r.below(4) {
        0 => Case::new("Einsum", "ij,jk->ik").input(T::f32(&[i, j], r)).input(T::f32(&[j, k], r)).attr("equation", Attr::Str("ij,jk->ik".into())),
        1 => Case::new("Einsum", "bij,bjk->bik").input(T::f32(&[b, i, j], r)).input(T::f32(&[b, j, k], r)).attr("equation", Attr::Str("bij,bjk->bik".into())),
        2 => Case::new("Einsum", "ij->ji").input(T::f32(&[i, j], r)).attr("equation", Attr::Str("ij->ji".into())),
        _ => Case::new("Einsum", "ij->i").input(T::f32(&[i, j], r)).attr("equation", Attr::Str("ij->i".into())),
    }
}
fn g_layernorm(r: &mut Rng) -> Case {
    let s = shape_nz(r, 1, 3, 4);
    let last = *s.last().unwrap();
    Case::new("LayerNormalization", "").input(T::f32(&s, r)).input(T::f32(&[last], r)).input(T::f32(&[last], r)).int("axis", -1)
}
fn g_batchnorm(r: &mut Rng) -> Case {
    let s = [vec![dimnz(r, 2), dimnz(r, 3)], shape_nz(r, 0, 2, 3)].concat();
    let ch = s[1];
    let mut var = T::f32(&[ch], r);
    for v in var.data.iter_mut() {
        *v = v.abs() + 1;
    }
    Case::new("BatchNormalization", "").input(T::f32(&s, r)).input(T::f32(&[ch], r)).input(T::f32(&[ch], r)).input(T::f32(&[ch], r)).input(var)
}
fn g_trilu(r: &mut Rng) -> Case {
    let s = [shape_nz(r, 0, 1, 2), vec![dimnz(r, 4), dimnz(r, 4)]].concat();
    Case::new("Trilu", "").input(T::f32(&s, r)).int("upper", r.below(2) as i64)
}
fn g_scatter_elements(r: &mut Rng) -> Case {
    let s = shape_nz(r, 1, 2, 4);
    let ax = r.below(s.len());
    let mut is = s.clone();
    is[ax] = 1;
    let idx = T::i32(&is, r, 0, s[ax] as i64 - 1).ot(onnx::INT64);
    Case::new("ScatterElements", "").input(T::f32(&s, r)).input(idx).input(T::f32(&is, r)).int("axis", ax as i64)
}
fn g_dropout(r: &mut Rng) -> Case {
    let s = shape(r, 0, 3, 4);
    Case::new("Dropout", "").input(T::f32(&s, r))
}
fn g_instance_norm(r: &mut Rng) -> Case {
    let s = vec![dimnz(r, 2), dimnz(r, 3), dimnz(r, 3), dimnz(r, 3)];
    let ch = s[1];
    Case::new("InstanceNormalization", "").input(T::f32(&s, r)).input(T::f32(&[ch], r)).input(T::f32(&[ch], r))
}
fn g_dynamic_quantize(r: &mut Rng) -> Case {
    let s = shape_nz(r, 1, 3, 4);
    Case::new("DynamicQuantizeLinear", "").input(T::f32(&s, r)).nout(3)
}

fn g_lstm(r: &mut Rng) -> Case {
    let (seq, batch, inp, hid) = (dimnz(r, 3), dimnz(r, 2), dimnz(r, 3), dimnz(r, 2));
    let bidi = r.chance(1, 3);
    let nd = if bidi { 2 } else { 1 };
    let mut c = Case::new("LSTM", if bidi { "bidirectional" } else { "forward" })
        .input(T::f32(&[seq, batch, inp], r))
        .input(T::f32(&[nd, 4 * hid, inp], r))
        .input(T::f32(&[nd, 4 * hid, hid], r))
        .int("hidden_size", hid as i64)
        .nout(3);
    if bidi {
        c = c.attr("direction", Attr::Str("bidirectional".into()));
    }
    c
}
fn g_gru(r: &mut Rng) -> Case {
    let (seq, batch, inp, hid) = (dimnz(r, 3), dimnz(r, 2), dimnz(r, 3), dimnz(r, 2));
    let bidi = r.chance(1, 3);
    let nd = if bidi { 2 } else { 1 };
    let mut c = Case::new("GRU", if bidi { "bidirectional" } else { "forward" })
        .input(T::f32(&[seq, batch, inp], r))
        .input(T::f32(&[nd, 3 * hid, inp], r))
        .input(T::f32(&[nd, 3 * hid, hid], r))
        .int("hidden_size", hid as i64)
        .int("linear_before_reset", 1)
        .nout(2);
    if bidi {
        c = c.attr("direction", Attr::Str("bidirectional".into()));
    }
    c
}
fn g_grid_sample(r: &mut Rng) -> Case {
    let (n, ch) = (dimnz(r, 2), dimnz(r, 2));
    let x = vec![n, ch, dimnz(r, 4), dimnz(r, 4)];
    let g = vec![n, dimnz(r, 3), dimnz(r, 3), 2];
    let mut grid = T::f32(&g, r);
    for v in grid.data.iter_mut() {
        *v = (*v).clamp(-1, 1);
    }
    Case::new("GridSample", "").input(T::f32(&x, r)).input(grid)
}
fn g_matmul_integer(r: &mut Rng) -> Case {
    let (m, k, n) = (dimnz(r, 4), dimnz(r, 4), dimnz(r, 4));
    let mut a = T::i32(&[m, k], r, 0, 5);
    a.dt = "u8";
    a.ot = onnx::UINT8;
    let mut b = T::i32(&[k, n], r, -5, 5);
    b.dt = "i8";
    b.ot = onnx::INT8;
    Case::new("MatMulInteger", "").input(a).input(b)
}
fn g_random_uniform(r: &mut Rng) -> Case {
    let s = shape_nz(r, 1, 3, 4);
    Case::new("RandomUniform", "").ints("shape", &s.iter().map(|d| *d as i64).collect::<Vec<_>>()).attr("seed", Attr::Float(1.0))
}
fn g_random_normal_like(r: &mut Rng) -> Case {
    let s = shape(r, 0, 3, 4);
    Case::new("RandomNormalLike", "").input(T::f32(&s, r)).attr("seed", Attr::Float(1.0))
}
fn g_gelu(r: &mut Rng) -> Case { unary("Gelu", r) }
fn g_erf(r: &mut Rng) -> Case { unary("Erf", r) }
fn g_log_softmax(r: &mut Rng) -> Case {
    let s = shape_nz(r, 1, 3, 4);
    Case::new("LogSoftmax", "").input(T::f32(&s, r)).int("axis", -1)
}
fn g_dequantize(r: &mut Rng) -> Case {
    let s = shape_nz(r, 1, 3, 4);
    let mut x = T::i32(&s, r, -5, 5);
    x.dt = "i8";
    x.ot = onnx::INT8;
    Case::new("DequantizeLinear", "").input(x).constant(T::new(&[], "f32", vec![2]))
}
fn g_eyelike(r: &mut Rng) -> Case {
    let s = vec![dimnz(r, 4), dimnz(r, 4)];
    Case::new("EyeLike", "").input(T::f32(&s, r))
}
fn g_not(r: &mut Rng) -> Case {
    let s = shape(r, 0, 3, 4);
    Case::new("Not", "").input(T::i32(&s, r, 0, 1).ot(onnx::BOOL))
}
fn g_isnan(r: &mut Rng) -> Case { unary("IsNaN", r) }

fn catalogue() -> Vec<(&'static str, Generator)> {
    vec![
        ("Add", g_add as Generator), ("Sub", g_sub), ("Mul", g_mul), ("Div", g_div), ("Equal", g_equal),
        ("Greater", g_greater), ("Less", g_less), ("Pow", g_pow), ("Mod", g_mod), ("And", g_and),
        ("Max", g_max), ("Min", g_min), ("Sum", g_sum), ("Mean", g_mean), ("Where", g_where),
        ("Neg", g_neg), ("Relu", g_relu), ("Abs", g_abs), ("Sigmoid", g_sigmoid), ("Identity", g_identity),
        ("Cast", g_cast), ("Clip", g_clip), ("Softmax", g_softmax),
        ("Shape", g_shape), ("Size", g_size), ("Reshape", g_reshape), ("Flatten", g_flatten),
        ("Squeeze", g_squeeze), ("Unsqueeze", g_unsqueeze), ("Transpose", g_transpose), ("Expand", g_expand),
        ("Tile", g_tile), ("Concat", g_concat), ("Split", g_split), ("Slice", g_slice), ("Gather", g_gather),
        ("GatherElements", g_gather_elements), ("GatherND", g_gather_nd), ("Pad", g_pad),
        ("ConstantOfShape", g_constant_of_shape), ("Range", g_range), ("OneHot", g_onehot), ("TopK", g_topk),
        ("NonZero", g_nonzero),
        ("ReduceSum", g_reduce_sum), ("ReduceMean", g_reduce_mean), ("ReduceMax", g_reduce_max),
        ("ReduceMin", g_reduce_min), ("ReduceProd", g_reduce_prod), ("ReduceL2", g_reduce_l2),
        ("ArgMax", g_argmax), ("ArgMin", g_argmin), ("CumSum", g_cumsum),
        ("MatMul", g_matmul), ("Gemm", g_gemm), ("Conv", g_conv), ("ConvTranspose", g_conv_transpose),
        ("MaxPool", g_maxpool), ("AveragePool", g_avgpool), ("GlobalAveragePool", g_global_avgpool),
        ("GlobalMaxPool", g_global_maxpool), ("DepthToSpace", g_depth_to_space), ("Resize", g_resize),
        ("Einsum", g_einsum), ("LayerNormalization", g_layernorm), ("BatchNormalization", g_batchnorm),
        ("Trilu", g_trilu), ("ScatterElements", g_scatter_elements), ("Dropout", g_dropout),
        ("InstanceNormalization", g_instance_norm), ("DynamicQuantizeLinear", g_dynamic_quantize),
        ("LSTM", g_lstm), ("GRU", g_gru), ("GridSample", g_grid_sample), ("MatMulInteger", g_matmul_integer),
        ("RandomUniform", g_random_uniform), ("RandomNormalLike", g_random_normal_like), ("Gelu", g_gelu), ("Erf", g_erf),
        ("LogSoftmax", g_log_softmax), ("DequantizeLinear", g_dequantize), ("EyeLike", g_eyelike), ("Not", g_not),
        ("IsNaN", g_isnan),
    ]
}
