fn main() {
    eprintln!("usage: vh-ops <subcommand> [options]");
    std::process::exit(2);
}
