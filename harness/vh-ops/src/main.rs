//! vh-ops: operator-level engines. Each subcommand lives in its own module
//! (owned by one builder): infer (C10), onnxref (C15), relational (C12 C13 C14).
mod infer;
mod onnxref;
mod relational;

fn main() {
    let cmd = std::env::args().nth(1).unwrap_or_default();
    match cmd.as_str() {
        "infer" => infer::main(),
        "onnxref" => onnxref::main(),
        "relational" => relational::main(),
        _ => {
            eprintln!("usage: vh-ops <infer|onnxref|relational> [options]");
            std::process::exit(2);
        }
    }
}
