//! C14 engine: the same logical inputs materialised with different memory
//! layouts (contiguous, permuted view, stepped slice of a larger buffer,
//! broadcast view) must give bit-identical outputs.
//!
//! Operators receive their inputs as `ValueView`s (`TensorView` + dtype tag);
//! the executor builds them from graph inputs (any user supplied view),
//! constants and intermediate values, and `TransformInputs` permutes them.
//! The second part runs small Transpose->X models optimised (Transpose fused
//! into a `TransformInputs` wrapper, i.e. X sees a permuted view) and
//! unoptimised (X sees a contiguous copy).

use rten::verif::{Node, Operator, Value, ValueOrView};
use vcommon::onnx::{self, Attr};
use vcommon::{Rng, Trace, Value as J, json};

use super::catalogue::{Case, Entry, G, catalogue};
use super::{DT, In, Lay, Mat, Outcome, T, dist_q, exact_inputs, run_normal, value_json, view_layout};

pub const VIEW_CLASSES: &[&str] = &["contig", "permuted", "stepped", "broadcast"];

fn emit_run(tr: &mut Trace, id: u64, mode: &str, lays: &[(String, Option<Lay>)], out: &Outcome, reference: Option<&Outcome>) {
    let dist = reference.map(|n| dist_q(n, out)).unwrap_or(0);
    let laycls: Vec<&str> = lays.iter().map(|(c, _)| c.as_str()).collect();
    tr.emit(json!({
        "ev": "run", "id": id, "mode": mode, "taken": [], "owned": "",
        "laycls": laycls.join(","),
        "lay": lays.iter().map(|(c, l)| match l {
            Some(l) => json!({"cls": c, "strides": l.strides, "offset": l.offset, "len": l.len}),
            None => json!({"cls": c, "strides": [], "offset": 0, "len": 0}),
        }).collect::<Vec<_>>(),
        "outcome": out.kind, "err": out.err, "dist": dist, "outputs": out.outputs_json(),
    }));
}

fn run_with(
    op: &dyn Operator,
    inputs: &[In],
    assign: &[&str],
    rng: &mut Rng,
    n_out: usize,
) -> Option<(Vec<(String, Option<Lay>)>, Outcome)> {
    let mut lays: Vec<(String, Option<Lay>)> = Vec::new();
    for (inp, cls) in inputs.iter().zip(assign) {
        match inp {
            In::T(t) => {
                let l = view_layout(t, cls, rng)?;
                lays.push((cls.to_string(), Some(l)));
            }
            In::None => lays.push(("none".into(), None)),
            In::Seq(..) => lays.push(("seq".into(), None)),
        }
    }
    let mats: Vec<Mat> = inputs
        .iter()
        .zip(&lays)
        .map(|(i, (_, l))| Mat::new(i, l.as_ref()))
        .collect();
    let views: Vec<_> = mats.iter().map(|m| m.view()).collect();
    let out = run_normal(op, &views, n_out);
    Some((lays, out))
}

pub fn run_case(
    tr: &mut Trace,
    id: u64,
    en: &Entry,
    op: &dyn Operator,
    dt: DT,
    case: &Case,
    special: bool,
    rng: &mut Rng,
    exhaustive_all: bool,
) {
    let inputs = &case.inputs;
    tr.emit(json!({
        "ev": "case", "prop": "C14", "id": id, "key": en.key, "op": op.name(), "dt": dt.name(),
        // threshold entries: the dimensions go to `dims`, the signature class stays coarse
        "cls": if en.thr { "threshold" } else { case.cls.as_str() }, "dims": case.cls,
        "special": special, "commutative": op.is_commutative(),
        "in_place": [], "n_out": en.n_out, "num": en.num, "exact": exact_inputs(inputs),
        "inputs": inputs.iter().map(|i| i.json()).collect::<Vec<_>>(),
    }));
    tr.flush();
    let tpos: Vec<usize> = (0..inputs.len())
        .filter(|p| matches!(inputs[*p], In::T(_)))
        .collect();
    let contig: Vec<&str> = inputs.iter().map(|_| "contig").collect();
    let (lays, base) = run_with(op, inputs, &contig, rng, en.n_out).expect("contig layout");
    emit_run(tr, id, "base", &lays, &base, None);
    if tpos.is_empty() {
        return;
    }
    // assignments of layout classes to the tensor inputs
    let mut assigns: Vec<Vec<&str>> = Vec::new();
    let full = |vary: &[usize], assigns: &mut Vec<Vec<&str>>| {
        let k = vary.len();
        for code in 0..4usize.pow(k as u32) {
            let mut a = contig.clone();
            let mut c = code;
            for &p in vary {
                a[p] = VIEW_CLASSES[c % 4];
                c /= 4;
            }
            assigns.push(a);
        }
    };
    if tpos.len() <= 2 || exhaustive_all && tpos.len() <= 3 {
        full(&tpos, &mut assigns);
    } else {
        let mut pp = tpos.clone();
        rng.shuffle(&mut pp);
        full(&pp[..2], &mut assigns);
        for _ in 0..4 {
            let mut a = contig.clone();
            for &p in &tpos {
                a[p] = *rng.pick(VIEW_CLASSES);
            }
            assigns.push(a);
        }
    }
    for a in assigns {
        if a.iter().all(|c| *c == "contig") {
            continue;
        }
        if let Some((lays, out)) = run_with(op, inputs, &a, rng, en.n_out) {
            emit_run(tr, id, "layout", &lays, &out, Some(&base));
        }
    }
}

// ------------------------------------------------------------ fused-transpose models

struct ModelCase {
    name: &'static str,
    graph: onnx::Graph,
    inputs: Vec<(String, T)>,
}

fn vi(name: &str, dt: i32, dims: &[usize]) -> onnx::ValueInfo {
    onnx::ValueInfo::fixed(name, dt, &dims.iter().map(|d| *d as i64).collect::<Vec<_>>())
}

fn i64_init(name: &str, v: &[i64]) -> onnx::Tensor {
    onnx::Tensor {
        name: name.into(),
        dims: vec![v.len() as i64],
        data: onnx::TensorData::I64(v.to_vec()),
    }
}

fn model_cases(rng: &mut Rng, exact: bool) -> Vec<ModelCase> {
    let mut g0 = G { rng, dt: DT::F32, special: false, exact };
    let g = &mut g0;
    let mut out = Vec::new();
    let (m, k, n) = (1 + g.rng.below(4), 1 + g.rng.below(5), 1 + g.rng.below(4));
    // Transpose(B) -> MatMul(A, Bt)
    {
        let mut gr = onnx::Graph::default();
        gr.inputs = vec![vi("a", onnx::FLOAT, &[m, k]), vi("b", onnx::FLOAT, &[n, k])];
        gr.outputs = vec![vi("y", onnx::FLOAT, &[m, n])];
        gr.nodes = vec![
            onnx::Node::new("Transpose", &["b"], &["bt"]).attr("perm", Attr::Ints(vec![1, 0])),
            onnx::Node::new("MatMul", &["a", "bt"], &["y"]),
        ];
        out.push(ModelCase {
            name: "Transpose>MatMul.rhs",
            graph: gr,
            inputs: vec![("a".into(), g.f_range(&[m, k], -2.0, 2.0)), ("b".into(), g.f_range(&[n, k], -2.0, 2.0))],
        });
    }
    // Transpose(A) -> MatMul(At, B), batched
    {
        let mut gr = onnx::Graph::default();
        gr.inputs = vec![vi("a", onnx::FLOAT, &[2, k, m]), vi("b", onnx::FLOAT, &[k, n])];
        gr.outputs = vec![vi("y", onnx::FLOAT, &[2, m, n])];
        gr.nodes = vec![
            onnx::Node::new("Transpose", &["a"], &["at"]).attr("perm", Attr::Ints(vec![0, 2, 1])),
            onnx::Node::new("MatMul", &["at", "b"], &["y"]),
        ];
        out.push(ModelCase {
            name: "Transpose>MatMul.lhs",
            graph: gr,
            inputs: vec![("a".into(), g.f_range(&[2, k, m], -2.0, 2.0)), ("b".into(), g.f_range(&[k, n], -2.0, 2.0))],
        });
    }
    // Transpose(B) -> Concat(A, Bt)
    {
        let r = 1 + g.rng.below(3);
        let mut gr = onnx::Graph::default();
        gr.inputs = vec![vi("a", onnx::FLOAT, &[m, k]), vi("b", onnx::FLOAT, &[k, r])];
        gr.outputs = vec![vi("y", onnx::FLOAT, &[m + r, k])];
        gr.nodes = vec![
            onnx::Node::new("Transpose", &["b"], &["bt"]).attr("perm", Attr::Ints(vec![1, 0])),
            onnx::Node::new("Concat", &["a", "bt"], &["y"]).attr("axis", Attr::Int(0)),
        ];
        out.push(ModelCase {
            name: "Transpose>Concat",
            graph: gr,
            inputs: vec![("a".into(), g.t(DT::F32, &[m, k])), ("b".into(), g.t(DT::F32, &[k, r]))],
        });
    }
    // Transpose(A) -> Expand
    {
        let mut gr = onnx::Graph::default();
        gr.inputs = vec![vi("a", onnx::FLOAT, &[m, 1])];
        gr.outputs = vec![vi("y", onnx::FLOAT, &[n, m])];
        gr.initializers = vec![i64_init("shape", &[n as i64, m as i64])];
        gr.nodes = vec![
            onnx::Node::new("Transpose", &["a"], &["at"]).attr("perm", Attr::Ints(vec![1, 0])),
            onnx::Node::new("Expand", &["at", "shape"], &["y"]),
        ];
        out.push(ModelCase { name: "Transpose>Expand", graph: gr, inputs: vec![("a".into(), g.t(DT::F32, &[m, 1]))] });
    }
    // Transpose(A) -> Slice
    {
        let (p, q) = (2 + g.rng.below(3), 2 + g.rng.below(3));
        let mut gr = onnx::Graph::default();
        gr.inputs = vec![vi("a", onnx::FLOAT, &[p, q])];
        gr.outputs = vec![vi("y", onnx::FLOAT, &[q, p - 1])];
        gr.initializers = vec![i64_init("st", &[1]), i64_init("en", &[p as i64]), i64_init("ax", &[1])];
        gr.nodes = vec![
            onnx::Node::new("Transpose", &["a"], &["at"]).attr("perm", Attr::Ints(vec![1, 0])),
            onnx::Node::new("Slice", &["at", "st", "en", "ax"], &["y"]),
        ];
        out.push(ModelCase { name: "Transpose>Slice", graph: gr, inputs: vec![("a".into(), g.t(DT::F32, &[p, q]))] });
    }
    // Transpose(A) -> Split
    {
        let (p, q) = (1 + g.rng.below(3), 2 + g.rng.below(3));
        let mut gr = onnx::Graph::default();
        gr.inputs = vec![vi("a", onnx::FLOAT, &[p, q])];
        gr.outputs = vec![vi("y0", onnx::FLOAT, &[1, p]), vi("y1", onnx::FLOAT, &[q - 1, p])];
        gr.initializers = vec![i64_init("sp", &[1, q as i64 - 1])];
        gr.nodes = vec![
            onnx::Node::new("Transpose", &["a"], &["at"]).attr("perm", Attr::Ints(vec![1, 0])),
            onnx::Node::new("Split", &["at", "sp"], &["y0", "y1"]).attr("axis", Attr::Int(0)),
        ];
        out.push(ModelCase { name: "Transpose>Split", graph: gr, inputs: vec![("a".into(), g.t(DT::F32, &[p, q]))] });
    }
    out
}

fn run_model(bytes: Vec<u8>, optimize: bool, inputs: &[(String, T)]) -> (Outcome, Vec<String>) {
    let mut opts = rten::ModelOptions::with_all_ops();
    opts.enable_optimization(optimize);
    let model = match opts.load(bytes) {
        Ok(m) => m,
        Err(e) => {
            return (Outcome { kind: "err", err: format!("load: {e}"), outputs: vec![] }, vec![]);
        }
    };
    let ops: Vec<String> = model
        .verif_graph()
        .iter()
        .filter_map(|(_, n)| match n {
            Node::Operator(o) => Some(o.operator().name().to_string()),
            _ => None,
        })
        .collect();
    let r = vcommon::guarded(|| {
        let mut ins: Vec<(rten::NodeId, ValueOrView)> = Vec::new();
        for (name, t) in inputs {
            let id = model.node_id(name).expect("input id");
            let m = Mat::new(&In::T(t.clone()), None);
            let v: Value = m.view().unwrap().to_owned();
            ins.push((id, v.into()));
        }
        model.run(ins, model.output_ids(), None)
    });
    let out = match r {
        Ok(Ok(v)) => Outcome { kind: "ok", err: String::new(), outputs: v },
        Ok(Err(e)) => Outcome { kind: "err", err: format!("{e}").chars().take(160).collect(), outputs: vec![] },
        Err(p) => Outcome { kind: "panic", err: p.chars().take(160).collect(), outputs: vec![] },
    };
    (out, ops)
}

fn models(tr: &mut Trace, id: &mut u64, rng: &mut Rng, rounds: usize) {
    for round in 0..rounds {
        for mc in model_cases(rng, round % 2 == 0) {
            *id += 1;
            let bytes = mc.graph.to_model();
            let (base, _) = run_model(bytes.clone(), false, &mc.inputs);
            let (opt, ops) = run_model(bytes, true, &mc.inputs);
            let fused = ops.iter().any(|o| o.starts_with("TransformInputs"));
            let opname = ops.iter().find(|o| o.starts_with("TransformInputs")).cloned().unwrap_or_else(|| format!("model:{}", mc.name));
            tr.emit(json!({
                "ev": "case", "prop": "C14", "id": *id, "key": format!("model:{}", mc.name), "op": opname, "dt": "f32",
                "cls": if fused { "fused_transpose" } else { "not_fused" }, "special": false, "commutative": false,
                "in_place": [], "n_out": base.outputs.len(),
                "num": if mc.name.contains("MatMul") { 1 } else { 0 },
                "exact": exact_inputs(&mc.inputs.iter().map(|(_, t)| In::T(t.clone())).collect::<Vec<_>>()),
                "inputs": mc.inputs.iter().map(|(_, t)| t.json()).collect::<Vec<_>>(),
            }));
            let l0: Vec<(String, Option<Lay>)> = vec![("model_unoptimised".into(), None)];
            emit_run(tr, *id, "base", &l0, &base, None);
            let l1: Vec<(String, Option<Lay>)> = vec![(if fused { "fused_permuted_view" } else { "model_optimised" }.into(), None)];
            emit_run(tr, *id, "layout", &l1, &opt, Some(&base));
        }
    }
    let _ = value_json;
}

pub fn main() -> i32 {
    let out = vcommon::arg_or("--out", "-");
    let cases = vcommon::arg_usize("--cases", 6);
    let model_rounds = vcommon::arg_usize("--model-rounds", 20);
    let only = vcommon::arg("--only");
    let exhaustive_all = std::env::args().any(|a| a == "--exhaustive3");
    let big = std::env::args().any(|a| a == "--big");
    let thr = std::env::args().any(|a| a == "--thr");
    let mut tr = Trace::create(&out);
    let mut rng = Rng::from_env();
    let cat = catalogue();

    if let Some(cj) = vcommon::arg("--only-case") {
        let c: J = serde_json::from_str(&cj).expect("case json");
        let key = c["key"].as_str().unwrap_or("");
        if key.starts_with("model:") {
            let mut id = 0;
            models(&mut tr, &mut id, &mut rng, 40);
            return 0;
        }
        let Some(en) = cat.iter().find(|e| e.key == key) else {
            eprintln!("unknown catalogue key {key}");
            return 2;
        };
        let op = en.load().expect("load");
        let inputs: Vec<In> = c["inputs"].as_array().unwrap().iter().map(In::from_json).collect();
        let dt = DT::from_name(c["dt"].as_str().unwrap_or("f32")).unwrap_or(DT::F32);
        let case = Case { inputs, cls: c["cls"].as_str().unwrap_or("").to_string() };
        for k in 0..6 {
            run_case(&mut tr, k + 1, en, &*op, dt, &case, c["special"].as_bool().unwrap_or(false), &mut rng, true);
        }
        return 0;
    }

    let mut id = 0u64;
    for en in &cat {
        if let Some(o) = &only {
            if !en.key.contains(o.as_str()) {
                continue;
            }
        }
        if en.nondet || (en.big && !big) || (en.thr && !thr) {
            continue;
        }
        let op = match en.load() {
            Ok(op) => op,
            Err(e) => {
                eprintln!("cannot load {}: {e}", en.key);
                return 2;
            }
        };
        for &dt in &en.dts {
            for k in 0..(if en.big { cases.min(2) } else { cases }) {
                let special = k % 4 == 3;
                let case = {
                    let mut g = G { rng: &mut rng, dt, special: special && !en.thr, exact: en.thr || (en.num == 1 && k % 2 == 0) };
                    (en.gen_fn)(&mut g)
                };
                id += 1;
                run_case(&mut tr, id, en, &*op, dt, &case, special, &mut rng, exhaustive_all);
            }
        }
    }
    if only.is_none() || only.as_deref() == Some("model:") {
        models(&mut tr, &mut id, &mut rng, model_rounds);
    }
    tr.flush();
    0
}
