//! C12 engine: the output-type rules an operator declares
//! (`Operator::output_types`) against the element types of what `run`
//! produces, for every catalogue operator x every input element type; and,
//! graph level, the labels of `infer_shapes()` against the run-time type of
//! every value of small multi-operator models.  The harness records rules and
//! produced types; `TypeRules.tla` computes the predictions and TLC compares.

use rten::verif::{
    InferShapeOptions, Node, Operator, OutputType, OutputTypesContext, PlanOptions, Value,
    ValueOrView, infer_shapes,
};
use vcommon::onnx::{self, Attr};
use vcommon::{Rng, Trace, Value as J, json};

use super::catalogue::{Case, Entry, G, catalogue};
use super::{DT, In, Mat, Outcome, T, run_normal, vt_name};

fn rule_json(r: &OutputType) -> J {
    match r {
        OutputType::Fixed(vt) => json!({"kind": "fixed", "vt": vt_name(*vt), "idx": 0}),
        OutputType::CopyFromInput(i) => json!({"kind": "copy", "vt": "", "idx": i}),
        OutputType::ElementTypeOfInputSequence(i) => json!({"kind": "elem_of", "vt": "", "idx": i}),
        OutputType::SequenceWithElementTypeOfInput(i) => json!({"kind": "seq_of", "vt": "", "idx": i}),
    }
}

/// Outputs with the element data stripped (only dtype and shape are judged).
fn outputs_types_json(out: &Outcome) -> Vec<J> {
    out.outputs
        .iter()
        .map(|v| json!({"dtype": vt_name(v.dtype()), "shape": [], "bits": [], "items": []}))
        .collect()
}

fn run_case(tr: &mut Trace, id: u64, en: &Entry, op: &dyn Operator, dt: DT, case: &Case) {
    let inputs = &case.inputs;
    let rules = op.output_types(&OutputTypesContext { num_outputs: en.n_out });
    tr.emit(json!({
        "ev": "case", "prop": "C12", "id": id, "key": en.key, "op": op.name(), "dt": dt.name(),
        "cls": case.cls, "n_out": en.n_out,
        "in_types": inputs.iter().map(|i| i.type_name()).collect::<Vec<_>>(),
        "has_rules": rules.is_some(),
        "rules": rules.as_ref().map(|l| l.iter().map(rule_json).collect::<Vec<_>>()).unwrap_or_default(),
    }));
    tr.flush();
    let mats: Vec<Mat> = inputs.iter().map(|i| Mat::new(i, None)).collect();
    let views: Vec<_> = mats.iter().map(|m| m.view()).collect();
    let out = run_normal(op, &views, en.n_out);
    tr.emit(json!({
        "ev": "run", "id": id, "mode": "normal", "outcome": out.kind, "err": out.err,
        "outputs": outputs_types_json(&out),
    }));
}

// ------------------------------------------------------------ graph level

struct Model {
    name: &'static str,
    graph: onnx::Graph,
    inputs: Vec<(&'static str, T)>,
}

fn vi(name: &str, dt: i32, dims: &[usize]) -> onnx::ValueInfo {
    onnx::ValueInfo::fixed(name, dt, &dims.iter().map(|d| *d as i64).collect::<Vec<_>>())
}
fn init_i64(name: &str, v: &[i64]) -> onnx::Tensor {
    onnx::Tensor { name: name.into(), dims: vec![v.len() as i64], data: onnx::TensorData::I64(v.to_vec()) }
}
fn init_scalar(name: &str, data: onnx::TensorData) -> onnx::Tensor {
    onnx::Tensor { name: name.into(), dims: vec![], data }
}
fn n(op: &str, ins: &[&str], outs: &[&str]) -> onnx::Node {
    let mut nd = onnx::Node::new(op, ins, outs);
    nd.name = format!("{}_{}", op, outs[0]);
    nd
}

fn models(rng: &mut Rng) -> Vec<Model> {
    let mut g0 = G { rng, dt: DT::F32, special: false, exact: false };
    let g = &mut g0;
    let mut out = Vec::new();
    let (a, b) = (2 + g.rng.below(2), 2 + g.rng.below(3));
    // M1: shape / comparison / argmax / casts (one of them eliminable)
    {
        let mut gr = onnx::Graph::default();
        gr.inputs = vec![vi("x", onnx::FLOAT, &[a, b])];
        gr.initializers = vec![init_scalar("half", onnx::TensorData::F32(vec![0.5]))];
        gr.nodes = vec![
            n("Shape", &["x"], &["s"]),
            n("Cast", &["s"], &["sf"]).attr("to", Attr::Int(onnx::FLOAT as i64)),
            n("Greater", &["x", "half"], &["gt"]),
            n("Where", &["gt", "x", "half"], &["w"]),
            n("ArgMax", &["w"], &["am"]).attr("axis", Attr::Int(1)).attr("keepdims", Attr::Int(0)),
            n("Cast", &["am"], &["am64"]).attr("to", Attr::Int(onnx::INT64 as i64)),
            n("Cast", &["w"], &["wf"]).attr("to", Attr::Int(onnx::FLOAT as i64)),
            n("Size", &["wf"], &["sz"]),
            n("IsNaN", &["wf"], &["nan"]),
            n("Not", &["nan"], &["nn"]),
        ];
        gr.outputs = vec![vi("sf", onnx::FLOAT, &[2]), vi("am64", onnx::INT64, &[a]), vi("sz", onnx::INT64, &[]), vi("nn", onnx::BOOL, &[a, b])];
        out.push(Model { name: "shape_cmp_argmax_cast", graph: gr, inputs: vec![("x", g.t(DT::F32, &[a, b]))] });
    }
    // M2: quantize / dequantize / dynamic quantize / cast-elimination of a float cast
    {
        let mut gr = onnx::Graph::default();
        gr.inputs = vec![vi("x", onnx::FLOAT, &[a, b])];
        gr.initializers = vec![
            init_scalar("sc", onnx::TensorData::F32(vec![0.5])),
            init_scalar("zp", onnx::TensorData::U8(vec![3])),
            init_scalar("zpi", onnx::TensorData::I8(vec![-2])),
        ];
        gr.nodes = vec![
            n("QuantizeLinear", &["x", "sc", "zp"], &["q"]),
            n("DequantizeLinear", &["q", "sc", "zp"], &["d"]),
            n("Cast", &["d"], &["df"]).attr("to", Attr::Int(onnx::FLOAT as i64)),
            n("QuantizeLinear", &["x", "sc", "zpi"], &["qi"]),
            n("Cast", &["qi"], &["qi32"]).attr("to", Attr::Int(onnx::INT32 as i64)),
            n("DynamicQuantizeLinear", &["x"], &["dq", "dsc", "dzp"]),
            n("Cast", &["dq"], &["dq8"]).attr("to", Attr::Int(onnx::UINT8 as i64)),
        ];
        gr.outputs = vec![vi("df", onnx::FLOAT, &[a, b]), vi("qi32", onnx::INT32, &[a, b]), vi("dq8", onnx::UINT8, &[a, b]), vi("dsc", onnx::FLOAT, &[]), vi("dzp", onnx::UINT8, &[])];
        out.push(Model { name: "quantize_chain", graph: gr, inputs: vec![("x", g.f_range(&[a, b], -20.0, 20.0))] });
    }
    // M2b: a cast to int8 after a quantisation with a uint8 zero point
    {
        let mut gr = onnx::Graph::default();
        gr.inputs = vec![vi("x", onnx::FLOAT, &[a, b])];
        gr.initializers = vec![
            init_scalar("sc", onnx::TensorData::F32(vec![0.5])),
            init_scalar("zp", onnx::TensorData::U8(vec![130])),
        ];
        gr.nodes = vec![
            n("QuantizeLinear", &["x", "sc", "zp"], &["q"]),
            n("Cast", &["q"], &["y"]).attr("to", Attr::Int(onnx::INT8 as i64)),
        ];
        gr.outputs = vec![vi("y", onnx::INT8, &[a, b])];
        out.push(Model { name: "quantize_u8_cast_i8", graph: gr, inputs: vec![("x", g.f_range(&[a, b], -20.0, 20.0))] });
    }
    // M3: integer input, TopK, NonZero, Equal/Not, Gather
    {
        let mut gr = onnx::Graph::default();
        gr.inputs = vec![vi("x", onnx::INT32, &[a, b])];
        gr.initializers = vec![init_i64("k", &[2])];
        gr.nodes = vec![
            n("Cast", &["x"], &["xf"]).attr("to", Attr::Int(onnx::FLOAT as i64)),
            n("TopK", &["xf", "k"], &["tv", "ti"]).attr("axis", Attr::Int(-1)),
            n("GatherElements", &["x", "ti"], &["ge"]).attr("axis", Attr::Int(1)),
            n("NonZero", &["x"], &["nz"]),
            n("Equal", &["x", "ge0"], &["eq"]),
            n("Identity", &["x"], &["ge0"]),
            n("Not", &["eq"], &["ne"]),
            n("Cast", &["ne"], &["neb"]).attr("to", Attr::Int(onnx::BOOL as i64)),
            n("Cast", &["x"], &["x32"]).attr("to", Attr::Int(onnx::INT32 as i64)),
            n("Add", &["x32", "ge0"], &["sum"]),
        ];
        gr.outputs = vec![vi("tv", onnx::FLOAT, &[a, 2]), vi("ge", onnx::INT32, &[a, 2]), vi("nz", onnx::INT64, &[2, 1]), vi("neb", onnx::BOOL, &[a, b]), vi("sum", onnx::INT32, &[a, b])];
        // distinct values for TopK
        let mut vals: Vec<i32> = (1..=(a * b) as i32).collect();
        g.rng.shuffle(&mut vals);
        out.push(Model { name: "int_topk_nonzero", graph: gr, inputs: vec![("x", T::i(&[a, b], &vals))] });
    }
    // M4: sequences
    for (nm, dt, odt) in [("seq_f32", DT::F32, onnx::FLOAT), ("seq_i32", DT::I32, onnx::INT32), ("seq_u8", DT::U8, onnx::UINT8)] {
        let mut gr = onnx::Graph::default();
        gr.inputs = vec![vi("x", odt, &[a, b]), vi("y", odt, &[a, b])];
        gr.initializers = vec![init_scalar("zero", onnx::TensorData::I64(vec![0]))];
        gr.nodes = vec![
            n("SequenceConstruct", &["x", "y"], &["sq"]),
            n("SequenceAt", &["sq", "zero"], &["at"]),
            n("SequenceLength", &["sq"], &["len"]),
            n("SequenceInsert", &["sq", "at"], &["sq2"]),
            n("SequenceErase", &["sq2", "zero"], &["sq3"]),
            n("SplitToSequence", &["x"], &["sp"]).attr("axis", Attr::Int(0)),
            n("ConcatFromSequence", &["sp"], &["cc"]).attr("axis", Attr::Int(0)),
            n("SequenceEmpty", &[], &["em"]).attr("dtype", Attr::Int(odt as i64)),
            n("SequenceInsert", &["em", "cc"], &["em2"]),
            n("SequenceAt", &["em2", "zero"], &["fin"]),
        ];
        gr.outputs = vec![vi("fin", odt, &[a, b]), vi("len", onnx::INT64, &[]), vi("at", odt, &[a, b])];
        let _ = &mut gr.outputs;
        out.push(Model {
            name: nm,
            graph: gr,
            inputs: vec![("x", g.t(dt, &[a, b])), ("y", g.t(dt, &[a, b]))],
        });
    }
    // M6: casts whose input type equals the target (CastElimination), per element type
    for (nm, dt, odt, to) in [
        ("cast_same_f32", DT::F32, onnx::FLOAT, onnx::FLOAT),
        ("cast_same_i32", DT::I32, onnx::INT32, onnx::INT32),
        ("cast_i32_to_i64", DT::I32, onnx::INT32, onnx::INT64),
        ("cast_same_u8", DT::U8, onnx::UINT8, onnx::UINT8),
        ("cast_same_i8", DT::I8, onnx::INT8, onnx::INT8),
        ("cast_f32_to_double", DT::F32, onnx::FLOAT, onnx::DOUBLE),
        ("cast_u8_to_i32", DT::U8, onnx::UINT8, onnx::INT32),
        ("cast_i8_to_f32", DT::I8, onnx::INT8, onnx::FLOAT),
    ] {
        let mut gr = onnx::Graph::default();
        gr.inputs = vec![vi("x", odt, &[a, b])];
        gr.nodes = vec![
            n("Identity", &["x"], &["xi"]),
            n("Cast", &["xi"], &["c"]).attr("to", Attr::Int(to as i64)),
            n("Abs", &["c"], &["y0"]),
            n("Identity", &["c"], &["y"]),
        ];
        // Abs does not accept u8/i8: keep it only where it can run
        if matches!(to, onnx::UINT8 | onnx::INT8) {
            gr.nodes.remove(2);
        }
        gr.outputs = vec![vi("y", to, &[a, b])];
        out.push(Model { name: nm, graph: gr, inputs: vec![("x", g.t(dt, &[a, b]))] });
    }
    out
}

fn to_value(t: &T) -> Value {
    Mat::new(&In::T(t.clone()), None).view().unwrap().to_owned()
}

/// One graph-level case: load `bytes` unoptimised, record the operator nodes in
/// plan order with their rules, the declared types of inputs / constants, the
/// labels of the real `infer_shapes()`, the run-time type of every produced
/// value, the types the optimised model (shape inference on) attaches to the
/// values that survive optimisation (`Model::node_info(..).dtype()`, matched by
/// name), and the outputs of the optimised model.  A model the loader or the
/// executor rejects is recorded as an outcome.
fn run_graph_case(tr: &mut Trace, id: u64, key: &str, name: &str, cls: &str, bytes: Vec<u8>, inputs: &[(String, T)], must_load: bool) {
    let mut opts = rten::ModelOptions::with_all_ops();
    opts.enable_optimization(false);
    let model = match opts.load(bytes.clone()) {
        Ok(md) => md,
        Err(e) => {
            if must_load {
                eprintln!("graph-level model {name} failed to load: {e}");
                std::process::exit(2);
            }
            tr.emit(json!({
                "ev": "case", "prop": "C12G", "id": id, "key": key, "model": name,
                "op": "graph", "dt": "", "cls": cls, "nodes": [], "env": [],
            }));
            tr.emit(json!({
                "ev": "run", "id": id, "mode": "graph", "outcome": "err",
                "err": format!("load: {e}").chars().take(160).collect::<String>(),
                "actual": [], "inferred": [], "declared": [], "outs_unopt": [], "outs_opt": [], "opt_ok": false,
                "ops_unopt": 0, "ops_opt": 0, "outputs": [],
            }));
            return;
        }
    };
    let graph = model.verif_graph();
    let plan = graph
        .execution_plan(graph.input_ids(), graph.output_ids(), PlanOptions::default())
        .expect("plan");
    // env: declared types of graph inputs and constants
    let mut env: Vec<J> = Vec::new();
    for (nid, node) in graph.iter() {
        let declared = match node {
            Node::Constant(_) => node.dtype(),
            Node::Value(_) if graph.input_ids().contains(&nid) => node.dtype(),
            _ => None,
        };
        if let Some(vt) = declared {
            env.push(json!({"id": nid.as_u32(), "vt": vt_name(vt)}));
        }
    }
    let mut nodes: Vec<J> = Vec::new();
    let mut produced: Vec<rten::NodeId> = Vec::new();
    for op_id in &plan {
        let Some(Node::Operator(opn)) = graph.get_node(*op_id) else { continue };
        let rules = opn.operator().output_types(&OutputTypesContext { num_outputs: opn.output_ids().len() });
        nodes.push(json!({
            "op": opn.operator().name(),
            "ins": opn.input_ids().iter().map(|i| i.map(|x| x.as_u32() as i64).unwrap_or(-1)).collect::<Vec<_>>(),
            "outs": opn.output_ids().iter().map(|i| i.map(|x| x.as_u32() as i64).unwrap_or(-1)).collect::<Vec<_>>(),
            "hasRules": rules.is_some(),
            "rules": rules.as_ref().map(|l| l.iter().map(rule_json).collect::<Vec<_>>()).unwrap_or_default(),
        }));
        produced.extend(opn.output_ids().iter().flatten().copied());
    }
    tr.emit(json!({
        "ev": "case", "prop": "C12G", "id": id, "key": key, "model": name,
        "op": "graph", "dt": "", "cls": cls, "nodes": nodes, "env": env,
    }));
    tr.flush();
    // real type inference
    let inferred: Vec<J> = match infer_shapes(graph, InferShapeOptions::default()) {
        Ok(res) => {
            let mut v: Vec<(u32, String)> = res.types.iter().map(|(k, t)| (k.as_u32(), vt_name(*t))).collect();
            v.sort();
            v.into_iter().map(|(k, t)| json!({"id": k, "vt": t})).collect()
        }
        Err(e) => {
            eprintln!("infer_shapes failed on {name}: {e}");
            vec![]
        }
    };
    // run and fetch every produced value
    let run = |model: &rten::Model, outs: &[rten::NodeId]| {
        vcommon::guarded(|| {
            let ins: Vec<(rten::NodeId, ValueOrView)> = inputs
                .iter()
                .map(|(name, t)| (model.node_id(name).expect("input"), to_value(t).into()))
                .collect();
            model.run(ins, outs, None)
        })
    };
    let (outcome, err, actual) = match run(&model, &produced) {
        Ok(Ok(vals)) => (
            "ok",
            String::new(),
            produced.iter().zip(&vals).map(|(id, v)| json!({"id": id.as_u32(), "vt": vt_name(v.dtype())})).collect::<Vec<_>>(),
        ),
        Ok(Err(e)) => ("err", format!("{e}").chars().take(160).collect(), vec![]),
        Err(p) => ("panic", p.chars().take(160).collect(), vec![]),
    };
    // optimised model: outputs (CastElimination relies on the labels) and the
    // types a user of the loaded model sees on the surviving values
    let unopt = run(&model, model.output_ids());
    let mut o2 = rten::ModelOptions::with_all_ops();
    o2.enable_optimization(true);
    let opt_model = o2.load(bytes).ok();
    let n_ops_unopt = plan.len();
    let (n_ops_opt, opt) = match &opt_model {
        Some(om) => (
            om.verif_graph().iter().filter(|(_, nd)| matches!(nd, Node::Operator(_))).count(),
            Some(run(om, om.output_ids())),
        ),
        None => (0, None),
    };
    let mut declared: Vec<J> = Vec::new();
    if let Some(om) = &opt_model {
        for pid in &produced {
            let Some(vname) = graph.get_node(*pid).and_then(|n| n.name()) else { continue };
            if let Some(oid) = om.find_node(vname) {
                if let Some(vt) = om.node_info(oid).and_then(|ni| ni.dtype()) {
                    declared.push(json!({"id": pid.as_u32(), "vt": vt_name(vt)}));
                }
            }
        }
    }
    let vals_json = |r: &Result<Result<Vec<Value>, rten::RunError>, String>| -> Vec<J> {
        match r {
            Ok(Ok(v)) => v.iter().map(super::value_json).collect(),
            _ => vec![],
        }
    };
    let opt_ok = matches!(&opt, Some(Ok(Ok(_))));
    tr.emit(json!({
        "ev": "run", "id": id, "mode": "graph", "outcome": outcome, "err": err,
        "actual": actual, "inferred": inferred, "declared": declared,
        "outs_unopt": vals_json(&unopt),
        "outs_opt": opt.as_ref().map(vals_json).unwrap_or_default(),
        "opt_ok": opt_ok && matches!(&unopt, Ok(Ok(_))),
        "ops_unopt": n_ops_unopt, "ops_opt": n_ops_opt,
        "outputs": [],
    }));
}

fn graph_level(tr: &mut Trace, id: &mut u64, rng: &mut Rng, rounds: usize) {
    for _ in 0..rounds {
        for m in models(rng) {
            *id += 1;
            let inputs: Vec<(String, T)> = m.inputs.iter().map(|(n, t)| (n.to_string(), t.clone())).collect();
            run_graph_case(tr, *id, &format!("graph:{}", m.name), m.name, "graph", m.graph.to_model(), &inputs, true);
        }
    }
}

/// Omitted optional outputs.  For every catalogue entry whose operator can
/// have several outputs, and every non-empty subset of *used* output slots
/// (an omitted output is an empty output name in ONNX; trailing omissions are
/// tried both as empty names and as a shorter output list), build the model
///     op(inputs) -> o_k for used k ; Identity(o_k) -> y_k ; graph outputs y_k
/// so that the operator's outputs are intermediate values whose only type
/// label is the one graph-level inference attaches.  Patterns the loader or
/// the operator rejects are outcomes.
fn omitted_outputs(tr: &mut Trace, id: &mut u64, rng: &mut Rng, cat: &[Entry], reps: usize, only: Option<&str>) {
    for en in cat {
        let Some(base_node) = &en.node else { continue };
        if en.big || en.thr {
            continue;
        }
        if let Some(o) = only {
            if !format!("omit:{}", en.key).contains(o) {
                continue;
            }
        }
        let Ok(op) = en.load() else { continue };
        let slots = op.max_outputs().unwrap_or(en.n_out).max(en.n_out).min(5);
        if slots < 2 {
            continue;
        }
        for &dt in &en.dts {
            for mask in 1u32..(1 << slots) {
                let last_used = (0..slots).rev().find(|k| mask & (1 << k) != 0).unwrap();
                // trailing omissions: empty names, and (standard ONNX) a shorter list
                let forms: Vec<(usize, &str)> = if last_used + 1 < slots {
                    vec![(slots, "empty_names"), (last_used + 1, "truncated")]
                } else {
                    vec![(slots, "empty_names")]
                };
                for (n_listed, form) in forms {
                    for k in 0..reps {
                        let case = {
                            let mut g = G { rng: &mut *rng, dt, special: false, exact: k % 2 == 1 };
                            (en.gen_fn)(&mut g)
                        };
                        if case.inputs.iter().any(|i| matches!(i, In::Seq(..))) {
                            continue;
                        }
                        let mut gr = onnx::Graph::default();
                        let mut node = base_node.clone();
                        node.name = "op".into();
                        node.inputs = case
                            .inputs
                            .iter()
                            .enumerate()
                            .map(|(p, i)| if matches!(i, In::None) { String::new() } else { format!("i{p}") })
                            .collect();
                        // drop trailing absent inputs (standard ONNX form)
                        while node.inputs.last().is_some_and(|s| s.is_empty()) {
                            node.inputs.pop();
                        }
                        node.outputs = (0..n_listed)
                            .map(|k| if mask & (1 << k) != 0 { format!("o{k}") } else { String::new() })
                            .collect();
                        let mut inputs: Vec<(String, T)> = Vec::new();
                        for (p, i) in case.inputs.iter().enumerate() {
                            if let In::T(t) = i {
                                gr.inputs.push(vi(&format!("i{p}"), t.dt.onnx(), &t.shape));
                                inputs.push((format!("i{p}"), t.clone()));
                            }
                        }
                        gr.nodes.push(node);
                        for k in 0..slots {
                            if mask & (1 << k) != 0 {
                                let (on, yn) = (format!("o{k}"), format!("y{k}"));
                                gr.nodes.push(n("Identity", &[on.as_str()], &[yn.as_str()]));
                                gr.outputs.push(onnx::ValueInfo::new(&format!("y{k}"), onnx::FLOAT, None));
                            }
                        }
                        let used: String = (0..slots).map(|k| if mask & (1 << k) != 0 { '1' } else { '0' }).collect();
                        *id += 1;
                        run_graph_case(
                            tr,
                            *id,
                            &format!("omit:{}", en.key),
                            &format!("{}|{}|used={used}|{form}", en.key, dt.name()),
                            &format!("used={used},{form}"),
                            gr.to_model(),
                            &inputs,
                            false,
                        );
                    }
                }
            }
        }
    }
}

pub fn main() -> i32 {
    let out = vcommon::arg_or("--out", "-");
    let cases = vcommon::arg_usize("--cases", 4);
    let rounds = vcommon::arg_usize("--graph-rounds", 5);
    let only = vcommon::arg("--only");
    let omit_reps = vcommon::arg_usize("--omit-reps", 1);
    let mut tr = Trace::create(&out);
    let mut rng = Rng::from_env();
    let cat = catalogue();
    let mut id = 0u64;
    for en in &cat {
        if let Some(o) = &only {
            if !en.key.contains(o.as_str()) {
                continue;
            }
        }
        if en.big || en.thr {
            continue;
        }
        let op = match en.load() {
            Ok(op) => op,
            Err(e) => {
                eprintln!("cannot load {}: {e}", en.key);
                return 2;
            }
        };
        for dt in DT::ALL {
            // element types outside the entry's list are tried too (fewer times):
            // "every accepted input dtype combination" is discovered, not assumed
            let reps = if en.dts.contains(&dt) { cases } else { 2.min(cases) };
            for k in 0..reps {
                let case = {
                    let mut g = G { rng: &mut rng, dt, special: k % 4 == 3, exact: false };
                    (en.gen_fn)(&mut g)
                };
                id += 1;
                run_case(&mut tr, id, en, &*op, dt, &case);
            }
        }
    }
    if only.is_none() || only.as_deref() == Some("graph:") {
        graph_level(&mut tr, &mut id, &mut rng, rounds);
    }
    if only.is_none() || only.as_deref().is_some_and(|o| o.starts_with("omit:")) {
        omitted_outputs(&mut tr, &mut id, &mut rng, &cat, omit_reps, only.as_deref().filter(|o| o.len() > 5));
    }
    tr.flush();
    0
}
