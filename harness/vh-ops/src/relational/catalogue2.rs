//! Catalogue part 2: indexing, NN, quantisation, sequence, random and attention operators.
use std::sync::Arc;

use rten::verif::ops as rops;
use vcommon::onnx::{self, Attr};

use super::catalogue::{Case, Entry, G, e};
use super::{DT, In, T};

const FI: &[DT] = &[DT::F32, DT::I32];
const ALL: &[DT] = &[DT::F32, DT::I32, DT::I8, DT::U8];

fn case(inputs: Vec<In>, cls: &str) -> Case {
    Case {
        inputs,
        cls: cls.to_string(),
    }
}
fn tt(t: T) -> In {
    In::T(t)
}
fn opt(g: &mut G, t: T) -> In {
    if g.rng.chance(1, 2) { In::T(t) } else { In::None }
}
fn i64s(v: &[usize]) -> Vec<i64> {
    v.iter().map(|x| *x as i64).collect()
}

pub fn more(v: &mut Vec<Entry>) {
    indexing(v);
    nn(v);
    norms(v);
    quant(v);
    sequences(v);
    attention(v);
    misc(v);
}

fn indexing(v: &mut Vec<Entry>) {
    for axis in [0i64, 1, -1] {
        v.push(e(&format!("Gather/axis={axis}"), "Gather").ai("axis", axis).io(2, 1).dts(ALL).g(move |g| {
            let s = g.shape(if axis == 1 { 2 } else { 1 }, 3);
            let r = s.len();
            let ax = if axis < 0 { r - 1 } else { axis as usize };
            let d = s[ax] as i64;
            let si = g.shape_max(0, 2, 8);
            let idx = g.i_range(&si, -d, d - 1);
            let x = g.t(g.dt, &s);
            case(vec![tt(x), tt(idx)], "any")
        }));
        v.push(e(&format!("GatherElements/axis={axis}"), "GatherElements").ai("axis", axis).io(2, 1).dts(FI).g(move |g| {
            let s = g.shape(if axis == 1 { 2 } else { 1 }, 3);
            let r = s.len();
            let ax = if axis < 0 { r - 1 } else { axis as usize };
            let d = s[ax] as i64;
            let mut si = s.clone();
            si[ax] = 1 + g.rng.below(3);
            // non-axis dims of `indices` may be smaller than the input's
            let shrink = g.rng.chance(1, 2);
            for dd in 0..r {
                if dd != ax && shrink {
                    si[dd] = 1 + g.rng.below(s[dd]);
                }
            }
            let idx = g.i_range(&si, -d, d - 1);
            let x = g.t(g.dt, &s);
            case(vec![tt(x), tt(idx)], if shrink { "indices_smaller" } else { "any" })
        }));
    }
    for bd in [0i64, 1] {
        v.push(e(&format!("GatherND/batch_dims={bd}"), "GatherND").ai("batch_dims", bd).io(2, 1).dts(FI).g(move |g| {
            let s = g.shape(2 + bd as usize, 3 + bd as usize);
            let b = bd as usize;
            let k = 1 + g.rng.below(s.len() - b);
            let mut si: Vec<usize> = s[..b].to_vec();
            si.push(1 + g.rng.below(3));
            si.push(k);
            let n: usize = si.iter().product();
            let mut vals = Vec::with_capacity(n);
            for i in 0..n {
                let d = s[b + i % k] as i64;
                vals.push(g.rng.range(-d, d - 1) as i32);
            }
            let x = g.t(g.dt, &s);
            case(vec![tt(x), tt(T::i(&si, &vals))], "any")
        }));
    }
    for (key, op, red) in [
        ("Scatter", "Scatter", ""),
        ("ScatterElements", "ScatterElements", ""),
        ("ScatterElements/add", "ScatterElements", "add"),
        ("ScatterElements/mul", "ScatterElements", "mul"),
        ("ScatterElements/min", "ScatterElements", "min"),
        ("ScatterElements/max", "ScatterElements", "max"),
    ] {
        let mut b = e(key, op).ai("axis", 1).io(3, 1).dts(FI);
        if !red.is_empty() {
            b = b.astr("reduction", red);
        }
        let unique = red.is_empty();
        v.push(b.g(move |g| {
            let s = g.shape(2, 3);
            let d = s[1];
            let mut si = s.clone();
            si[1] = 1 + g.rng.below(d);
            // without reduction duplicate indices are order-dependent: use distinct indices along the axis
            let n: usize = si.iter().product();
            let rm = super::row_major(&si);
            let mut idx = vec![0i32; n];
            let outer: usize = si[0];
            let inner: usize = si[2..].iter().product();
            for o in 0..outer {
                for inn in 0..inner {
                    let mut perm: Vec<usize> = (0..d).collect();
                    g.rng.shuffle(&mut perm);
                    for j in 0..si[1] {
                        let val = if unique { perm[j] as i32 } else { g.rng.below(d) as i32 };
                        let neg = g.rng.chance(1, 4);
                        idx[o * rm[0] + j * rm[1] + inn] = if neg { val - d as i32 } else { val };
                    }
                }
            }
            let x = if g.dt == DT::F32 { g.f_range(&s, -3.0, 3.0) } else { g.i_range(&s, -4, 4) };
            let u = if g.dt == DT::F32 { g.f_range(&si, -3.0, 3.0) } else { g.i_range(&si, -4, 4) };
            case(vec![tt(x), tt(T::i(&si, &idx)), tt(u)], "any")
        }));
    }
    for red in ["", "add", "max"] {
        let mut b = e(&format!("ScatterND/{}", if red.is_empty() { "none" } else { red }), "ScatterND").io(3, 1).dts(FI);
        if !red.is_empty() {
            b = b.astr("reduction", red);
        }
        v.push(b.g(|g| {
            let s = g.shape(1, 3);
            let k = 1 + g.rng.below(s.len());
            // distinct index tuples
            let total: usize = s[..k].iter().product();
            let m = 1 + g.rng.below(total.min(3));
            let mut lin: Vec<usize> = (0..total).collect();
            g.rng.shuffle(&mut lin);
            let mut idx = vec![];
            for &l in lin.iter().take(m) {
                let mut rem = l;
                let mut tup = vec![0i32; k];
                for d in (0..k).rev() {
                    tup[d] = (rem % s[d]) as i32;
                    rem /= s[d];
                }
                idx.extend(tup);
            }
            let mut su = vec![m];
            su.extend_from_slice(&s[k..]);
            let x = if g.dt == DT::F32 { g.f_range(&s, -3.0, 3.0) } else { g.i_range(&s, -4, 4) };
            let u = if g.dt == DT::F32 { g.f_range(&su, -3.0, 3.0) } else { g.i_range(&su, -4, 4) };
            case(vec![tt(x), tt(T::i(&[m, k], &idx)), tt(u)], "distinct")
        }));
    }
    v.push(e("ReverseSequence", "ReverseSequence").ai("batch_axis", 1).ai("time_axis", 0).io(2, 1).dts(FI).g(|g| {
        let s = g.shape(2, 3);
        let lens = g.i_range(&[s[1]], 1, s[0] as i64);
        let x = g.t(g.dt, &s);
        case(vec![tt(x), tt(lens)], "time0")
    }));
    v.push(e("ReverseSequence/batch0", "ReverseSequence").ai("batch_axis", 0).ai("time_axis", 1).io(2, 1).dts(FI).g(|g| {
        let s = g.shape(2, 3);
        let lens = g.i_range(&[s[0]], 1, s[1] as i64);
        let x = g.t(g.dt, &s);
        case(vec![tt(x), tt(lens)], "batch0")
    }));
}

fn nn(v: &mut Vec<Entry>) {
    // MatMul family
    fn mm_shapes(g: &mut G) -> (Vec<usize>, Vec<usize>, &'static str) {
        let (m, k, n) = (1 + g.rng.below(5), 1 + g.rng.below(6), 1 + g.rng.below(5));
        match g.rng.below(6) {
            0 => (vec![m, k], vec![k, n], "2d"),
            1 => (vec![2, m, k], vec![k, n], "batched_a"),
            2 => (vec![2, m, k], vec![2, k, n], "batched_ab"),
            3 => (vec![m, k], vec![3, k, n], "batched_b"),
            4 => (vec![k], vec![k, n], "vec_a"),
            _ => (vec![2, 1, m, k], vec![1, 3, k, n], "bcast_batch"),
        }
    }
    v.push(e("MatMul", "MatMul").num(1).io(2, 1).g(|g| {
        let (sa, sb, cls) = mm_shapes(g);
        let (a, b) = if g.dt == DT::F32 { (g.f_range(&sa, -2.0, 2.0), g.f_range(&sb, -2.0, 2.0)) } else { (g.i_range(&sa, -4, 4), g.i_range(&sb, -4, 4)) };
        case(vec![tt(a), tt(b)], cls)
    }));
    v.push(e("MatMulInteger", "MatMulInteger").io(4, 1).dts(&[DT::U8, DT::I8]).g(|g| {
        let (sa, sb, cls) = mm_shapes(g);
        let dta = g.dt;
        let dtb = if g.rng.chance(1, 2) { DT::I8 } else { DT::U8 };
        let a = g.t(dta, &sa);
        let b = g.t(dtb, &sb);
        let za = opt(g, T::typed(dta, &[], &[3]));
        let zb = if matches!(za, In::None) && g.rng.chance(1, 2) { In::None } else { In::T(T::typed(dtb, &[], &[2])) };
        case(vec![tt(a), tt(b), za, zb], cls)
    }));
    for (ta, tb) in [(0i64, 0i64), (1, 0), (0, 1), (1, 1)] {
        v.push(e(&format!("Gemm/tA={ta},tB={tb}"), "Gemm").num(1).ai("transA", ta).ai("transB", tb).af("alpha", 0.5).af("beta", 2.0).io(3, 1).g(move |g| {
            let (m, k, n) = (1 + g.rng.below(5), 1 + g.rng.below(6), 1 + g.rng.below(5));
            let sa = if ta == 1 { vec![k, m] } else { vec![m, k] };
            let sb = if tb == 1 { vec![n, k] } else { vec![k, n] };
            let sc = match g.rng.below(5) {
                0 => None,
                1 => Some(vec![m, n]),
                2 => Some(vec![n]),
                3 => Some(vec![m, 1]),
                _ => Some(vec![]),
            };
            let a = g.f_range(&sa, -2.0, 2.0);
            let b = g.f_range(&sb, -2.0, 2.0);
            let c = match sc {
                Some(s) => tt(g.f_range(&s, -2.0, 2.0)),
                None => In::None,
            };
            case(vec![tt(a), tt(b), c], "any")
        }));
    }
    for eq in ["ij,jk->ik", "bij,bjk->bik", "ij->ji", "ij,ij->i", "i,j->ij", "bhid,bhjd->bhij"] {
        let n_in = eq.split("->").next().unwrap().split(',').count();
        v.push(e(&format!("Einsum/{eq}"), "Einsum").num(1).astr("equation", eq).io(n_in, 1).g(move |g| {
            let mut sizes = std::collections::BTreeMap::new();
            let mut ins = vec![];
            for term in eq.split("->").next().unwrap().split(',') {
                let s: Vec<usize> = term.chars().map(|c| *sizes.entry(c).or_insert_with(|| 1 + g.rng.below(3))).collect();
                ins.push(tt(g.f_range(&s, -2.0, 2.0)));
            }
            case(ins, "any")
        }));
    }
    // Conv family
    for (key, group, dil, stride, pad, same) in [
        ("Conv/plain", 1usize, 1i64, 1i64, 0i64, false),
        ("Conv/pad_stride", 1, 1, 2, 1, false),
        ("Conv/dilated", 1, 2, 1, 1, false),
        ("Conv/group2", 2, 1, 1, 0, false),
        ("Conv/depthwise", 0, 1, 1, 1, false),
        ("Conv/same", 1, 1, 1, 0, true),
    ] {
        let mut b = e(key, "Conv").num(1).aints("kernel_shape", &[3, 3]).aints("dilations", &[dil, dil]).aints("strides", &[stride, stride]).io(3, 1);
        if same {
            b = b.astr("auto_pad", "SAME_UPPER");
        } else {
            b = b.aints("pads", &[pad, pad, pad, pad]);
        }
        // group attr fixed at load time: depthwise uses channels = 3
        let (cin, grp) = if group == 0 { (3usize, 3usize) } else { (2 * group, group) };
        b = b.ai("group", grp as i64);
        v.push(b.g(move |g| {
            let n = 1 + g.rng.below(2);
            let hw = [5 + g.rng.below(3), 5 + g.rng.below(3)];
            let cout = grp * (1 + g.rng.below(2));
            let x = g.f_range(&[n, cin, hw[0], hw[1]], -2.0, 2.0);
            let w = g.f_range(&[cout, cin / grp, 3, 3], -1.0, 1.0);
            let bias = opt(g, T::f(&[cout], &vec![0.5; cout]));
            case(vec![tt(x), tt(w), bias], "nchw")
        }));
    }
    v.push(e("Conv/1d", "Conv").num(1).aints("kernel_shape", &[2]).io(3, 1).g(|g| {
        let sh1_ = [1 + g.rng.below(2), 2, 4 + g.rng.below(4)];
        let x = g.f_range(&sh1_, -2.0, 2.0);
        let w = g.f_range(&[3, 2, 2], -1.0, 1.0);
        case(vec![tt(x), tt(w), In::None], "ncw")
    }));
    v.push(e("Conv/1x1", "Conv").num(1).aints("kernel_shape", &[1, 1]).io(3, 1).g(|g| {
        let sh2_ = [1 + g.rng.below(2), 3, 1 + g.rng.below(4), 1 + g.rng.below(4)];
        let x = g.f_range(&sh2_, -2.0, 2.0);
        let w = g.f_range(&[2, 3, 1, 1], -1.0, 1.0);
        case(vec![tt(x), tt(w), In::None], "pointwise")
    }));
    v.push(e("ConvInteger", "ConvInteger").aints("kernel_shape", &[2, 2]).io(4, 1).dts(&[DT::U8]).g(|g| {
        let sh3_ = [1, 2, 3 + g.rng.below(3), 3 + g.rng.below(3)];
        let x = g.t(DT::U8, &sh3_);
        let wdt = if g.rng.chance(1, 2) { DT::I8 } else { DT::U8 };
        let w = g.t(wdt, &[2, 2, 2, 2]);
        let zx = opt(g, T::typed(DT::U8, &[], &[2]));
        let zw = if matches!(zx, In::None) { In::None } else { opt(g, T::typed(wdt, &[], &[1])) };
        case(vec![tt(x), tt(w), zx, zw], "nchw")
    }));
    for (key, stride, pad) in [("ConvTranspose/plain", 1i64, 0i64), ("ConvTranspose/stride2", 2, 1)] {
        v.push(e(key, "ConvTranspose").num(1).aints("kernel_shape", &[3, 3]).aints("strides", &[stride, stride]).aints("pads", &[pad, pad, pad, pad]).io(3, 1).g(|g| {
            let sh4_ = [1 + g.rng.below(2), 2, 2 + g.rng.below(3), 2 + g.rng.below(3)];
            let x = g.f_range(&sh4_, -2.0, 2.0);
            let w = g.f_range(&[2, 3, 3, 3], -1.0, 1.0);
            let bias = opt(g, T::f(&[3], &[0.5, -0.5, 1.0]));
            case(vec![tt(x), tt(w), bias], "nchw")
        }));
    }
    v.push(e("ConvTranspose/1d", "ConvTranspose").num(1).aints("kernel_shape", &[2]).aints("strides", &[2]).io(3, 1).g(|g| {
        let sh5_ = [1, 2, 2 + g.rng.below(4)];
        let x = g.f_range(&sh5_, -2.0, 2.0);
        let w = g.f_range(&[2, 2, 2], -1.0, 1.0);
        case(vec![tt(x), tt(w), In::None], "ncw")
    }));
    for (name, extra) in [("AveragePool", true), ("MaxPool", false)] {
        for (key, k, stride, pad, ceil) in [("k2s2", 2i64, 2i64, 0i64, 0i64), ("k3s1p1", 3, 1, 1, 0), ("k2s2ceil", 2, 2, 0, 1)] {
            let mut b = e(&format!("{name}/{key}"), name).aints("kernel_shape", &[k, k]).aints("strides", &[stride, stride]).aints("pads", &[pad, pad, pad, pad]).ai("ceil_mode", ceil);
            if extra && pad > 0 {
                b = b.ai("count_include_pad", 1);
            }
            v.push(b.g(|g| {
                let s = [1 + g.rng.below(2), 1 + g.rng.below(3), 3 + g.rng.below(4), 3 + g.rng.below(4)];
                case(vec![tt(g.f_range(&s, -3.0, 3.0))], "nchw")
            }));
        }
    }
    // RNNs
    for dir in ["forward", "reverse", "bidirectional"] {
        let nd = if dir == "bidirectional" { 2usize } else { 1 };
        v.push(e(&format!("GRU/{dir}"), "GRU").num(2).ai("hidden_size", 3).astr("direction", dir).ai("linear_before_reset", 1).io(6, 2).g(move |g| {
            let (seq, batch, inp, h) = (1 + g.rng.below(3), 1 + g.rng.below(2), 2usize, 3usize);
            let x = g.f_range(&[seq, batch, inp], -1.0, 1.0);
            let w = g.f_range(&[nd, 3 * h, inp], -0.5, 0.5);
            let r = g.f_range(&[nd, 3 * h, h], -0.5, 0.5);
            let b = g.f_range(&[nd, 6 * h], -0.5, 0.5);
            let b = opt(g, b);
            let h0 = g.f_range(&[nd, batch, h], -0.5, 0.5);
            let h0 = opt(g, h0);
            case(vec![tt(x), tt(w), tt(r), b, In::None, h0], "any")
        }));
        v.push(e(&format!("LSTM/{dir}"), "LSTM").num(2).ai("hidden_size", 3).astr("direction", dir).io(7, 3).g(move |g| {
            let (seq, batch, inp, h) = (1 + g.rng.below(3), 1 + g.rng.below(2), 2usize, 3usize);
            let x = g.f_range(&[seq, batch, inp], -1.0, 1.0);
            let w = g.f_range(&[nd, 4 * h, inp], -0.5, 0.5);
            let r = g.f_range(&[nd, 4 * h, h], -0.5, 0.5);
            let b = g.f_range(&[nd, 8 * h], -0.5, 0.5);
            let b = opt(g, b);
            let h0 = g.f_range(&[nd, batch, h], -0.5, 0.5);
            let c0 = g.f_range(&[nd, batch, h], -0.5, 0.5);
            let (h0, c0) = if g.rng.chance(1, 2) { (tt(h0), tt(c0)) } else { (In::None, In::None) };
            case(vec![tt(x), tt(w), tt(r), b, In::None, h0, c0], "any")
        }));
    }
    // Resize / Upsample
    for (key, mode, coord, nearest) in [
        ("Resize/nearest_asym_floor", "nearest", "asymmetric", "floor"),
        ("Resize/nearest_half_rpf", "nearest", "half_pixel", "round_prefer_floor"),
        ("Resize/linear_half", "linear", "half_pixel", "round_prefer_floor"),
        ("Resize/linear_align", "linear", "align_corners", "round_prefer_floor"),
        ("Resize/linear_pytorch", "linear", "pytorch_half_pixel", "round_prefer_floor"),
    ] {
        v.push(e(key, "Resize").astr("mode", mode).astr("coordinate_transformation_mode", coord).astr("nearest_mode", nearest).io(4, 1).g(|g| {
            let s = [1usize, 1 + g.rng.below(2), 2 + g.rng.below(3), 2 + g.rng.below(3)];
            let x = g.f_range(&s, -3.0, 3.0);
            match g.rng.below(4) {
                0 => case(vec![tt(x), In::None, tt(T::f(&[4], &[1.0, 1.0, 1.0, 1.0])), In::None], "noop_scales"),
                1 => case(vec![tt(x), In::None, In::None, tt(T::ints(&i64s(&s)))], "noop_sizes"),
                2 => case(vec![tt(x), In::None, tt(T::f(&[4], &[1.0, 1.0, 2.0, 1.5])), In::None], "scales"),
                _ => {
                    let t = [s[0], s[1], s[2] + 1 + g.rng.below(3), 1 + g.rng.below(5)];
                    case(vec![tt(x), In::None, In::None, tt(T::ints(&i64s(&t)))], "sizes")
                }
            }
        }));
    }
    v.push(e("Upsample/nearest", "Upsample").astr("mode", "nearest").io(2, 1).g(|g| {
        let s = [1usize, 1 + g.rng.below(2), 2 + g.rng.below(3), 2 + g.rng.below(3)];
        case(vec![tt(g.f_range(&s, -3.0, 3.0)), tt(T::f(&[4], &[1.0, 1.0, 2.0, 2.0]))], "x2")
    }));
    v.push(e("Upsample/linear", "Upsample").astr("mode", "linear").io(2, 1).g(|g| {
        let s = [1usize, 1 + g.rng.below(2), 2 + g.rng.below(3), 2 + g.rng.below(3)];
        case(vec![tt(g.f_range(&s, -3.0, 3.0)), tt(T::f(&[4], &[1.0, 1.0, 1.5, 2.0]))], "frac")
    }));
    for ac in [0i64, 1] {
        v.push(e(&format!("GridSample/align={ac}"), "GridSample").ai("align_corners", ac).astr("mode", "linear").io(2, 1).g(|g| {
            let (n, c, h, w) = (1 + g.rng.below(2), 1 + g.rng.below(2), 2 + g.rng.below(3), 2 + g.rng.below(3));
            let x = g.f_range(&[n, c, h, w], -3.0, 3.0);
            let sh6_ = [n, 1 + g.rng.below(3), 1 + g.rng.below(3), 2];
            let grid = g.f_range(&sh6_, -1.2, 1.2);
            case(vec![tt(x), tt(grid)], "nchw")
        }));
    }
    for cpb in [0i64, 1] {
        v.push(e(&format!("NonMaxSuppression/center={cpb}"), "NonMaxSuppression").ai("center_point_box", cpb).io(5, 1).g(move |g| {
            let (nb, nc, nboxes) = (1 + g.rng.below(2), 1 + g.rng.below(2), 1 + g.rng.below(5));
            let mut bx = vec![];
            for _ in 0..nb * nboxes {
                let (a, b) = (g.rng.below(8) as f32, g.rng.below(8) as f32);
                let (w, h) = (1.0 + g.rng.below(5) as f32, 1.0 + g.rng.below(5) as f32);
                if cpb == 1 { bx.extend([a, b, w, h]); } else { bx.extend([a, b, a + h, b + w]); }
            }
            // distinct scores: ties would be order-dependent
            let mut sc: Vec<i32> = (0..(nb * nc * nboxes) as i32).collect();
            g.rng.shuffle(&mut sc);
            let scores = T::f(&[nb, nc, nboxes], &sc.iter().map(|x| *x as f32 / 16.0).collect::<Vec<_>>());
            let maxb = opt(g, T::scalar_i(2));
            let iou = if matches!(maxb, In::None) { In::None } else { opt(g, T::scalar_f(0.4)) };
            let st = if matches!(iou, In::None) { In::None } else { opt(g, T::scalar_f(0.1)) };
            case(vec![tt(T::f(&[nb, nboxes, 4], &bx)), tt(scores), maxb, iou, st], "any")
        }));
    }
    for (inv, ones) in [(0i64, 0i64), (1, 0), (0, 1)] {
        v.push(e(&format!("DFT/inv={inv},onesided={ones}"), "DFT").ai("inverse", inv).ai("onesided", ones).io(3, 1).g(move |g| {
            let n = *g.rng.pick(&[2usize, 3, 4, 5, 8]);
            let comps = if ones == 1 || g.rng.chance(1, 2) { 1 } else { 2 };
            let sh7_ = [1 + g.rng.below(2), n, comps];
            let x = g.f_range(&sh7_, -2.0, 2.0);
            let len = if g.rng.chance(1, 3) { tt(T::scalar_i(n as i32 + 2)) } else { In::None };
            let axis = if g.rng.chance(1, 2) { tt(T::scalar_i(1)) } else { In::None };
            case(vec![tt(x), len, axis], "any")
        }));
    }
    v.push(e("STFT", "STFT").ai("onesided", 1).io(4, 1).g(|g| {
        let n = 8 + g.rng.below(8);
        let sh8_ = [1 + g.rng.below(2), n, 1];
        let x = g.f_range(&sh8_, -2.0, 2.0);
        let fl = 4usize;
        let (win, flen) = match g.rng.below(3) {
            0 => (tt(g.f_range(&[fl], 0.1, 1.0)), In::None),
            1 => (In::None, tt(T::scalar_i(fl as i32))),
            _ => (tt(g.f_range(&[fl], 0.1, 1.0)), tt(T::scalar_i(fl as i32))),
        };
        case(vec![tt(x), tt(T::scalar_i(2)), win, flen], "any")
    }));
}

fn norms(v: &mut Vec<Entry>) {
    v.push(e("BatchNormalization", "BatchNormalization").af("epsilon", 1e-3).io(5, 1).g(|g| {
        let r = 2 + g.rng.below(3);
        let mut s = vec![1 + g.rng.below(2), 1 + g.rng.below(4)];
        for _ in 2..r {
            s.push(1 + g.rng.below(4));
        }
        let c = s[1];
        let x = g.f_range(&s, -3.0, 3.0);
        let sc = g.f_range(&[c], 0.5, 2.0);
        let b = g.f_range(&[c], -1.0, 1.0);
        let m = g.f_range(&[c], -1.0, 1.0);
        let var = g.f_range(&[c], 0.5, 2.0);
        case(vec![tt(x), tt(sc), tt(b), tt(m), tt(var)], &format!("rank{r}"))
    }));
    v.push(e("InstanceNormalization", "InstanceNormalization").af("epsilon", 1e-3).io(3, 1).g(|g| {
        let r = 3 + g.rng.below(2);
        let mut s = vec![1 + g.rng.below(2), 1 + g.rng.below(3)];
        for _ in 2..r {
            s.push(2 + g.rng.below(3));
        }
        let c = s[1];
        let x = g.f_range(&s, -3.0, 3.0);
        let sc = g.f_range(&[c], 0.5, 2.0);
        let b = g.f_range(&[c], -1.0, 1.0);
        case(vec![tt(x), tt(sc), tt(b)], &format!("rank{r}"))
    }));
    for axis in [-1i64, 1] {
        v.push(e(&format!("LayerNormalization/axis={axis}"), "LayerNormalization").ai("axis", axis).io(3, 1).g(move |g| {
            let s = g.shape(2, 4);
            let ax = if axis < 0 { s.len() - 1 } else { 1 };
            let ns = s[ax..].to_vec();
            let x = g.f_range(&s, -3.0, 3.0);
            let sc = g.f_range(&ns, 0.5, 2.0);
            let b = g.f_range(&ns, -1.0, 1.0);
            let b = opt(g, b);
            case(vec![tt(x), tt(sc), b], "any")
        }));
        v.push(e(&format!("RMSNormalization/axis={axis}"), "RMSNormalization").ai("axis", axis).io(2, 1).g(move |g| {
            let s = g.shape(2, 4);
            let ax = if axis < 0 { s.len() - 1 } else { 1 };
            let ns = s[ax..].to_vec();
            let x = g.f_range(&s, -3.0, 3.0);
            let sc = g.f_range(&ns, 0.5, 2.0);
            case(vec![tt(x), tt(sc)], "any")
        }));
    }
    v.push(e("SimplifiedLayerNormalization", "SimplifiedLayerNormalization").af("epsilon", 1e-5).io(2, 1).g(|g| {
        let s = g.shape(2, 4);
        let n = *s.last().unwrap();
        let x = g.f_range(&s, -3.0, 3.0);
        let sc = g.f_range(&[n], 0.5, 2.0);
        case(vec![tt(x), tt(sc)], "any")
    }));
    v.push(e("ms.SkipLayerNormalization", "SkipLayerNormalization").ms().af("epsilon", 1e-5).io(5, 1).g(|g| {
        let s = g.shape(3, 3);
        let n = s[2];
        let x = g.f_range(&s, -3.0, 3.0);
        let skip = g.f_range(&s, -3.0, 3.0);
        let gamma = g.f_range(&[n], 0.5, 2.0);
        let beta = g.f_range(&[n], -1.0, 1.0);
        let beta = opt(g, beta);
        let bias = g.f_range(&[n], -1.0, 1.0);
        let bias = opt(g, bias);
        case(vec![tt(x), tt(skip), tt(gamma), beta, bias], "any")
    }));
    v.push(e("ms.SkipSimplifiedLayerNormalization", "SkipSimplifiedLayerNormalization").ms().af("epsilon", 1e-5).io(4, 1).g(|g| {
        let s = g.shape(3, 3);
        let n = s[2];
        let x = g.f_range(&s, -3.0, 3.0);
        let skip = g.f_range(&s, -3.0, 3.0);
        let gamma = g.f_range(&[n], 0.5, 2.0);
        let bias = g.f_range(&[n], -1.0, 1.0);
        let bias = opt(g, bias);
        case(vec![tt(x), tt(skip), tt(gamma), bias], "any")
    }));
    v.push(e("ms.BiasGelu", "BiasGelu").ms().io(2, 1).g(|g| {
        let s = g.shape(1, 3);
        let n = *s.last().unwrap();
        let x = g.f_range(&s, -3.0, 3.0);
        let b = g.f_range(&[n], -1.0, 1.0);
        case(vec![tt(x), tt(b)], "any")
    }));
    v.push(e("ms.FastGelu", "FastGelu").ms().io(2, 1).g(|g| {
        let s = g.shape(1, 3);
        let n = *s.last().unwrap();
        let x = g.f_range(&s, -3.0, 3.0);
        let b = g.f_range(&[n], -1.0, 1.0);
        let b = opt(g, b);
        case(vec![tt(x), b], "any")
    }));
}

fn quant(v: &mut Vec<Entry>) {
    for (key, odt) in [("QuantizeLinear", 0), ("QuantizeLinear/out=u8", onnx::UINT8), ("QuantizeLinear/out=i8", onnx::INT8)] {
        let mut b = e(key, "QuantizeLinear").ai("axis", 1).io(3, 1);
        if odt != 0 {
            b = b.ai("output_dtype", odt as i64);
        }
        for zp in ["none", "u8", "i8"] {
            let b2 = e(&format!("{key}/zp={zp}"), "QuantizeLinear");
            let _ = b2;
        }
        v.push(b.g(move |g| {
            let s = g.shape(2, 3);
            let x = g.f_range(&s, -40.0, 40.0);
            let per_axis = g.rng.chance(1, 2);
            let ss = if per_axis { vec![s[1]] } else { vec![] };
            let scale = g.t_with(DT::F32, &ss, |g| (*g.rng.pick(&[0.5f32, 0.25, 1.0, 2.0])).to_bits() as i32);
            let zp = match g.rng.below(3) {
                0 => In::None,
                1 => tt(g.t_with(DT::U8, &ss, |g| g.rng.range(0, 200) as i32)),
                _ => tt(g.t_with(DT::I8, &ss, |g| g.rng.range(-50, 50) as i32)),
            };
            let cls = match &zp {
                In::None => "zp_none",
                In::T(t) if t.dt == DT::U8 => "zp_u8",
                _ => "zp_i8",
            };
            case(vec![tt(x), tt(scale), zp], cls)
        }));
    }
    v.push(e("DequantizeLinear", "DequantizeLinear").ai("axis", 1).io(3, 1).dts(&[DT::I8, DT::U8, DT::I32]).g(|g| {
        let s = g.shape(2, 3);
        let x = g.t(g.dt, &s);
        let per_axis = g.rng.chance(1, 2);
        let ss = if per_axis { vec![s[1]] } else { vec![] };
        let scale = g.t_with(DT::F32, &ss, |g| (*g.rng.pick(&[0.5f32, 0.25, 1.0, 2.0])).to_bits() as i32);
        let dt = g.dt;
        let zp = if g.rng.chance(1, 2) { tt(g.t_with(dt, &ss, |g| g.rng.range(0, 5) as i32)) } else { In::None };
        case(vec![tt(x), tt(scale), zp], if per_axis { "per_axis" } else { "per_tensor" })
    }));
    v.push(e("DynamicQuantizeLinear", "DynamicQuantizeLinear").io(1, 3).g(|g| {
        let s = g.shape(1, 3);
        case(vec![tt(g.f_range(&s, -5.0, 9.0))], "any")
    }));
    for acc in [0i64, 4] {
        v.push(e(&format!("ms.MatMulNBits/acc={acc}"), "MatMulNBits").num(1).ms().ai("bits", 4).ai("block_size", 16).ai("K", 32).ai("N", 3).ai("accuracy_level", acc).io(3, 1).g(|g| {
            let (m, k, n, bs) = (1 + g.rng.below(4), 32usize, 3usize, 16usize);
            let sa = if g.rng.chance(1, 2) { vec![m, k] } else { vec![2, m, k] };
            let a = g.f_range(&sa, -2.0, 2.0);
            let b = g.t_with(DT::U8, &[n, k / bs, bs / 2], |g| g.rng.range(0, 255) as i32);
            let sc = g.t_with(DT::F32, &[n, k / bs], |g| (*g.rng.pick(&[0.5f32, 0.25, 1.0, 0.125])).to_bits() as i32);
            case(vec![tt(a), tt(b), tt(sc)], "any")
        }));
    }
}

fn sequences(v: &mut Vec<Entry>) {
    fn seq(g: &mut G, dt: DT, n: usize) -> In {
        let items: Vec<T> = (0..n)
            .map(|_| {
                let s = g.shape_max(0, 2, 8);
                g.t(dt, &s)
            })
            .collect();
        In::Seq(dt, items)
    }
    for (nm, dt) in [("none", 0), ("f32", onnx::FLOAT), ("i32", onnx::INT32), ("i64", onnx::INT64), ("u8", onnx::UINT8), ("i8", onnx::INT8)] {
        let mut b = e(&format!("SequenceEmpty/dtype={nm}"), "SequenceEmpty").io(0, 1);
        if dt != 0 {
            b = b.ai("dtype", dt as i64);
        }
        v.push(b.g(|_g| case(vec![], "none")));
    }
    v.push(e("SequenceConstruct", "SequenceConstruct").io(3, 1).dts(ALL).g(|g| {
        let n = 1 + g.rng.below(3);
        let mut ins = vec![];
        for _ in 0..n {
            let s = g.shape_max(0, 2, 8);
            ins.push(tt(g.t(g.dt, &s)));
        }
        while ins.len() < 3 {
            ins.push(In::None);
        }
        case(ins, &format!("n={n}"))
    }));
    v.push(e("SequenceAt", "SequenceAt").io(2, 1).dts(ALL).g(|g| {
        let n = 1 + g.rng.below(3);
        let s = seq(g, g.dt, n);
        let pos = g.rng.range(-(n as i64), n as i64 - 1) as i32;
        case(vec![s, tt(T::scalar_i(pos))], "any")
    }));
    v.push(e("SequenceErase", "SequenceErase").io(2, 1).dts(ALL).g(|g| {
        let n = 1 + g.rng.below(3);
        let s = seq(g, g.dt, n);
        let pos = g.rng.range(-(n as i64), n as i64 - 1) as i32;
        let p = opt(g, T::scalar_i(pos));
        case(vec![s, p], "any")
    }));
    v.push(e("SequenceInsert", "SequenceInsert").io(3, 1).dts(ALL).g(|g| {
        let n = g.rng.below(3);
        let s = seq(g, g.dt, n);
        let sh = g.shape_max(0, 2, 8);
        let t = g.t(g.dt, &sh);
        let pos = g.rng.range(-(n as i64), n as i64) as i32;
        let p = opt(g, T::scalar_i(pos));
        case(vec![s, tt(t), p], "any")
    }));
    v.push(e("SequenceLength", "SequenceLength").io(1, 1).dts(ALL).g(|g| {
        let n = g.rng.below(4);
        case(vec![seq(g, g.dt, n)], "any")
    }));
    for (axis, na) in [(0i64, 0i64), (1, 0), (0, 1), (-1, 1)] {
        v.push(e(&format!("ConcatFromSequence/axis={axis},new={na}"), "ConcatFromSequence").ai("axis", axis).ai("new_axis", na).io(1, 1).dts(FI).g(move |g| {
            let n = 1 + g.rng.below(3);
            let base = g.shape_max(2, 3, 12);
            let ax = if axis < 0 { base.len() - 1 } else { axis as usize };
            let items: Vec<T> = (0..n)
                .map(|_| {
                    let mut s = base.clone();
                    if na == 0 {
                        s[ax] = 1 + g.rng.below(3);
                    }
                    g.t(g.dt, &s)
                })
                .collect();
            case(vec![In::Seq(g.dt, items)], "any")
        }));
    }
    for keep in [0i64, 1] {
        v.push(e(&format!("SplitToSequence/keep={keep}"), "SplitToSequence").ai("axis", 0).ai("keepdims", keep).io(2, 1).dts(FI).g(|g| {
            let mut s = g.shape_max(1, 3, 24);
            s[0] = 2 + g.rng.below(3);
            let x = g.t(g.dt, &s);
            let split = match g.rng.below(3) {
                0 => In::None,
                1 => tt(T::scalar_i(2)),
                _ => tt(T::ints(&[1, s[0] as i64 - 1])),
            };
            case(vec![tt(x), split], "any")
        }));
    }
}

fn attention(v: &mut Vec<Entry>) {
    // ONNX Attention (opset 23): Q,K,V 4-D, optional mask, optional past K/V
    for causal in [0i64, 1] {
        v.push(e(&format!("Attention/4d,causal={causal}"), "Attention").num(2).reserve(2).ai("is_causal", causal).io(6, 3).g(|g| {
            let (b, qh, kvh) = (1 + g.rng.below(2), 2usize, *g.rng.pick(&[1usize, 2]));
            let (qs, ks, hd, vd) = (1 + g.rng.below(3), 1 + g.rng.below(3), 2 + g.rng.below(3), 2 + g.rng.below(3));
            let q = g.f_range(&[b, qh, qs, hd], -1.0, 1.0);
            let k = g.f_range(&[b, kvh, ks, hd], -1.0, 1.0);
            let val = g.f_range(&[b, kvh, ks, vd], -1.0, 1.0);
            let past = g.rng.chance(1, 2);
            let ps = if past { g.rng.below(3) } else { 0 };
            let mask = if g.rng.chance(1, 3) { tt(g.f_range(&[qs, ps + ks], -1.0, 0.0)) } else { In::None };
            let (pk, pv) = if past {
                (tt(g.f_range(&[b, kvh, ps, hd], -1.0, 1.0)), tt(g.f_range(&[b, kvh, ps, vd], -1.0, 1.0)))
            } else {
                (In::None, In::None)
            };
            case(vec![tt(q), tt(k), tt(val), mask, pk, pv], if past { "past" } else { "nopast" })
        }));
    }
    v.push(e("Attention/3d", "Attention").num(2).reserve(2).ai("q_num_heads", 2).ai("kv_num_heads", 1).io(6, 3).g(|g| {
        let (b, qs, ks, hd) = (1 + g.rng.below(2), 1 + g.rng.below(3), 1 + g.rng.below(3), 2usize);
        let q = g.f_range(&[b, qs, 2 * hd], -1.0, 1.0);
        let k = g.f_range(&[b, ks, hd], -1.0, 1.0);
        let val = g.f_range(&[b, ks, hd], -1.0, 1.0);
        let past = g.rng.chance(1, 2);
        let ps = g.rng.below(3);
        let (pk, pv) = if past {
            (tt(g.f_range(&[b, 1, ps, hd], -1.0, 1.0)), tt(g.f_range(&[b, 1, ps, hd], -1.0, 1.0)))
        } else {
            (In::None, In::None)
        };
        case(vec![tt(q), tt(k), tt(val), In::None, pk, pv], if past { "past" } else { "nopast" })
    }));
    for uni in [0i64, 1] {
        v.push(e(&format!("ms.MultiHeadAttention/uni={uni}"), "MultiHeadAttention").num(2).reserve(2).ms().ai("num_heads", 2).ai("unidirectional", uni).io(8, 3).g(|g| {
            let (b, s, ks, hd) = (1 + g.rng.below(2), 1 + g.rng.below(3), 1 + g.rng.below(3), 2usize);
            let hidden = 2 * hd;
            let q = g.f_range(&[b, s, hidden], -1.0, 1.0);
            let k = g.f_range(&[b, ks, hidden], -1.0, 1.0);
            let val = g.f_range(&[b, ks, hidden], -1.0, 1.0);
            let bias = g.f_range(&[3 * hidden], -0.5, 0.5);
            let bias = opt(g, bias);
            let past = g.rng.chance(1, 2);
            let ps = if past { g.rng.below(3) } else { 0 };
            let kpm = if g.rng.chance(1, 3) { tt(g.i_range(&[b, ps + ks], 0, 1)) } else { In::None };
            let ab = if g.rng.chance(1, 3) { tt(g.f_range(&[1, 2, s, ps + ks], -1.0, 0.0)) } else { In::None };
            let (pk, pv) = if past {
                (tt(g.f_range(&[b, 2, ps, hd], -1.0, 1.0)), tt(g.f_range(&[b, 2, ps, hd], -1.0, 1.0)))
            } else {
                (In::None, In::None)
            };
            case(vec![tt(q), tt(k), tt(val), bias, kpm, ab, pk, pv], if past { "past" } else { "nopast" })
        }));
    }
    for (key, rotary) in [("ms.GroupQueryAttention", 0i64), ("ms.GroupQueryAttention/rotary", 1)] {
        v.push(e(key, "GroupQueryAttention").num(2).reserve(2).ms().ai("num_heads", 2).ai("kv_num_heads", 1).ai("do_rotary", rotary).io(9, 3).g(move |g| {
            let (b, hd) = (1 + g.rng.below(2), 4usize);
            let decode = g.rng.chance(1, 2);
            let (seq, past_seq) = if decode { (1usize, 1 + g.rng.below(3)) } else { (1 + g.rng.below(3), 0usize) };
            let total = seq + past_seq;
            let packed = g.rng.chance(1, 3);
            let (q, k, val) = if packed {
                (tt(g.f_range(&[b, seq, (2 + 2) * hd], -1.0, 1.0)), In::None, In::None)
            } else {
                (tt(g.f_range(&[b, seq, 2 * hd], -1.0, 1.0)), tt(g.f_range(&[b, seq, hd], -1.0, 1.0)), tt(g.f_range(&[b, seq, hd], -1.0, 1.0)))
            };
            let (pk, pv) = if decode || g.rng.chance(1, 2) {
                (tt(g.f_range(&[b, 1, past_seq, hd], -1.0, 1.0)), tt(g.f_range(&[b, 1, past_seq, hd], -1.0, 1.0)))
            } else {
                (In::None, In::None)
            };
            let seqlens = T::i(&[b], &vec![total as i32 - 1; b]);
            let (cos, sin) = if rotary == 1 {
                (tt(g.f_range(&[8, hd / 2], -1.0, 1.0)), tt(g.f_range(&[8, hd / 2], -1.0, 1.0)))
            } else {
                (In::None, In::None)
            };
            case(vec![q, k, val, pk, pv, tt(seqlens), tt(T::scalar_i(total as i32)), cos, sin], if decode { "decode" } else { "prompt" })
        }));
    }
    for il in [0i64, 1] {
        v.push(e(&format!("RotaryEmbedding/interleaved={il}"), "RotaryEmbedding").ai("interleaved", il).ai("num_heads", 2).io(4, 1).g(|g| {
            let (b, s, hd) = (1 + g.rng.below(2), 1 + g.rng.below(3), 4usize);
            let four_d = g.rng.chance(1, 2);
            let x = if four_d { g.f_range(&[b, 2, s, hd], -1.0, 1.0) } else { g.f_range(&[b, s, 2 * hd], -1.0, 1.0) };
            if g.rng.chance(1, 2) {
                let cos = g.f_range(&[b, s, hd / 2], -1.0, 1.0);
                let sin = g.f_range(&[b, s, hd / 2], -1.0, 1.0);
                case(vec![tt(x), tt(cos), tt(sin), In::None], "direct")
            } else {
                let cos = g.f_range(&[6, hd / 2], -1.0, 1.0);
                let sin = g.f_range(&[6, hd / 2], -1.0, 1.0);
                let pos = g.i_range(&[b, s], 0, 5);
                case(vec![tt(x), tt(cos), tt(sin), tt(pos)], "position_ids")
            }
        }));
        v.push(e(&format!("ms.RotaryEmbedding/interleaved={il}"), "RotaryEmbedding").ms().ai("interleaved", il).ai("num_heads", 2).io(4, 1).g(|g| {
            let (b, s, hd) = (1 + g.rng.below(2), 1 + g.rng.below(3), 4usize);
            let x = g.f_range(&[b, s, 2 * hd], -1.0, 1.0);
            let cos = g.f_range(&[8, hd / 2], -1.0, 1.0);
            let sin = g.f_range(&[8, hd / 2], -1.0, 1.0);
            let pos = if g.rng.chance(1, 2) { g.i_range(&[b, s], 0, 5) } else { T::i(&[1], &[2]) };
            case(vec![tt(x), tt(pos), tt(cos), tt(sin)], "any")
        }));
    }
}

fn misc(v: &mut Vec<Entry>) {
    // Random operators: seeded => deterministic; unseeded only used by C12 (dtype).
    v.push(e("RandomNormal/seed", "RandomNormal").aints("shape", &[2, 3]).af("seed", 3.0).io(0, 1).g(|_g| case(vec![], "seeded")));
    v.push(e("RandomUniform/seed", "RandomUniform").aints("shape", &[2, 3]).af("seed", 3.0).io(0, 1).g(|_g| case(vec![], "seeded")));
    v.push(e("RandomNormal", "RandomNormal").aints("shape", &[2, 3]).ai("dtype", onnx::FLOAT as i64).io(0, 1).nondet().g(|_g| case(vec![], "unseeded")));
    v.push(e("RandomUniform", "RandomUniform").aints("shape", &[2, 3]).ai("dtype", onnx::DOUBLE as i64).io(0, 1).nondet().g(|_g| case(vec![], "unseeded")));
    for name in ["RandomNormalLike", "RandomUniformLike"] {
        v.push(e(&format!("{name}/seed"), name).af("seed", 5.0).dts(ALL).g(|g| {
            let s = g.shape(0, 3);
            case(vec![tt(g.t(g.dt, &s))], "seeded")
        }));
    }
    v.push(e("Dropout/seed", "Dropout").ai("seed", 7).io(3, 2).g(|g| {
        let s = g.shape(0, 3);
        let x = g.f_range(&s, -3.0, 3.0);
        match g.rng.below(3) {
            0 => case(vec![tt(x), In::None, In::None], "inference"),
            1 => case(vec![tt(x), tt(T::scalar_f(0.25)), tt(T::scalar_i(0))], "inference_ratio"),
            _ => case(vec![tt(x), tt(T::scalar_f(0.25)), tt(T::scalar_i(1))], "training"),
        }
    }));
    v.push(e("Multinomial/seed", "Multinomial").ai("sample_size", 3).af("seed", 2.0).g(|g| {
        let s = [1 + g.rng.below(2), 2 + g.rng.below(3)];
        case(vec![tt(g.f_range(&s, -1.0, 1.0))], "seeded")
    }));
    v.push(e("Multinomial/i64", "Multinomial").ai("sample_size", 2).ai("dtype", onnx::INT64 as i64).af("seed", 2.0).g(|g| {
        let s = [1 + g.rng.below(2), 2 + g.rng.below(3)];
        case(vec![tt(g.f_range(&s, -1.0, 1.0))], "seeded")
    }));
    // TransformInputs wrappers (what the Transpose fusion produces)
    let mk = |inner: super::OpArc, idx: usize, perm: Option<Vec<usize>>| -> super::OpArc {
        Arc::new(rops::TransformInputsBuilder::new().permute(idx, perm).build(inner))
    };
    v.push(e("TransformInputs(Sub)/t1", "TransformInputs(Sub)").io(2, 1).dts(FI).direct(mk(Arc::new(rops::Sub {}), 1, None)).g(|g| {
        let s = g.shape(2, 3);
        let rs: Vec<usize> = s.iter().rev().copied().collect();
        let a = g.t(g.dt, &s);
        let b = g.t(g.dt, &rs);
        case(vec![tt(a), tt(b)], "rev")
    }));
    v.push(e("TransformInputs(Add)/t1", "TransformInputs(Add)").io(2, 1).dts(FI).direct(mk(Arc::new(rops::Add {}), 1, Some(vec![1, 0]))).g(|g| {
        let s = g.shape(2, 2);
        let a = g.t(g.dt, &s);
        let b = g.t(g.dt, &[s[1], s[0]]);
        case(vec![tt(a), tt(b)], "perm10")
    }));
    v.push(e("TransformInputs(Add)/t0", "TransformInputs(Add)").io(2, 1).dts(FI).direct(mk(Arc::new(rops::Add {}), 0, Some(vec![1, 0]))).g(|g| {
        let s = g.shape(2, 2);
        let a = g.t(g.dt, &[s[1], s[0]]);
        let b = g.t(g.dt, &s);
        case(vec![tt(a), tt(b)], "perm10")
    }));
    v.push(e("TransformInputs(MatMul)/t1", "TransformInputs(MatMul)").num(1).io(2, 1).direct(mk(Arc::new(rops::MatMul {}), 1, None)).g(|g| {
        let (m, k, n) = (1 + g.rng.below(4), 1 + g.rng.below(5), 1 + g.rng.below(4));
        let a = g.f_range(&[m, k], -2.0, 2.0);
        let b = g.f_range(&[n, k], -2.0, 2.0);
        case(vec![tt(a), tt(b)], "bT")
    }));
    v.push(e("TransformInputs(MatMul)/t0", "TransformInputs(MatMul)").num(1).io(2, 1).direct(mk(Arc::new(rops::MatMul {}), 0, Some(vec![0, 2, 1]))).g(|g| {
        let (m, k, n) = (1 + g.rng.below(4), 1 + g.rng.below(5), 1 + g.rng.below(4));
        let a = g.f_range(&[2, k, m], -2.0, 2.0);
        let b = g.f_range(&[k, n], -2.0, 2.0);
        case(vec![tt(a), tt(b)], "aT_batched")
    }));
    v.push(e("TransformInputs(Concat)/t1", "TransformInputs(Concat)").io(2, 1).dts(FI).reserve(0).direct(mk(Arc::new(rops::Concat { axis: 0 }), 1, None)).g(|g| {
        let s = g.shape_max(2, 2, 24);
        let a = g.t(g.dt, &s);
        let shb_ = [s[1], 1 + g.rng.below(3)];
        let b = g.t(g.dt, &shb_);
        case(vec![tt(a), tt(b)], "second_T")
    }));
    v.push(e("TransformInputs(Expand)/t0", "TransformInputs(Expand)").io(2, 1).dts(FI).direct(mk(Arc::new(rops::Expand {}), 0, None)).g(|g| {
        let s = g.shape(2, 2);
        let a = g.t(g.dt, &[1, s[0]]);
        case(vec![tt(a), tt(T::ints(&[s[0] as i64, s[1] as i64]))], "col_bcast")
    }));
    v.push(e("TransformInputs(Slice)/t0", "TransformInputs(Slice)").io(4, 1).dts(FI).direct(mk(Arc::new(rops::Slice {}), 0, None)).g(|g| {
        let s = g.shape(2, 3);
        let a = g.t(g.dt, &s);
        let r = s.len();
        let d = s[0] as i64; // last dim after transposition
        case(vec![tt(a), tt(T::ints(&[g.rng.range(0, d - 1)])), tt(T::ints(&[d])), tt(T::ints(&[r as i64 - 1]))], "last_axis")
    }));
    v.push(e("TransformInputs(Split)/t0", "TransformInputs(Split)").io(2, 2).dts(FI).direct(mk(Arc::new(rops::Split { axis: 0, num_outputs: Some(2) }), 0, None)).g(|g| {
        let s = g.shape(2, 2);
        let sha_ = [s[0], 2 + g.rng.below(3)];
        let a = g.t(g.dt, &sha_);
        case(vec![tt(a), In::None], "axis0")
    }));
    let _ = Attr::Int(0);
}
