//! Catalogue part 3: the "threshold" sub-family of C14.  Every operator that
//! sits on a blocked / vectorised kernel (rten-gemm packing and micro-kernels,
//! im2col, SIMD reductions and softmax, transpose / copy tiles, pooling rows)
//! gets entries whose kernel-facing dimensions are drawn from around and beyond
//! the block sizes, while the remaining dimensions stay tiny.  Data is
//! integer-valued (G::exact), so sums of products are exact and the layout
//! relation is judged on the bits for the linear operators.
use std::sync::Arc;

use rten::verif::ops as rops;
use vcommon::onnx;

use super::catalogue::{Case, Entry, G, e};
use super::{DT, In, T};

/// Sizes around the register-tile widths (NR = 16 / 32, MR = 6 / 8 / 14), the
/// SIMD vector widths (4 / 8 / 16 lanes) and the cache-block sizes.
pub const THRESHOLD_DIMS: &[usize] = &[1, 2, 15, 16, 17, 31, 32, 33, 63, 64, 65, 96, 130];

fn td(g: &mut G) -> usize {
    *g.rng.pick(THRESHOLD_DIMS)
}
/// A threshold size of at least 2 * NR for every ISA (a second full column panel exists).
fn td_wide(g: &mut G) -> usize {
    *g.rng.pick(&[64usize, 65, 96, 130])
}
fn tiny(g: &mut G) -> usize {
    1 + g.rng.below(3)
}
fn case(inputs: Vec<In>, cls: String) -> Case {
    Case { inputs, cls }
}
fn tt(t: T) -> In {
    In::T(t)
}
/// (m, k, n): one or two of them threshold-sized, the product bounded.
fn mkn(g: &mut G) -> (usize, usize, usize) {
    loop {
        let m = *g.rng.pick(&[1usize, 2, 3, 7, 8, 9, 16, 17, 33]);
        let k = if g.rng.chance(1, 2) { tiny(g) + 1 } else { td(g) };
        let n = if g.rng.chance(2, 3) { td_wide(g) } else { td(g) };
        if m * k + k * n + m * n <= 12000 {
            return (m, k, n);
        }
    }
}
fn cls3(m: usize, k: usize, n: usize) -> String {
    format!("m={m},k={k},n={n}")
}
fn fdata(g: &mut G, s: &[usize]) -> T {
    g.f_range(s, -4.0, 4.0)
}

pub fn threshold(v: &mut Vec<Entry>) {
    // ---------------------------------------------------------------- rten-gemm users
    v.push(e("thr/MatMul", "MatMul").num(1).io(2, 1).thr().g(|g| {
        let (m, k, n) = mkn(g);
        let (sa, sb) = match g.rng.below(3) {
            0 => (vec![m, k], vec![k, n]),
            1 => (vec![2, m, k], vec![k, n]),
            _ => (vec![m, k], vec![2, k, n]),
        };
        let (a, b) = (fdata(g, &sa), fdata(g, &sb));
        case(vec![tt(a), tt(b)], cls3(m, k, n))
    }));
    for (ta, tb) in [(0i64, 0i64), (1, 0), (0, 1), (1, 1)] {
        v.push(e(&format!("thr/Gemm/tA={ta},tB={tb}"), "Gemm").num(1).ai("transA", ta).ai("transB", tb).af("alpha", 0.5).af("beta", 2.0).io(3, 1).thr().g(move |g| {
            let (m, k, n) = mkn(g);
            let sa = if ta == 1 { vec![k, m] } else { vec![m, k] };
            let sb = if tb == 1 { vec![n, k] } else { vec![k, n] };
            let (a, b) = (fdata(g, &sa), fdata(g, &sb));
            let c = match g.rng.below(3) {
                0 => In::None,
                1 => tt(fdata(g, &[n])),
                _ => tt(fdata(g, &[m, n])),
            };
            case(vec![tt(a), tt(b), c], cls3(m, k, n))
        }));
    }
    let mk = |inner: super::OpArc, idx: usize, perm: Option<Vec<usize>>| -> super::OpArc {
        Arc::new(rops::TransformInputsBuilder::new().permute(idx, perm).build(inner))
    };
    v.push(e("thr/TransformInputs(MatMul)/t1", "TransformInputs(MatMul)").num(1).io(2, 1).thr().direct(mk(Arc::new(rops::MatMul {}), 1, None)).g(|g| {
        let (m, k, n) = mkn(g);
        let (a, b) = (fdata(g, &[m, k]), fdata(g, &[n, k]));
        case(vec![tt(a), tt(b)], cls3(m, k, n))
    }));
    v.push(e("thr/TransformInputs(MatMul)/t0", "TransformInputs(MatMul)").num(1).io(2, 1).thr().direct(mk(Arc::new(rops::MatMul {}), 0, None)).g(|g| {
        let (m, k, n) = mkn(g);
        let (a, b) = (fdata(g, &[k, m]), fdata(g, &[k, n]));
        case(vec![tt(a), tt(b)], cls3(m, k, n))
    }));
    v.push(e("thr/MatMulInteger", "MatMulInteger").io(4, 1).dts(&[DT::U8, DT::I8]).thr().g(|g| {
        let (m, k, n) = mkn(g);
        let dta = g.dt;
        let dtb = if g.rng.chance(1, 2) { DT::I8 } else { DT::U8 };
        let a = g.t(dta, &[m, k]);
        let b = g.t(dtb, &[k, n]);
        let za = if g.rng.chance(1, 2) { tt(T::typed(dta, &[], &[3])) } else { In::None };
        let zb = if matches!(za, In::None) { In::None } else { tt(T::typed(dtb, &[], &[2])) };
        case(vec![tt(a), tt(b), za, zb], cls3(m, k, n))
    }));
    for eq in ["ij,jk->ik", "bij,bjk->bik", "ij,kj->ik"] {
        v.push(e(&format!("thr/Einsum/{eq}"), "Einsum").num(1).astr("equation", eq).io(2, 1).thr().g(move |g| {
            let (m, k, n) = mkn(g);
            let (sa, sb) = match eq {
                "ij,jk->ik" => (vec![m, k], vec![k, n]),
                "bij,bjk->bik" => (vec![2, m, k], vec![2, k, n]),
                _ => (vec![m, k], vec![n, k]),
            };
            let (a, b) = (fdata(g, &sa), fdata(g, &sb));
            case(vec![tt(a), tt(b)], cls3(m, k, n))
        }));
    }
    for acc in [0i64, 4] {
        v.push(e(&format!("thr/ms.MatMulNBits/acc={acc}"), "MatMulNBits").num(1).ms().ai("bits", 4).ai("block_size", 16).ai("K", 32).ai("N", 3).ai("accuracy_level", acc).io(3, 1).thr().g(|g| {
            let (m, n, bs) = (*g.rng.pick(&[1usize, 2, 7, 9, 17]), *g.rng.pick(&[15usize, 16, 17, 33, 65]), 16usize);
            let k = bs * (1 + g.rng.below(3));
            let a = fdata(g, &[m, k]);
            let b = g.t_with(DT::U8, &[n, k / bs, bs / 2], |g| g.rng.range(0, 255) as i32);
            let sc = g.t_with(DT::F32, &[n, k / bs], |g| (*g.rng.pick(&[0.5f32, 0.25, 1.0, 0.125])).to_bits() as i32);
            case(vec![tt(a), tt(b), tt(sc)], cls3(m, k, n))
        }));
    }
    // convolutions (im2col + gemm, depthwise and pointwise kernels)
    for (key, kk, grp) in [("thr/Conv/3x3", 3usize, 1usize), ("thr/Conv/1x1", 1, 1), ("thr/Conv/depthwise", 3, 0)] {
        let ks = [kk as i64, kk as i64];
        let mut b = e(key, "Conv").num(1).aints("kernel_shape", &ks).aints("pads", &[1, 1, 1, 1]).io(3, 1).thr();
        let cin_fixed = 3usize;
        if grp == 0 {
            b = b.ai("group", cin_fixed as i64);
        }
        v.push(b.g(move |g| {
            // either the output-channel count or the image width crosses the thresholds
            let wide_c = g.rng.chance(1, 2);
            let cout = if grp == 0 { cin_fixed } else if wide_c { *g.rng.pick(&[15usize, 16, 17, 33, 65]) } else { tiny(g) + 1 };
            let cin = if grp == 0 { cin_fixed } else { 1 + g.rng.below(3) };
            let w = if wide_c && grp != 0 { 3 + g.rng.below(3) } else { *g.rng.pick(&[15usize, 16, 17, 31, 33, 65]) };
            let h = 3 + g.rng.below(2);
            let x = fdata(g, &[1, cin, h, w]);
            let wt = fdata(g, &[cout, if grp == 0 { 1 } else { cin }, kk, kk]);
            let bias = if g.rng.chance(1, 2) { tt(fdata(g, &[cout])) } else { In::None };
            case(vec![tt(x), tt(wt), bias], format!("cout={cout},w={w}"))
        }));
    }
    v.push(e("thr/ConvTranspose", "ConvTranspose").num(1).aints("kernel_shape", &[3, 3]).aints("strides", &[2, 2]).io(3, 1).thr().g(|g| {
        let cout = *g.rng.pick(&[2usize, 15, 17, 33]);
        let w = *g.rng.pick(&[3usize, 8, 16, 17]);
        let x = fdata(g, &[1, 2, 3, w]);
        let wt = fdata(g, &[2, cout, 3, 3]);
        case(vec![tt(x), tt(wt), In::None], format!("cout={cout},w={w}"))
    }));
    v.push(e("thr/ConvInteger", "ConvInteger").aints("kernel_shape", &[3, 3]).io(4, 1).dts(&[DT::U8]).thr().g(|g| {
        let cout = *g.rng.pick(&[2usize, 15, 17, 33]);
        let w = *g.rng.pick(&[5usize, 17, 33, 65]);
        let x = g.t(DT::U8, &[1, 2, 4, w]);
        let wt = g.t(DT::I8, &[cout, 2, 3, 3]);
        case(vec![tt(x), tt(wt), In::None, In::None], format!("cout={cout},w={w}"))
    }));
    // attention-style and recurrent operators (gemm + non-linear maths: judged within the rounding bound)
    v.push(e("thr/Attention/4d", "Attention").num(2).io(6, 3).thr().g(|g| {
        let (qs, ks, hd) = (*g.rng.pick(&[1usize, 2, 15, 17, 33]), *g.rng.pick(&[15usize, 16, 17, 33, 65]), *g.rng.pick(&[4usize, 16, 17, 32]));
        let q = fdata(g, &[1, 2, qs, hd]);
        let k = fdata(g, &[1, 1, ks, hd]);
        let val = fdata(g, &[1, 1, ks, hd]);
        case(vec![tt(q), tt(k), tt(val), In::None, In::None, In::None], format!("q={qs},kv={ks},hd={hd}"))
    }));
    v.push(e("thr/ms.MultiHeadAttention", "MultiHeadAttention").num(2).ms().ai("num_heads", 2).io(8, 3).thr().g(|g| {
        let (s, ks, hd) = (*g.rng.pick(&[1usize, 2, 17, 33]), *g.rng.pick(&[15usize, 17, 33, 65]), *g.rng.pick(&[4usize, 16, 17]));
        let q = fdata(g, &[1, s, 2 * hd]);
        let k = fdata(g, &[1, ks, 2 * hd]);
        let val = fdata(g, &[1, ks, 2 * hd]);
        case(vec![tt(q), tt(k), tt(val), In::None, In::None, In::None, In::None, In::None], format!("q={s},kv={ks},hd={hd}"))
    }));
    for hidden in [16usize, 17, 33] {
        v.push(e(&format!("thr/LSTM/h={hidden}"), "LSTM").num(2).ai("hidden_size", hidden as i64).io(7, 3).thr().g(move |g| {
            let (seq, batch, inp) = (1 + g.rng.below(2), *g.rng.pick(&[1usize, 2, 9]), *g.rng.pick(&[2usize, 16, 17, 33]));
            let x = g.f_range(&[seq, batch, inp], -1.0, 1.0);
            let w = g.f_range(&[1, 4 * hidden, inp], -1.0, 1.0);
            let r = g.f_range(&[1, 4 * hidden, hidden], -1.0, 1.0);
            case(vec![tt(x), tt(w), tt(r), In::None, In::None, In::None, In::None], format!("h={hidden},in={inp},b={batch}"))
        }));
        v.push(e(&format!("thr/GRU/h={hidden}"), "GRU").num(2).ai("hidden_size", hidden as i64).ai("linear_before_reset", 1).io(6, 2).thr().g(move |g| {
            let (seq, batch, inp) = (1 + g.rng.below(2), *g.rng.pick(&[1usize, 2, 9]), *g.rng.pick(&[2usize, 16, 17, 33]));
            let x = g.f_range(&[seq, batch, inp], -1.0, 1.0);
            let w = g.f_range(&[1, 3 * hidden, inp], -1.0, 1.0);
            let r = g.f_range(&[1, 3 * hidden, hidden], -1.0, 1.0);
            case(vec![tt(x), tt(w), tt(r), In::None, In::None, In::None], format!("h={hidden},in={inp},b={batch}"))
        }));
    }
    // ---------------------------------------------------------------- vectorised rows / lanes
    // shape with the innermost (and sometimes another) axis at a threshold size
    fn lane_shape(g: &mut G) -> Vec<usize> {
        loop {
            let r = 1 + g.rng.below(3);
            let mut s: Vec<usize> = (0..r).map(|_| tiny(g)).collect();
            s[r - 1] = td(g);
            if r > 1 && g.rng.chance(1, 3) {
                s[0] = td(g);
            }
            if s.iter().product::<usize>() <= 9000 {
                return s;
            }
        }
    }
    for (name, dts) in [("Relu", &[DT::F32][..]), ("Exp", &[DT::F32]), ("Sigmoid", &[DT::F32]), ("Tanh", &[DT::F32]), ("Erf", &[DT::F32]), ("Abs", &[DT::F32, DT::I32]), ("Gelu", &[DT::F32]), ("Identity", &[DT::F32, DT::I32, DT::I8, DT::U8])] {
        v.push(e(&format!("thr/{name}"), name).dts(dts).thr().g(|g| {
            let s = lane_shape(g);
            let cls = format!("{s:?}");
            case(vec![tt(g.t(g.dt, &s))], cls)
        }));
    }
    for name in ["Add", "Mul", "Sub", "Greater", "Where"] {
        let three = name == "Where";
        v.push(e(&format!("thr/{name}"), name).io(if three { 3 } else { 2 }, 1).dts(&[DT::F32, DT::I32]).thr().g(move |g| {
            let s = lane_shape(g);
            let rel = g.rng.below(4);
            let sb = match rel {
                0 => s.clone(),
                1 => vec![*s.last().unwrap()],
                2 => {
                    let mut o = s.clone();
                    *o.last_mut().unwrap() = 1;
                    o
                }
                _ => vec![],
            };
            let cls = format!("{s:?}x{sb:?}");
            let a = g.t(g.dt, &s);
            let b = g.t(g.dt, &sb);
            if three {
                let c = g.bools(&s);
                case(vec![tt(c), tt(a), tt(b)], cls)
            } else {
                case(vec![tt(a), tt(b)], cls)
            }
        }));
    }
    for axis in [-1i64, 0] {
        for name in ["Softmax", "LogSoftmax"] {
            v.push(e(&format!("thr/{name}/axis={axis}"), name).ai("axis", axis).thr().g(|g| {
                let s = lane_shape(g);
                let cls = format!("{s:?}");
                case(vec![tt(g.f_range(&s, -4.0, 4.0))], cls)
            }));
        }
    }
    for name in ["ReduceSum", "ReduceMax", "ReduceMean", "ReduceL2", "ReduceProd"] {
        v.push(e(&format!("thr/{name}"), name).ai("keepdims", 0).io(2, 1).thr().g(|g| {
            let s = lane_shape(g);
            let r = s.len() as i64;
            let axes = match g.rng.below(3) {
                0 => tt(T::ints(&[r - 1])),
                1 => tt(T::ints(&[0])),
                _ => In::None,
            };
            let cls = format!("{s:?}");
            // ReduceProd: keep magnitudes at 1 so products stay exact
            let t = g.f_range(&s, -1.0, 1.0);
            case(vec![tt(t), axes], cls)
        }));
    }
    for name in ["ArgMax", "ArgMin"] {
        v.push(e(&format!("thr/{name}"), name).ai("axis", -1).ai("keepdims", 0).thr().g(|g| {
            let s = lane_shape(g);
            let cls = format!("{s:?}");
            case(vec![tt(g.t(DT::F32, &s))], cls)
        }));
    }
    v.push(e("thr/LayerNormalization", "LayerNormalization").ai("axis", -1).io(3, 1).thr().g(|g| {
        let s = lane_shape(g);
        let n = *s.last().unwrap();
        let cls = format!("{s:?}");
        let (x, sc, b) = (g.f_range(&s, -4.0, 4.0), g.f_range(&[n], 1.0, 2.0), g.f_range(&[n], -1.0, 1.0));
        case(vec![tt(x), tt(sc), tt(b)], cls)
    }));
    v.push(e("thr/RMSNormalization", "RMSNormalization").ai("axis", -1).io(2, 1).thr().g(|g| {
        let s = lane_shape(g);
        let n = *s.last().unwrap();
        let cls = format!("{s:?}");
        let (x, sc) = (g.f_range(&s, -4.0, 4.0), g.f_range(&[n], 1.0, 2.0));
        case(vec![tt(x), tt(sc)], cls)
    }));
    v.push(e("thr/BatchNormalization", "BatchNormalization").io(5, 1).thr().g(|g| {
        let (c, w) = (*g.rng.pick(&[1usize, 3, 17]), *g.rng.pick(&[15usize, 16, 17, 33, 65]));
        let x = g.f_range(&[1, c, 2, w], -4.0, 4.0);
        let (sc, b, m, var) = (g.f_range(&[c], 1.0, 2.0), g.f_range(&[c], -1.0, 1.0), g.f_range(&[c], -1.0, 1.0), g.f_range(&[c], 1.0, 3.0));
        case(vec![tt(x), tt(sc), tt(b), tt(m), tt(var)], format!("c={c},w={w}"))
    }));
    // pooling rows
    for (name, k) in [("MaxPool", 2i64), ("AveragePool", 3)] {
        v.push(e(&format!("thr/{name}"), name).aints("kernel_shape", &[k, k]).aints("strides", &[1, 1]).aints("pads", &[1, 1, 1, 1]).thr().g(|g| {
            let (c, w) = (*g.rng.pick(&[1usize, 2, 9, 17]), *g.rng.pick(&[15usize, 16, 17, 33, 65]));
            let x = g.f_range(&[1, c, 4, w], -4.0, 4.0);
            case(vec![tt(x)], format!("c={c},w={w}"))
        }));
    }
    for name in ["GlobalAveragePool", "GlobalMaxPool"] {
        v.push(e(&format!("thr/{name}"), name).thr().g(|g| {
            let (c, w) = (*g.rng.pick(&[1usize, 2, 9, 17]), *g.rng.pick(&[15usize, 16, 17, 33, 65]));
            let x = g.f_range(&[1, c, 3, w], -4.0, 4.0);
            case(vec![tt(x)], format!("c={c},w={w}"))
        }));
    }
    // ---------------------------------------------------------------- copy / transpose tiles
    v.push(e("thr/Transpose", "Transpose").dts(&[DT::F32, DT::I32, DT::U8]).thr().g(|g| {
        let s = loop {
            let s = vec![td(g), td(g)];
            if s[0] * s[1] <= 9000 {
                break s;
            }
        };
        let cls = format!("{s:?}");
        case(vec![tt(g.t(g.dt, &s))], cls)
    }));
    v.push(e("thr/Transpose/perm=0,2,1,3", "Transpose").aints("perm", &[0, 2, 1, 3]).dts(&[DT::F32, DT::I32]).thr().g(|g| {
        let s = loop {
            let s = vec![tiny(g), td(g), tiny(g) + 1, td(g)];
            if s.iter().product::<usize>() <= 9000 {
                break s;
            }
        };
        let cls = format!("{s:?}");
        case(vec![tt(g.t(g.dt, &s))], cls)
    }));
    v.push(e("thr/Concat/axis=-1", "Concat").ai("axis", -1).io(2, 1).dts(&[DT::F32, DT::I32]).thr().g(|g| {
        let (r, a, b) = (tiny(g), td(g), td(g));
        let cls = format!("{r}x({a}+{b})");
        let (x, y) = (g.t(g.dt, &[r, a]), g.t(g.dt, &[r, b]));
        case(vec![tt(x), tt(y)], cls)
    }));
    v.push(e("thr/Expand", "Expand").io(2, 1).dts(&[DT::F32, DT::I32]).thr().g(|g| {
        let (r, n) = (1 + g.rng.below(4), td(g));
        let (si, target): (Vec<usize>, Vec<usize>) = if g.rng.chance(1, 2) { (vec![1, n], vec![r, n]) } else { (vec![r, 1], vec![r, n]) };
        let cls = format!("{si:?}->{target:?}");
        let x = g.t(g.dt, &si);
        case(vec![tt(x), tt(T::ints(&target.iter().map(|d| *d as i64).collect::<Vec<_>>()))], cls)
    }));
    v.push(e("thr/Gather/axis=0", "Gather").ai("axis", 0).io(2, 1).dts(&[DT::F32, DT::I32]).thr().g(|g| {
        let (rows, n) = (2 + g.rng.below(4), td(g));
        let ni = 1 + g.rng.below(4);
        let idx = g.i_range(&[ni], 0, rows as i64 - 1);
        let cls = format!("[{rows},{n}]");
        let x = g.t(g.dt, &[rows, n]);
        case(vec![tt(x), tt(idx)], cls)
    }));
    v.push(e("thr/Cast/to=i32", "Cast").ai("to", onnx::INT32 as i64).dts(&[DT::F32, DT::U8]).thr().g(|g| {
        let s = lane_shape(g);
        let cls = format!("{s:?}");
        case(vec![tt(g.t(g.dt, &s))], cls)
    }));
    v.push(e("thr/QuantizeLinear", "QuantizeLinear").ai("axis", 1).io(3, 1).thr().g(|g| {
        let (r, n) = (tiny(g), td(g));
        let x = g.f_range(&[r, n], -40.0, 40.0);
        let cls = format!("[{r},{n}]");
        case(vec![tt(x), tt(T::scalar_f(0.5)), tt(T::typed(DT::U8, &[], &[3]))], cls)
    }));
    v.push(e("thr/DequantizeLinear", "DequantizeLinear").ai("axis", 1).io(3, 1).dts(&[DT::U8, DT::I8]).thr().g(|g| {
        let (r, n) = (tiny(g), td(g));
        let dt = g.dt;
        let x = g.t(dt, &[r, n]);
        let cls = format!("[{r},{n}]");
        case(vec![tt(x), tt(T::scalar_f(0.5)), tt(T::typed(dt, &[], &[3]))], cls)
    }));
    partial_broadcast(v);
}

/// Make `t` constant along a non-empty *proper* subset of its first `nbatch`
/// dims (all of size >= 2), so that the broadcast layout class materialises it
/// as a partial broadcast view: stride 0 on some batch dims, distinct matrices /
/// rows along the others.
fn const_along_some_batch_dims(g: &mut G, t: &mut T, nbatch: usize) -> String {
    let m = 1 + g.rng.below((1usize << nbatch) - 2); // 1 ..= 2^nbatch - 2
    let mut tag = String::new();
    for d in 0..nbatch {
        if m & (1 << d) != 0 {
            t.make_const_along(d);
            tag.push('0');
        } else {
            tag.push('s');
        }
    }
    tag
}
fn bdim(g: &mut G) -> usize {
    2 + g.rng.below(2)
}

/// "thr/bat/..." entries: rank >= 4 operands of every operator with batch
/// semantics, constant along a proper subset of the batch dims.
fn partial_broadcast(v: &mut Vec<Entry>) {
    // which operand(s) get the partially constant content: 0 = first, 1 = second, 2 = both
    fn pick_sides(g: &mut G) -> (bool, bool) {
        match g.rng.below(3) {
            0 => (true, false),
            1 => (false, true),
            _ => (true, true),
        }
    }
    for (key, op, eq) in [("thr/bat/MatMul", "MatMul", ""), ("thr/bat/Einsum", "Einsum", "abij,abjk->abik"), ("thr/bat/Einsum/bT", "Einsum", "abij,abkj->abik")] {
        let mut b = e(key, op).num(1).io(2, 1).thr();
        if !eq.is_empty() {
            b = b.astr("equation", eq);
        }
        let bt = eq.ends_with("abkj->abik");
        v.push(b.g(move |g| {
            let (b1, b2, m, k, n) = (bdim(g), bdim(g), 2 + g.rng.below(3), 1 + g.rng.below(4), *g.rng.pick(&[1usize, 3, 17]));
            let mut a = fdata(g, &[b1, b2, m, k]);
            let sb = if bt { vec![b1, b2, n, k] } else { vec![b1, b2, k, n] };
            let mut bb = fdata(g, &sb);
            let (ca, cb) = pick_sides(g);
            let ta = if ca { const_along_some_batch_dims(g, &mut a, 2) } else { "ss".into() };
            let tb = if cb { const_along_some_batch_dims(g, &mut bb, 2) } else { "ss".into() };
            case(vec![tt(a), tt(bb)], format!("a={ta},b={tb}"))
        }));
    }
    v.push(e("thr/bat/MatMul/rank5", "MatMul").num(1).io(2, 1).thr().g(|g| {
        let (m, k, n) = (2 + g.rng.below(2), 1 + g.rng.below(3), 1 + g.rng.below(3));
        let mut a = fdata(g, &[2, 2, 2, m, k]);
        let bb = fdata(g, &[2, 2, 2, k, n]);
        let ta = const_along_some_batch_dims(g, &mut a, 3);
        case(vec![tt(a), tt(bb)], format!("a={ta}"))
    }));
    v.push(e("thr/bat/MatMulInteger", "MatMulInteger").io(4, 1).dts(&[DT::U8, DT::I8]).thr().g(|g| {
        let (b1, b2, m, k, n) = (bdim(g), bdim(g), 2 + g.rng.below(3), 1 + g.rng.below(4), 1 + g.rng.below(4));
        let dta = g.dt;
        let mut a = g.t_with(dta, &[b1, b2, m, k], |g| g.rng.range(0, 9) as i32);
        let mut bb = g.t_with(DT::I8, &[b1, b2, k, n], |g| g.rng.range(-5, 5) as i32);
        let (ca, cb) = pick_sides(g);
        let ta = if ca { const_along_some_batch_dims(g, &mut a, 2) } else { "ss".into() };
        let tb = if cb { const_along_some_batch_dims(g, &mut bb, 2) } else { "ss".into() };
        case(vec![tt(a), tt(bb), In::None, In::None], format!("a={ta},b={tb}"))
    }));
    v.push(e("thr/bat/ms.MatMulNBits", "MatMulNBits").num(1).ms().ai("bits", 4).ai("block_size", 16).ai("K", 16).ai("N", 3).io(3, 1).thr().g(|g| {
        let (b1, b2, m, n, bs, k) = (bdim(g), bdim(g), 2 + g.rng.below(2), 3usize, 16usize, 16usize);
        let mut a = fdata(g, &[b1, b2, m, k]);
        let ta = const_along_some_batch_dims(g, &mut a, 2);
        let b = g.t_with(DT::U8, &[n, k / bs, bs / 2], |g| g.rng.range(0, 255) as i32);
        let sc = g.t_with(DT::F32, &[n, k / bs], |g| (*g.rng.pick(&[0.5f32, 0.25, 1.0])).to_bits() as i32);
        case(vec![tt(a), tt(b), tt(sc)], format!("a={ta}"))
    }));
    v.push(e("thr/bat/Attention", "Attention").num(2).io(6, 3).thr().g(|g| {
        let (b, h, qs, ks, hd) = (bdim(g), 2usize, 1 + g.rng.below(3), 1 + g.rng.below(3), 2 + g.rng.below(3));
        let mut q = fdata(g, &[b, h, qs, hd]);
        let mut k = fdata(g, &[b, h, ks, hd]);
        let mut val = fdata(g, &[b, h, ks, hd]);
        let mut tags = vec![];
        for t in [&mut q, &mut k, &mut val] {
            tags.push(if g.rng.chance(1, 2) { const_along_some_batch_dims(g, t, 2) } else { "ss".into() });
        }
        case(vec![tt(q), tt(k), tt(val), In::None, In::None, In::None], tags.join(","))
    }));
    // rank-4 data operand, constant along a proper subset of its two leading dims
    fn data4(g: &mut G, dt: DT) -> (T, String) {
        let s = [bdim(g), bdim(g), 2 + g.rng.below(3), 2 + g.rng.below(4)];
        let mut t = if dt == DT::F32 { fdata(g, &s) } else { g.i_range(&s, -4, 4) };
        let tag = const_along_some_batch_dims(g, &mut t, 2);
        (t, tag)
    }
    for name in ["Add", "Mul", "Sub", "Div", "Greater", "Equal"] {
        v.push(e(&format!("thr/bat/{name}"), name).io(2, 1).dts(&[DT::F32, DT::I32]).thr().g(move |g| {
            let (a, ta) = data4(g, g.dt);
            let mut b = if g.dt == DT::F32 { g.f_range(&a.shape, 1.0, 4.0) } else { g.i_range(&a.shape, 1, 4) };
            let tb = if g.rng.chance(1, 2) { const_along_some_batch_dims(g, &mut b, 2) } else { "ss".into() };
            case(vec![tt(a), tt(b)], format!("a={ta},b={tb}"))
        }));
    }
    v.push(e("thr/bat/Where", "Where").io(3, 1).dts(&[DT::F32, DT::I32]).thr().g(|g| {
        let (x, tx) = data4(g, g.dt);
        let mut c = g.bools(&x.shape);
        let tc = const_along_some_batch_dims(g, &mut c, 2);
        let y = if g.dt == DT::F32 { fdata(g, &x.shape) } else { g.i_range(&x.shape, -4, 4) };
        case(vec![tt(c), tt(x), tt(y)], format!("c={tc},x={tx}"))
    }));
    for (key, op) in [
        ("thr/bat/Relu", "Relu"), ("thr/bat/Identity", "Identity"), ("thr/bat/Transpose", "Transpose"),
        ("thr/bat/GlobalAveragePool", "GlobalAveragePool"), ("thr/bat/GlobalMaxPool", "GlobalMaxPool"), ("thr/bat/Flatten", "Flatten"),
    ] {
        v.push(e(key, op).thr().g(|g| {
            let (x, t) = data4(g, DT::F32);
            case(vec![tt(x)], format!("x={t}"))
        }));
    }
    for (key, op, axis) in [("thr/bat/Softmax", "Softmax", -1i64), ("thr/bat/Softmax/axis=1", "Softmax", 1), ("thr/bat/LogSoftmax", "LogSoftmax", -1)] {
        v.push(e(key, op).ai("axis", axis).thr().g(|g| {
            let (x, t) = data4(g, DT::F32);
            case(vec![tt(x)], format!("x={t}"))
        }));
    }
    for name in ["ReduceSum", "ReduceMax", "ReduceMean"] {
        v.push(e(&format!("thr/bat/{name}"), name).ai("keepdims", 0).io(2, 1).thr().g(|g| {
            let (x, t) = data4(g, DT::F32);
            let axes = match g.rng.below(4) {
                0 => tt(T::ints(&[3])),
                1 => tt(T::ints(&[0])),
                2 => tt(T::ints(&[1, 2])),
                _ => In::None,
            };
            case(vec![tt(x), axes], format!("x={t}"))
        }));
    }
    v.push(e("thr/bat/LayerNormalization", "LayerNormalization").ai("axis", -1).io(3, 1).thr().g(|g| {
        let (x, t) = data4(g, DT::F32);
        let n = x.shape[3];
        let (sc, b) = (g.f_range(&[n], 1.0, 2.0), g.f_range(&[n], -1.0, 1.0));
        case(vec![tt(x), tt(sc), tt(b)], format!("x={t}"))
    }));
    v.push(e("thr/bat/BatchNormalization", "BatchNormalization").io(5, 1).thr().g(|g| {
        let (x, t) = data4(g, DT::F32);
        let c = x.shape[1];
        let (sc, b, m, var) = (g.f_range(&[c], 1.0, 2.0), g.f_range(&[c], -1.0, 1.0), g.f_range(&[c], -1.0, 1.0), g.f_range(&[c], 1.0, 3.0));
        case(vec![tt(x), tt(sc), tt(b), tt(m), tt(var)], format!("x={t}"))
    }));
    v.push(e("thr/bat/Conv", "Conv").num(1).aints("kernel_shape", &[2, 2]).io(3, 1).thr().g(|g| {
        let (x, t) = data4(g, DT::F32);
        let cin = x.shape[1];
        let w = fdata(g, &[2, cin, 2, 2]);
        case(vec![tt(x), tt(w), In::None], format!("x={t}"))
    }));
    for (name, k) in [("MaxPool", 2i64), ("AveragePool", 2)] {
        v.push(e(&format!("thr/bat/{name}"), name).aints("kernel_shape", &[k, k]).aints("strides", &[1, 1]).thr().g(|g| {
            let (x, t) = data4(g, DT::F32);
            case(vec![tt(x)], format!("x={t}"))
        }));
    }
    v.push(e("thr/bat/Concat/axis=1", "Concat").ai("axis", 1).io(2, 1).thr().g(|g| {
        let (x, t) = data4(g, DT::F32);
        let mut s = x.shape.clone();
        s[1] = 1 + g.rng.below(2);
        let y = fdata(g, &s);
        case(vec![tt(x), tt(y)], format!("x={t}"))
    }));
    v.push(e("thr/bat/Gather/axis=1", "Gather").ai("axis", 1).io(2, 1).thr().g(|g| {
        let (x, t) = data4(g, DT::F32);
        let d = x.shape[1] as i64;
        let idx = g.i_range(&[2], 0, d - 1);
        case(vec![tt(x), tt(idx)], format!("x={t}"))
    }));
    v.push(e("thr/bat/Slice", "Slice").io(4, 1).thr().g(|g| {
        let (x, t) = data4(g, DT::F32);
        case(vec![tt(x), tt(T::ints(&[1])), tt(T::ints(&[i32::MAX as i64])), tt(T::ints(&[2]))], format!("x={t}"))
    }));
}
