//! C13 engine: normal vs in-place vs commuted execution of every catalogue
//! operator that declares in-place inputs or commutativity.
//!
//! The in-place calls reproduce the calling convention of the executor
//! (`Graph::run_plan` in src/graph.rs):
//!  * non-commutative operator: *all* designated inputs that are connected are
//!    taken as owned values (or none is); commutative operator: exactly one
//!    input is taken, and it may be at any position (the executor picks the
//!    largest owned input, whatever the size of the non-owned ones);
//!  * the taken inputs are passed as `InPlaceInputs` `(position, value)`;
//!    the `InputList` has a `None` placeholder at each taken position;
//!  * owned values are passed with whatever layout they have (outputs of
//!    earlier operators may be non-contiguous, pool buffers have spare capacity).

use rten::verif::{Operator, Value};
use vcommon::{Rng, Trace, Value as J, json};

use super::catalogue::{Case, Entry, G, catalogue};
use super::{DT, In, Mat, Outcome, T, dist_q, exact_inputs, owned_value, run_in_place, run_normal};

pub const OWNED_CLASSES: &[&str] = &["exact", "spare", "permuted", "gapped", "reserved"];

#[allow(clippy::too_many_arguments)]
fn emit_run(
    tr: &mut Trace,
    id: u64,
    mode: &str,
    taken: &[usize],
    owned: &str,
    lays: Vec<J>,
    out: &Outcome,
    reference: Option<&Outcome>,
) {
    let dist = reference.map(|n| dist_q(n, out)).unwrap_or(0);
    tr.emit(json!({
        "ev": "run", "id": id, "mode": mode, "taken": taken, "owned": owned, "lay": lays, "laycls": "",
        "outcome": out.kind, "err": out.err, "dist": dist, "outputs": out.outputs_json(),
    }));
}

/// Positions the executor may take for in-place execution, one entry per
/// distinct calling convention.
pub fn taken_sets(op: &dyn Operator, inputs: &[In]) -> Vec<Vec<usize>> {
    let designated: Vec<usize> = op.in_place_inputs().iter().map(|i| i as usize).collect();
    if designated.is_empty() {
        return vec![];
    }
    let present = |p: usize| p < inputs.len() && !matches!(inputs[p], In::None);
    if op.is_commutative() {
        (0..inputs.len()).filter(|p| present(*p)).map(|p| vec![p]).collect()
    } else {
        let set: Vec<usize> = designated.into_iter().filter(|p| present(*p)).collect();
        if set.is_empty() { vec![] } else { vec![set] }
    }
}

/// "1011": which input positions are connected.
pub fn present_mask(inputs: &[In]) -> String {
    inputs.iter().map(|i| if matches!(i, In::None) { '0' } else { '1' }).collect()
}

/// "nonfinite" when a float input holds an infinity or a NaN, else "finite".
pub fn value_class(inputs: &[In]) -> &'static str {
    let nf = |t: &T| t.dt == DT::F32 && t.vals.iter().any(|b| !f32::from_bits(*b as u32).is_finite());
    let any = inputs.iter().any(|i| match i {
        In::T(t) => nf(t),
        In::Seq(_, items) => items.iter().any(nf),
        In::None => false,
    });
    if any { "nonfinite" } else { "finite" }
}

/// Extreme float values every in-place capable float operator must treat the
/// same way on both paths.  NaN is the canonical quiet NaN; the contract
/// compares NaNs as "both NaN" (payload propagation is not part of C13).
pub const EXTREME_F32: [u32; 12] = [
    0x7f80_0000, // +inf
    0xff80_0000, // -inf
    0x7fc0_0000, // NaN
    0x0000_0000, // +0
    0x8000_0000, // -0
    0x7f7f_ffff, // f32::MAX
    0xff7f_ffff, // f32::MIN
    0x0080_0000, // smallest normal
    0x0000_0001, // smallest subnormal
    0x8000_0123, // negative subnormal
    0x3f80_0000, // 1
    0xbf80_0000, // -1
];

/// Overwrite some elements of the float tensors with values of EXTREME_F32,
/// rotating through the pool with `rot` so that successive cases cover it.
/// The inputs an operator modifies in place always receive them; other float
/// inputs one time in three.
pub fn inject_extremes(inputs: &mut [In], designated: &[usize], commutative: bool, rot: usize, all_nonfinite: bool, rng: &mut Rng) {
    let mut next = rot;
    for (p, inp) in inputs.iter_mut().enumerate() {
        let In::T(t) = inp else { continue };
        if t.dt != DT::F32 || t.vals.is_empty() {
            continue;
        }
        let target = designated.contains(&p) || commutative;
        if !target && !rng.chance(1, 3) {
            continue;
        }
        let n = t.vals.len().min(8);
        let mut pos: Vec<usize> = (0..t.vals.len()).collect();
        rng.shuffle(&mut pos);
        for (j, &q) in pos.iter().take(n).enumerate() {
            // with `all_nonfinite`, tensors of >= 4 elements get +inf, -inf and NaN for sure
            t.vals[q] = if all_nonfinite && t.vals.len() >= 4 && j < 3 {
                EXTREME_F32[j] as i32
            } else {
                next += 1;
                EXTREME_F32[(next - 1) % EXTREME_F32.len()] as i32
            };
        }
    }
}

/// Sub-patterns of connected inputs obtained by disconnecting inputs the
/// operator may treat as optional: every subset of the connected positions
/// other than position 0 and the in-place positions (all subsets when there
/// are at most 4 such positions, otherwise singles, pairs and "all").
/// Whether the operator accepts a pattern is found out by running it.
pub fn omission_patterns(inputs: &[In], designated: &[usize]) -> Vec<Vec<usize>> {
    let cand: Vec<usize> = (1..inputs.len())
        .filter(|p| !matches!(inputs[*p], In::None) && !designated.contains(p))
        .collect();
    let mut out: Vec<Vec<usize>> = Vec::new();
    if cand.len() <= 4 {
        for m in 1u32..(1 << cand.len()) {
            out.push(cand.iter().enumerate().filter(|(i, _)| m & (1 << i) != 0).map(|(_, p)| *p).collect());
        }
    } else {
        for (i, a) in cand.iter().enumerate() {
            out.push(vec![*a]);
            for b in &cand[i + 1..] {
                out.push(vec![*a, *b]);
            }
        }
        out.push(cand.clone());
    }
    out
}

#[allow(clippy::too_many_arguments)]
pub fn run_case(
    tr: &mut Trace,
    id: u64,
    en: &Entry,
    op: &dyn Operator,
    dt: DT,
    case: &Case,
    special: bool,
    rng: &mut Rng,
    all_classes: bool,
) {
    let inputs = &case.inputs;
    let designated: Vec<usize> = op.in_place_inputs().iter().map(|i| i as usize).collect();
    tr.emit(json!({
        "ev": "case", "prop": "C13", "id": id, "key": en.key, "op": op.name(), "dt": dt.name(),
        "cls": case.cls, "special": special, "commutative": op.is_commutative(),
        "in_place": designated, "n_out": en.n_out, "num": en.num, "exact": exact_inputs(inputs),
        "present": present_mask(inputs), "vals": value_class(inputs),
        "inputs": inputs.iter().map(|i| i.json()).collect::<Vec<_>>(),
    }));
    tr.flush();
    let mats: Vec<Mat> = inputs.iter().map(|i| Mat::new(i, None)).collect();
    let views: Vec<_> = mats.iter().map(|m| m.view()).collect();
    let normal = run_normal(op, &views, en.n_out);
    emit_run(tr, id, "normal", &[], "", vec![], &normal, None);

    for set in taken_sets(op, inputs) {
        let mut classes: Vec<&str> = if all_classes {
            OWNED_CLASSES.to_vec()
        } else {
            let mut c = vec!["exact", "spare"];
            c.push(*rng.pick(&["permuted", "gapped", "reserved"]));
            c
        };
        if set.iter().any(|p| matches!(inputs[*p], In::Seq(..))) {
            classes = vec!["exact"];
        }
        for class in classes {
            // spare capacity: enough for everything Concat could append, sometimes less
            let others: usize = inputs
                .iter()
                .enumerate()
                .filter(|(p, _)| !set.contains(p))
                .map(|(_, i)| match i {
                    In::T(t) => t.numel(),
                    _ => 0,
                })
                .sum();
            let spare = match rng.below(3) {
                0 => others.max(1),
                1 => others + 1 + rng.below(4),
                _ => 1 + rng.below(3),
            };
            let mut taken: Vec<(usize, Value)> = Vec::new();
            let mut lays = Vec::new();
            let mut ok = true;
            for &p in &set {
                let axis_hint = en.reserve_axis.and_then(|a| match &inputs[p] {
                    In::T(t) => {
                        let r = t.shape.len() as i64;
                        let a = if a < 0 { a + r } else { a };
                        (a >= 0 && a < r).then_some(a as usize)
                    }
                    _ => None,
                });
                // rows to reserve along the axis: enough for the other inputs, or one short
                let rows = match (&inputs[p], axis_hint) {
                    (In::T(_), Some(ax)) => {
                        let need: usize = inputs
                            .iter()
                            .enumerate()
                            .filter(|(q, _)| !set.contains(q))
                            .map(|(_, i)| match i {
                                In::T(t) if ax < t.shape.len() => t.shape[ax],
                                _ => 0,
                            })
                            .sum();
                        match rng.below(3) {
                            0 => need.max(1),
                            1 => need + 1,
                            _ => need.saturating_sub(1).max(1),
                        }
                    }
                    _ => spare,
                };
                let sp = if class == "reserved" { rows } else { spare };
                match owned_value(&inputs[p], class, rng, axis_hint, sp) {
                    Some((v, lay)) => {
                        taken.push((p, v));
                        lays.push(lay);
                    }
                    None => {
                        ok = false;
                        break;
                    }
                }
            }
            if !ok {
                continue;
            }
            let views_ip: Vec<_> = mats
                .iter()
                .enumerate()
                .map(|(p, m)| if set.contains(&p) { None } else { m.view() })
                .collect();
            let out = run_in_place(op, taken, &views_ip, en.n_out);
            emit_run(tr, id, "inplace", &set, class, lays, &out, Some(&normal));
        }
    }

    // Operands swapped, as `run` sees them when the executor (or a caller relying
    // on `is_commutative`) reorders the inputs.
    if op.is_commutative() {
        let present: Vec<usize> = (0..inputs.len())
            .filter(|p| !matches!(inputs[*p], In::None))
            .collect();
        if present.len() == 2 {
            let mut sw: Vec<_> = views.clone();
            sw.swap(present[0], present[1]);
            let out = run_normal(op, &sw, en.n_out);
            emit_run(tr, id, "commuted", &[], "", vec![], &out, Some(&normal));
        }
    }
}

pub fn main() -> i32 {
    let out = vcommon::arg_or("--out", "-");
    let cases = vcommon::arg_usize("--cases", 20);
    let only = vcommon::arg("--only");
    let all_classes = std::env::args().any(|a| a == "--all-classes");
    let big = std::env::args().any(|a| a == "--big");
    let per_pattern = vcommon::arg_usize("--per-pattern", 6);
    let mut tr = Trace::create(&out);
    let mut rng = Rng::from_env();
    let cat = catalogue();

    if let Some(cj) = vcommon::arg("--only-case") {
        // replay of a single recorded case: same inputs, every owned class, several layout draws
        let c: J = serde_json::from_str(&cj).expect("case json");
        let key = c["key"].as_str().unwrap_or("");
        let Some(en) = cat.iter().find(|e| e.key == key) else {
            eprintln!("unknown catalogue key {key}");
            return 2;
        };
        let op = en.load().expect("load");
        let inputs: Vec<In> = c["inputs"].as_array().unwrap().iter().map(In::from_json).collect();
        let dt = DT::from_name(c["dt"].as_str().unwrap_or("f32")).unwrap_or(DT::F32);
        let case = Case { inputs, cls: c["cls"].as_str().unwrap_or("").to_string() };
        for k in 0..8 {
            run_case(&mut tr, k + 1, en, &*op, dt, &case, c["special"].as_bool().unwrap_or(false), &mut rng, true);
        }
        return 0;
    }

    let mut id = 0u64;
    for en in &cat {
        if let Some(o) = &only {
            if !en.key.contains(o.as_str()) {
                continue;
            }
        }
        let op = match en.load() {
            Ok(op) => op,
            Err(e) => {
                eprintln!("cannot load {}: {e}", en.key);
                return 2;
            }
        };
        if op.in_place_inputs().is_empty() && !op.is_commutative() {
            continue;
        }
        if en.nondet || en.thr || (en.big && !big) {
            continue;
        }
        let designated: Vec<usize> = op.in_place_inputs().iter().map(|i| i as usize).collect();
        for &dt in &en.dts {
            // (present-pattern -> cases emitted) for the optional-input cross product
            let mut seen: std::collections::HashMap<String, usize> = std::collections::HashMap::new();
            for k in 0..(if en.big { cases.min(2) } else { cases }) {
                let special = k % 4 == 3;
                let mut case = {
                    let mut g = G { rng: &mut rng, dt, special, exact: en.num == 1 && k % 2 == 0 };
                    (en.gen_fn)(&mut g)
                };
                // every second case of a bit-exact float operator draws from the extreme value pool
                if en.num == 0 && !en.big && k % 2 == 1 {
                    inject_extremes(&mut case.inputs, &designated, op.is_commutative(), k / 2 * 5, k % 4 == 1, &mut rng);
                }
                id += 1;
                *seen.entry(present_mask(&case.inputs)).or_insert(0) += 1;
                run_case(&mut tr, id, en, &*op, dt, &case, special, &mut rng, all_classes);
                if en.big {
                    continue;
                }
                // cross the in-place path with every pattern of omitted optional inputs
                // the operator accepts (accepted = Operator::run succeeds on it)
                for omit in omission_patterns(&case.inputs, &designated) {
                    let mut inputs2 = case.inputs.clone();
                    for p in &omit {
                        inputs2[*p] = In::None;
                    }
                    let mask = present_mask(&inputs2);
                    if seen.get(&mask).copied().unwrap_or(0) >= per_pattern {
                        continue;
                    }
                    let accepted = {
                        let mats: Vec<Mat> = inputs2.iter().map(|i| Mat::new(i, None)).collect();
                        let views: Vec<_> = mats.iter().map(|m| m.view()).collect();
                        run_normal(&*op, &views, en.n_out).ok()
                    };
                    if !accepted {
                        continue;
                    }
                    *seen.entry(mask).or_insert(0) += 1;
                    let case2 = Case { inputs: inputs2, cls: format!("{},omitted", case.cls) };
                    id += 1;
                    run_case(&mut tr, id, en, &*op, dt, &case2, special, &mut rng, all_classes);
                }
            }
        }
    }
    tr.flush();
    0
}
