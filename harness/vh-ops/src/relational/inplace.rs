//! C13 engine: normal vs in-place vs commuted execution of every catalogue
//! operator that declares in-place inputs or commutativity.
//!
//! The in-place calls reproduce the calling convention of the executor
//! (`Graph::run_plan` in src/graph.rs):
//!  * non-commutative operator: *all* designated inputs that are connected are
//!    taken as owned values (or none is); commutative operator: exactly one
//!    input is taken, and it may be at any position (the executor picks the
//!    largest owned input, whatever the size of the non-owned ones);
//!  * the taken inputs are passed as `InPlaceInputs` `(position, value)`;
//!    the `InputList` has a `None` placeholder at each taken position;
//!  * owned values are passed with whatever layout they have (outputs of
//!    earlier operators may be non-contiguous, pool buffers have spare capacity).

use rten::verif::{Operator, Value};
use vcommon::{Rng, Trace, Value as J, json};

use super::catalogue::{Case, Entry, G, catalogue};
use super::{DT, In, Mat, Outcome, dist_q, exact_inputs, owned_value, run_in_place, run_normal};

pub const OWNED_CLASSES: &[&str] = &["exact", "spare", "permuted", "gapped", "reserved"];

#[allow(clippy::too_many_arguments)]
fn emit_run(
    tr: &mut Trace,
    id: u64,
    mode: &str,
    taken: &[usize],
    owned: &str,
    lays: Vec<J>,
    out: &Outcome,
    reference: Option<&Outcome>,
) {
    let dist = reference.map(|n| dist_q(n, out)).unwrap_or(0);
    tr.emit(json!({
        "ev": "run", "id": id, "mode": mode, "taken": taken, "owned": owned, "lay": lays, "laycls": "",
        "outcome": out.kind, "err": out.err, "dist": dist, "outputs": out.outputs_json(),
    }));
}

/// Positions the executor may take for in-place execution, one entry per
/// distinct calling convention.
pub fn taken_sets(op: &dyn Operator, inputs: &[In]) -> Vec<Vec<usize>> {
    let designated: Vec<usize> = op.in_place_inputs().iter().map(|i| i as usize).collect();
    if designated.is_empty() {
        return vec![];
    }
    let present = |p: usize| p < inputs.len() && !matches!(inputs[p], In::None);
    if op.is_commutative() {
        (0..inputs.len()).filter(|p| present(*p)).map(|p| vec![p]).collect()
    } else {
        let set: Vec<usize> = designated.into_iter().filter(|p| present(*p)).collect();
        if set.is_empty() { vec![] } else { vec![set] }
    }
}

#[allow(clippy::too_many_arguments)]
pub fn run_case(
    tr: &mut Trace,
    id: u64,
    en: &Entry,
    op: &dyn Operator,
    dt: DT,
    case: &Case,
    special: bool,
    rng: &mut Rng,
    all_classes: bool,
) {
    let inputs = &case.inputs;
    let designated: Vec<usize> = op.in_place_inputs().iter().map(|i| i as usize).collect();
    tr.emit(json!({
        "ev": "case", "prop": "C13", "id": id, "key": en.key, "op": op.name(), "dt": dt.name(),
        "cls": case.cls, "special": special, "commutative": op.is_commutative(),
        "in_place": designated, "n_out": en.n_out, "num": en.num, "exact": exact_inputs(inputs),
        "inputs": inputs.iter().map(|i| i.json()).collect::<Vec<_>>(),
    }));
    tr.flush();
    let mats: Vec<Mat> = inputs.iter().map(|i| Mat::new(i, None)).collect();
    let views: Vec<_> = mats.iter().map(|m| m.view()).collect();
    let normal = run_normal(op, &views, en.n_out);
    emit_run(tr, id, "normal", &[], "", vec![], &normal, None);

    for set in taken_sets(op, inputs) {
        let mut classes: Vec<&str> = if all_classes {
            OWNED_CLASSES.to_vec()
        } else {
            let mut c = vec!["exact", "spare"];
            c.push(*rng.pick(&["permuted", "gapped", "reserved"]));
            c
        };
        if set.iter().any(|p| matches!(inputs[*p], In::Seq(..))) {
            classes = vec!["exact"];
        }
        for class in classes {
            // spare capacity: enough for everything Concat could append, sometimes less
            let others: usize = inputs
                .iter()
                .enumerate()
                .filter(|(p, _)| !set.contains(p))
                .map(|(_, i)| match i {
                    In::T(t) => t.numel(),
                    _ => 0,
                })
                .sum();
            let spare = match rng.below(3) {
                0 => others.max(1),
                1 => others + 1 + rng.below(4),
                _ => 1 + rng.below(3),
            };
            let mut taken: Vec<(usize, Value)> = Vec::new();
            let mut lays = Vec::new();
            let mut ok = true;
            for &p in &set {
                let axis_hint = en.reserve_axis.and_then(|a| match &inputs[p] {
                    In::T(t) => {
                        let r = t.shape.len() as i64;
                        let a = if a < 0 { a + r } else { a };
                        (a >= 0 && a < r).then_some(a as usize)
                    }
                    _ => None,
                });
                // rows to reserve along the axis: enough for the other inputs, or one short
                let rows = match (&inputs[p], axis_hint) {
                    (In::T(_), Some(ax)) => {
                        let need: usize = inputs
                            .iter()
                            .enumerate()
                            .filter(|(q, _)| !set.contains(q))
                            .map(|(_, i)| match i {
                                In::T(t) if ax < t.shape.len() => t.shape[ax],
                                _ => 0,
                            })
                            .sum();
                        match rng.below(3) {
                            0 => need.max(1),
                            1 => need + 1,
                            _ => need.saturating_sub(1).max(1),
                        }
                    }
                    _ => spare,
                };
                let sp = if class == "reserved" { rows } else { spare };
                match owned_value(&inputs[p], class, rng, axis_hint, sp) {
                    Some((v, lay)) => {
                        taken.push((p, v));
                        lays.push(lay);
                    }
                    None => {
                        ok = false;
                        break;
                    }
                }
            }
            if !ok {
                continue;
            }
            let views_ip: Vec<_> = mats
                .iter()
                .enumerate()
                .map(|(p, m)| if set.contains(&p) { None } else { m.view() })
                .collect();
            let out = run_in_place(op, taken, &views_ip, en.n_out);
            emit_run(tr, id, "inplace", &set, class, lays, &out, Some(&normal));
        }
    }

    // Operands swapped, as `run` sees them when the executor (or a caller relying
    // on `is_commutative`) reorders the inputs.
    if op.is_commutative() {
        let present: Vec<usize> = (0..inputs.len())
            .filter(|p| !matches!(inputs[*p], In::None))
            .collect();
        if present.len() == 2 {
            let mut sw: Vec<_> = views.clone();
            sw.swap(present[0], present[1]);
            let out = run_normal(op, &sw, en.n_out);
            emit_run(tr, id, "commuted", &[], "", vec![], &out, Some(&normal));
        }
    }
}

pub fn main() -> i32 {
    let out = vcommon::arg_or("--out", "-");
    let cases = vcommon::arg_usize("--cases", 20);
    let only = vcommon::arg("--only");
    let all_classes = std::env::args().any(|a| a == "--all-classes");
    let big = std::env::args().any(|a| a == "--big");
    let mut tr = Trace::create(&out);
    let mut rng = Rng::from_env();
    let cat = catalogue();

    if let Some(cj) = vcommon::arg("--only-case") {
        // replay of a single recorded case: same inputs, every owned class, several layout draws
        let c: J = serde_json::from_str(&cj).expect("case json");
        let key = c["key"].as_str().unwrap_or("");
        let Some(en) = cat.iter().find(|e| e.key == key) else {
            eprintln!("unknown catalogue key {key}");
            return 2;
        };
        let op = en.load().expect("load");
        let inputs: Vec<In> = c["inputs"].as_array().unwrap().iter().map(In::from_json).collect();
        let dt = DT::from_name(c["dt"].as_str().unwrap_or("f32")).unwrap_or(DT::F32);
        let case = Case { inputs, cls: c["cls"].as_str().unwrap_or("").to_string() };
        for k in 0..8 {
            run_case(&mut tr, k + 1, en, &*op, dt, &case, c["special"].as_bool().unwrap_or(false), &mut rng, true);
        }
        return 0;
    }

    let mut id = 0u64;
    for en in &cat {
        if let Some(o) = &only {
            if !en.key.contains(o.as_str()) {
                continue;
            }
        }
        let op = match en.load() {
            Ok(op) => op,
            Err(e) => {
                eprintln!("cannot load {}: {e}", en.key);
                return 2;
            }
        };
        if op.in_place_inputs().is_empty() && !op.is_commutative() {
            continue;
        }
        if en.nondet || (en.big && !big) {
            continue;
        }
        for &dt in &en.dts {
            for k in 0..(if en.big { cases.min(2) } else { cases }) {
                let special = k % 4 == 3;
                let case = {
                    let mut g = G { rng: &mut rng, dt, special, exact: en.num == 1 && k % 2 == 0 };
                    (en.gen_fn)(&mut g)
                };
                id += 1;
                run_case(&mut tr, id, en, &*op, dt, &case, special, &mut rng, all_classes);
            }
        }
    }
    tr.flush();
    0
}
