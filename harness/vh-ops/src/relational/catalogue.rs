//! Operator catalogue: every entry is a single-operator ONNX node (decoded by
//! the real loader) or a directly constructed fused operator, plus a seeded
//! generator of small, valid inputs.

use std::sync::Arc;

use rten::verif::ops as rops;
use vcommon::onnx::{self, Attr};
use vcommon::Rng;

use super::{DT, In, OpArc, T, load_op, node};

pub struct Case {
    pub inputs: Vec<In>,
    /// Class of the case (broadcast relation etc.), part of finding signatures.
    pub cls: String,
}

/// Generator context.
pub struct G<'a> {
    pub rng: &'a mut Rng,
    /// Primary element type requested for this case.
    pub dt: DT,
    /// Include large / tiny / signed-zero values.
    pub special: bool,
    /// Integer-valued float data only (|v| <= 4): every sum of products is
    /// exact, so accumulation order cannot change the bits.
    pub exact: bool,
}

pub type GenFn = Box<dyn Fn(&mut G) -> Case + Send + Sync>;

pub struct Entry {
    pub key: String,
    pub op_name: String,
    pub node: Option<onnx::Node>,
    pub direct: Option<OpArc>,
    pub n_out: usize,
    /// Primary dtypes the relational engines use (C12 tries all four).
    pub dts: Vec<DT>,
    pub gen_fn: GenFn,
    /// Output depends on something other than the inputs (unseeded RNG).
    pub nondet: bool,
    /// Numeric class: 0 = bit-exact relations required on all data;
    /// 1 = float sums of products through rten-gemm, linear in the inputs
    ///     (bit-exact on integer-valued data, rounding may depend on the kernel
    ///     chosen for a layout otherwise);
    /// 2 = rten-gemm followed/preceded by non-linear float maths (never exact).
    pub num: u8,
    /// Tensors above the 32K-element chunk size of the parallel elementwise
    /// kernels; only run when the engine is given --big.
    pub big: bool,
    /// "threshold" sub-family of C14: dimensions drawn from around and beyond
    /// the block / vector sizes of the kernels underneath, integer-valued data.
    pub thr: bool,
    /// Dimension along which "reserved" capacity is created for input 0 (Concat axis).
    pub reserve_axis: Option<i64>,
}

impl Entry {
    pub fn load(&self) -> Result<OpArc, String> {
        if let Some(op) = &self.direct {
            return Ok(op.clone());
        }
        load_op(self.node.as_ref().unwrap())
    }
}

// ---------------------------------------------------------------- value helpers

const SMALL_F: &[f32] = &[
    0.0, 1.0, -1.0, 2.0, -2.0, 0.5, -0.5, 3.0, 0.25, 1.5, -1.5, 4.0, -3.0, 0.75, 7.0, -0.125,
];
const SPECIAL_F: &[f32] = &[0.0, -0.0, 1e30, -1e30, 1e-30, -1e-30, 65504.0, 1e-38, 16777216.0];

impl<'a> G<'a> {
    pub fn dim(&mut self) -> usize {
        *self.rng.pick(&[1usize, 1, 2, 2, 3, 3, 4, 5, 7])
    }
    /// Random shape with rank in lo..=hi and at most `max` elements.
    pub fn shape_max(&mut self, lo: usize, hi: usize, max: usize) -> Vec<usize> {
        loop {
            let r = lo + self.rng.below(hi - lo + 1);
            let s: Vec<usize> = (0..r).map(|_| self.dim()).collect();
            if s.iter().product::<usize>() <= max {
                return s;
            }
        }
    }
    pub fn shape(&mut self, lo: usize, hi: usize) -> Vec<usize> {
        self.shape_max(lo, hi, 96)
    }
    pub fn fval(&mut self) -> f32 {
        if self.exact {
            return self.rng.range(-4, 4) as f32;
        }
        if self.special && self.rng.chance(1, 12) {
            return *self.rng.pick(SPECIAL_F);
        }
        match self.rng.below(4) {
            0 | 1 => *self.rng.pick(SMALL_F),
            2 => (self.rng.range(-4000, 4000) as f32) / 1000.0,
            _ => (self.rng.range(-100000, 100000) as f32) / 977.0,
        }
    }
    pub fn ival(&mut self, dt: DT) -> i32 {
        match dt {
            DT::U8 => {
                if self.special && self.rng.chance(1, 10) {
                    *self.rng.pick(&[0, 255, 128, 127])
                } else {
                    self.rng.range(0, 20) as i32
                }
            }
            DT::I8 => {
                if self.special && self.rng.chance(1, 10) {
                    *self.rng.pick(&[-128, 127, 0, -1])
                } else {
                    self.rng.range(-10, 10) as i32
                }
            }
            _ => {
                if self.special && self.rng.chance(1, 12) {
                    *self.rng.pick(&[i32::MAX, i32::MIN, 65536, -65536, 0])
                } else {
                    self.rng.range(-9, 9) as i32
                }
            }
        }
    }
    pub fn t(&mut self, dt: DT, shape: &[usize]) -> T {
        let n: usize = shape.iter().product();
        let vals: Vec<i32> = (0..n)
            .map(|_| match dt {
                DT::F32 => self.fval().to_bits() as i32,
                _ => self.ival(dt),
            })
            .collect();
        let mut t = T {
            dt,
            shape: shape.to_vec(),
            vals,
        };
        // Sometimes make the content constant along a dim so that the
        // broadcast-view layout class of C14 applies.
        if self.rng.chance(1, 3) {
            let big: Vec<usize> = (0..shape.len()).filter(|d| shape[*d] > 1).collect();
            if !big.is_empty() && n > 0 {
                let d = *self.rng.pick(&big);
                t.make_const_along(d);
            }
        }
        t
    }
    /// Values from a custom scalar generator.
    pub fn t_with(&mut self, dt: DT, shape: &[usize], mut f: impl FnMut(&mut Self) -> i32) -> T {
        let n: usize = shape.iter().product();
        let vals: Vec<i32> = (0..n).map(|_| f(self)).collect();
        T {
            dt,
            shape: shape.to_vec(),
            vals,
        }
    }
    /// f32 tensor with values in [lo, hi] (no specials).
    pub fn f_range(&mut self, shape: &[usize], lo: f32, hi: f32) -> T {
        if self.exact {
            let (a, b) = ((lo.ceil() as i64).max(-4), (hi.floor() as i64).min(4));
            let (a, b) = if a <= b { (a, b) } else { (lo.ceil() as i64, lo.ceil() as i64) };
            return self.t_with(DT::F32, shape, |g| (g.rng.range(a, b) as f32).to_bits() as i32);
        }
        self.t_with(DT::F32, shape, |g| {
            let u = g.rng.below(10001) as f32 / 10000.0;
            (lo + (hi - lo) * u).to_bits() as i32
        })
    }
    /// Non-zero values (divisors).
    pub fn t_nz(&mut self, dt: DT, shape: &[usize]) -> T {
        let mut t = self.t(dt, shape);
        for v in t.vals.iter_mut() {
            let zero = match dt {
                DT::F32 => f32::from_bits(*v as u32) == 0.0,
                _ => *v == 0,
            };
            if zero {
                *v = match dt {
                    DT::F32 => 2.0f32.to_bits() as i32,
                    _ => 3,
                };
            }
        }
        t
    }
    /// i32 tensor with values in lo..=hi.
    pub fn i_range(&mut self, shape: &[usize], lo: i64, hi: i64) -> T {
        self.t_with(DT::I32, shape, |g| g.rng.range(lo, hi) as i32)
    }
    pub fn bools(&mut self, shape: &[usize]) -> T {
        self.i_range(shape, 0, 1)
    }
    /// A shape that broadcasts with `s` according to `rel`:
    /// 0 equal, 1 trailing suffix, 2 ones in random dims, 3 scalar, 4 [1]-vector,
    /// 5 middle dim broadcast.
    pub fn bcast_of(&mut self, s: &[usize], rel: usize) -> Vec<usize> {
        match rel {
            0 => s.to_vec(),
            1 => {
                let k = self.rng.below(s.len() + 1);
                s[k..].to_vec()
            }
            2 => s
                .iter()
                .map(|d| if self.rng.chance(1, 2) { 1 } else { *d })
                .collect(),
            3 => vec![],
            4 => vec![1],
            _ => {
                let mut o = s.to_vec();
                if o.len() >= 3 {
                    let m = 1 + self.rng.below(o.len() - 2);
                    o[m] = 1;
                } else if !o.is_empty() {
                    o[0] = 1;
                }
                o
            }
        }
    }
}

fn one(t: T) -> Vec<In> {
    vec![In::T(t)]
}

fn case(inputs: Vec<In>, cls: &str) -> Case {
    Case {
        inputs,
        cls: cls.to_string(),
    }
}

// ---------------------------------------------------------------- builders

pub struct B {
    key: String,
    op: String,
    domain: String,
    attrs: Vec<(String, Attr)>,
    n_in: usize,
    n_out: usize,
    dts: Vec<DT>,
    nondet: bool,
    reserve_axis: Option<i64>,
    direct: Option<OpArc>,
    num: u8,
    big: bool,
    thr: bool,
}

pub fn e(key: &str, op: &str) -> B {
    B {
        key: key.into(),
        op: op.into(),
        domain: String::new(),
        attrs: vec![],
        n_in: 1,
        n_out: 1,
        dts: vec![DT::F32],
        nondet: false,
        reserve_axis: None,
        direct: None,
        num: 0,
        big: false,
        thr: false,
    }
}

impl B {
    pub fn ms(mut self) -> B {
        self.domain = "com.microsoft".into();
        self
    }
    pub fn a(mut self, name: &str, a: Attr) -> B {
        self.attrs.push((name.into(), a));
        self
    }
    pub fn ai(self, name: &str, v: i64) -> B {
        self.a(name, Attr::Int(v))
    }
    pub fn af(self, name: &str, v: f32) -> B {
        self.a(name, Attr::Float(v))
    }
    pub fn astr(self, name: &str, v: &str) -> B {
        self.a(name, Attr::Str(v.into()))
    }
    pub fn aints(self, name: &str, v: &[i64]) -> B {
        self.a(name, Attr::Ints(v.to_vec()))
    }
    pub fn io(mut self, n_in: usize, n_out: usize) -> B {
        self.n_in = n_in;
        self.n_out = n_out;
        self
    }
    pub fn dts(mut self, d: &[DT]) -> B {
        self.dts = d.to_vec();
        self
    }
    pub fn num(mut self, n: u8) -> B {
        self.num = n;
        self
    }
    pub fn thr(mut self) -> B {
        self.thr = true;
        self
    }
    pub fn big(mut self) -> B {
        self.big = true;
        self
    }
    pub fn nondet(mut self) -> B {
        self.nondet = true;
        self
    }
    pub fn reserve(mut self, axis: i64) -> B {
        self.reserve_axis = Some(axis);
        self
    }
    pub fn direct(mut self, op: OpArc) -> B {
        self.direct = Some(op);
        self
    }
    pub fn g(self, f: impl Fn(&mut G) -> Case + Send + Sync + 'static) -> Entry {
        let node = if self.direct.is_some() {
            None
        } else {
            let mut n = node(&self.op, &self.domain, self.n_in, self.n_out);
            n.attrs = self.attrs;
            Some(n)
        };
        Entry {
            key: self.key,
            op_name: self.op,
            node,
            direct: self.direct,
            n_out: self.n_out,
            dts: self.dts,
            gen_fn: Box::new(f),
            nondet: self.nondet,
            reserve_axis: self.reserve_axis,
            num: self.num,
            big: self.big,
            thr: self.thr,
        }
    }
}

const FI: &[DT] = &[DT::F32, DT::I32];
const ALL: &[DT] = &[DT::F32, DT::I32, DT::I8, DT::U8];

// ---------------------------------------------------------------- the catalogue

pub fn catalogue() -> Vec<Entry> {
    let mut v: Vec<Entry> = Vec::new();
    unary(&mut v);
    binary(&mut v);
    shape_ops(&mut v);
    super::catalogue2::more(&mut v);
    super::catalogue3::threshold(&mut v);
    v
}

fn unary(v: &mut Vec<Entry>) {
    // plain elementwise, any shape
    let any = |g: &mut G| {
        let s = g.shape(0, 4);
        let t = g.t(g.dt, &s);
        case(one(t), "any")
    };
    for (name, dts) in [
        ("Abs", FI),
        ("Neg", FI),
        ("Sign", FI),
        ("Identity", ALL),
        ("Ceil", &[DT::F32][..]),
        ("Floor", &[DT::F32]),
        ("Round", &[DT::F32]),
        ("Relu", &[DT::F32]),
        ("Sigmoid", &[DT::F32]),
        ("Tanh", &[DT::F32]),
        ("Sin", &[DT::F32]),
        ("Cos", &[DT::F32]),
        ("Atan", &[DT::F32]),
        ("Asinh", &[DT::F32]),
        ("Sinh", &[DT::F32]),
        ("Cosh", &[DT::F32]),
        ("Erf", &[DT::F32]),
        ("Exp", &[DT::F32]),
        ("HardSwish", &[DT::F32]),
        ("Softplus", &[DT::F32]),
        ("IsInf", &[DT::F32]),
        ("IsNaN", &[DT::F32]),
        ("Tan", &[DT::F32]),
        ("Reciprocal", &[DT::F32]),
    ] {
        v.push(e(name, name).dts(dts).g(any));
    }
    // above the parallel chunk size (32K elements), not a multiple of any SIMD width
    for (name, dts) in [("Relu", &[DT::F32][..]), ("Exp", &[DT::F32]), ("Sigmoid", &[DT::F32]), ("Erf", &[DT::F32]), ("Abs", FI), ("Neg", FI)] {
        v.push(e(&format!("big/{name}"), name).dts(dts).big().g(|g| {
            let s = [33usize, 1001];
            let t = if g.dt == DT::F32 { g.f_range(&s, -4.0, 4.0) } else { g.i_range(&s, -9, 9) };
            case(one(t), "big")
        }));
    }
    // restricted domains (avoid NaN results: the relations compare bits)
    let dom = |lo: f32, hi: f32| {
        move |g: &mut G| {
            let s = g.shape(0, 4);
            let t = g.f_range(&s, lo, hi);
            case(one(t), "domain")
        }
    };
    v.push(e("Acos", "Acos").g(dom(-1.0, 1.0)));
    v.push(e("Asin", "Asin").g(dom(-1.0, 1.0)));
    v.push(e("Atanh", "Atanh").g(dom(-0.99, 0.99)));
    v.push(e("Acosh", "Acosh").g(dom(1.0, 50.0)));
    v.push(e("Log", "Log").g(dom(0.001, 100.0)));
    v.push(e("Sqrt", "Sqrt").g(dom(0.0, 100.0)));
    v.push(e("Not", "Not").dts(&[DT::I32]).g(|g| {
        let s = g.shape(0, 4);
        case(one(g.bools(&s)), "any")
    }));
    v.push(e("Elu", "Elu").af("alpha", 0.7).g(any));
    v.push(e("Gelu", "Gelu").g(any));
    v.push(e("Gelu/tanh", "Gelu").astr("approximate", "tanh").g(any));
    v.push(e("HardSigmoid", "HardSigmoid").af("alpha", 0.3).af("beta", 0.4).g(any));
    v.push(e("LeakyRelu", "LeakyRelu").af("alpha", 0.1).g(any));
    v.push(e("Swish", "Swish").af("alpha", 1.5).g(any));
    v.push(e("ms.Gelu", "Gelu").ms().g(any));
    v.push(e("ms.QuickGelu", "QuickGelu").ms().af("alpha", 1.7).g(any));
    v.push(e("Silu", "Silu").direct(Arc::new(rops::Silu {})).g(any));
    for to in ALL {
        v.push(
            e(&format!("Cast/to={}", to.name()), "Cast")
                .ai("to", to.onnx() as i64)
                .dts(ALL)
                .g(any),
        );
    }
    v.push(e("Cast/to=int64", "Cast").ai("to", onnx::INT64 as i64).dts(ALL).g(any));
    v.push(e("Cast/to=bool", "Cast").ai("to", onnx::BOOL as i64).dts(ALL).g(any));
    v.push(e("Cast/to=double", "Cast").ai("to", onnx::DOUBLE as i64).dts(ALL).g(any));
    for like in ALL {
        let like = *like;
        v.push(
            e(&format!("CastLike/like={}", like.name()), "CastLike")
                .io(2, 1)
                .dts(ALL)
                .g(move |g| {
                    let s = g.shape(0, 4);
                    let s2 = g.shape(0, 2);
                    let a = g.t(g.dt, &s);
                    let b = g.t(like, &s2);
                    case(vec![In::T(a), In::T(b)], "any")
                }),
        );
    }
    v.push(e("Shape", "Shape").dts(ALL).g(any));
    v.push(e("Shape/start_end", "Shape").ai("start", 1).ai("end", -1).dts(FI).g(|g| {
        let s = g.shape(2, 4);
        case(one(g.t(g.dt, &s)), "any")
    }));
    v.push(e("Size", "Size").dts(ALL).g(any));
    v.push(e("NonZero", "NonZero").dts(FI).g(any));
    for axis in [-1i64, 0, 1] {
        for name in ["Softmax", "LogSoftmax"] {
            v.push(e(&format!("{name}/axis={axis}"), name).ai("axis", axis).g(move |g| {
                let s = g.shape(2, 4);
                // moderate values: exp() stays finite
                case(one(g.f_range(&s, -6.0, 6.0)), "any")
            }));
        }
    }
    v.push(
        e("Softmax/flush_nans", "Softmax")
            .direct(Arc::new(rops::Softmax {
                axis: -1,
                flush_nans_to_zero: true,
            }))
            .g(|g| {
                let s = g.shape(1, 4);
                case(one(g.f_range(&s, -6.0, 6.0)), "any")
            }),
    );
    for (p, axis) in [(1i64, -1i64), (2, -1), (2, 0), (1, 1)] {
        v.push(
            e(&format!("LpNormalization/p={p},axis={axis}"), "LpNormalization")
                .ai("p", p)
                .ai("axis", axis)
                .g(|g| {
                    let s = g.shape(2, 4);
                    case(one(g.f_range(&s, 0.5, 4.0)), "any")
                }),
        );
    }
    for axis in [0i64, 1, 2, -1] {
        v.push(e(&format!("Flatten/axis={axis}"), "Flatten").ai("axis", axis).dts(ALL).g(|g| {
            let s = g.shape(2, 4);
            case(one(g.t(g.dt, &s)), "any")
        }));
    }
    v.push(e("Transpose", "Transpose").dts(ALL).g(any));
    v.push(e("Transpose/perm=1,0,2", "Transpose").aints("perm", &[1, 0, 2]).dts(FI).g(|g| {
        let s = g.shape(3, 3);
        case(one(g.t(g.dt, &s)), "any")
    }));
    v.push(e("Transpose/perm=0,2,3,1", "Transpose").aints("perm", &[0, 2, 3, 1]).dts(FI).g(|g| {
        let s = g.shape(4, 4);
        case(one(g.t(g.dt, &s)), "any")
    }));
    for mode in ["DCR", "CRD"] {
        v.push(
            e(&format!("DepthToSpace/{mode}"), "DepthToSpace")
                .ai("blocksize", 2)
                .astr("mode", mode)
                .g(|g| {
                    let s = vec![g.rng.below(2) + 1, 4 * (1 + g.rng.below(2)), g.rng.below(3) + 1, g.rng.below(3) + 1];
                    case(one(g.t(g.dt, &s)), "nchw")
                }),
        );
    }
    let nchw = |g: &mut G| {
        let s = vec![1 + g.rng.below(2), 1 + g.rng.below(3), 1 + g.rng.below(4), 1 + g.rng.below(4)];
        case(one(g.t(DT::F32, &s)), "nchw")
    };
    v.push(e("GlobalAveragePool", "GlobalAveragePool").g(nchw));
    v.push(e("GlobalMaxPool", "GlobalMaxPool").g(nchw));
    v.push(e("EyeLike", "EyeLike").dts(FI).g(|g| {
        let s = g.shape(2, 2);
        case(one(g.t(g.dt, &s)), "2d")
    }));
    v.push(e("EyeLike/dtype=i32,k=1", "EyeLike").ai("dtype", onnx::INT32 as i64).ai("k", 1).dts(FI).g(|g| {
        let s = g.shape(2, 2);
        case(one(g.t(g.dt, &s)), "2d")
    }));
    v.push(e("EyeLike/dtype=float", "EyeLike").ai("dtype", onnx::FLOAT as i64).dts(FI).g(|g| {
        let s = g.shape(2, 2);
        case(one(g.t(g.dt, &s)), "2d")
    }));
    for upper in [0i64, 1] {
        v.push(e(&format!("Trilu/upper={upper}"), "Trilu").ai("upper", upper).io(2, 1).dts(FI).g(|g| {
            let s = g.shape(2, 4);
            let k = g.rng.range(-2, 2) as i32;
            let t = g.t(g.dt, &s);
            let kk = if g.rng.chance(1, 3) { In::None } else { In::T(T::scalar_i(k)) };
            case(vec![In::T(t), kk], "any")
        }));
    }
    for (ex, rev) in [(0i64, 0i64), (1, 0), (0, 1), (1, 1)] {
        v.push(
            e(&format!("CumSum/ex={ex},rev={rev}"), "CumSum")
                .ai("exclusive", ex)
                .ai("reverse", rev)
                .io(2, 1)
                .dts(FI)
                .g(|g| {
                    let s = g.shape(1, 4);
                    let ax = g.rng.range(-(s.len() as i64), s.len() as i64 - 1) as i32;
                    let t = if g.dt == DT::F32 { g.f_range(&s, -4.0, 4.0) } else { g.t(g.dt, &s) };
                    case(vec![In::T(t), In::T(T::scalar_i(ax))], "any")
                }),
        );
    }
    // reductions
    for name in [
        "ReduceL1", "ReduceL2", "ReduceLogSum", "ReduceLogSumExp", "ReduceMax", "ReduceMean",
        "ReduceMin", "ReduceProd", "ReduceSum", "ReduceSumSquare",
    ] {
        let int_ok = matches!(name, "ReduceMax" | "ReduceMin" | "ReduceProd" | "ReduceSum" | "ReduceSumSquare" | "ReduceL1");
        let dts = if int_ok { FI } else { &[DT::F32][..] };
        let pos = matches!(name, "ReduceLogSum");
        for keep in [0i64, 1] {
            v.push(
                e(&format!("{name}/keep={keep}"), name)
                    .ai("keepdims", keep)
                    .io(2, 1)
                    .dts(dts)
                    .g(move |g| {
                        let s = g.shape(1, 4);
                        let t = if g.dt == DT::F32 {
                            if pos { g.f_range(&s, 0.1, 4.0) } else { g.f_range(&s, -3.0, 3.0) }
                        } else {
                            g.i_range(&s, -4, 4)
                        };
                        let r = s.len() as i64;
                        let axes = match g.rng.below(4) {
                            0 => In::None,
                            1 => In::T(T::ints(&[g.rng.range(-r, r - 1)])),
                            2 => In::T(T::ints(&[r - 1])),
                            _ => {
                                let a = g.rng.range(0, r - 1);
                                let b = g.rng.range(0, r - 1);
                                if a == b { In::T(T::ints(&[a])) } else { In::T(T::ints(&[a, b])) }
                            }
                        };
                        case(vec![In::T(t), axes], "any")
                    }),
            );
        }
    }
    v.push(e("ReduceSum/noop_empty", "ReduceSum").ai("noop_with_empty_axes", 1).io(2, 1).dts(FI).g(|g| {
        let s = g.shape(1, 3);
        let t = if g.dt == DT::F32 { g.f_range(&s, -3.0, 3.0) } else { g.i_range(&s, -4, 4) };
        case(vec![In::T(t), In::T(T::ints(&[]))], "empty_axes")
    }));
    for name in ["ArgMax", "ArgMin"] {
        for keep in [0i64, 1] {
            for axis in [0i64, -1] {
                v.push(
                    e(&format!("{name}/axis={axis},keep={keep}"), name)
                        .ai("axis", axis)
                        .ai("keepdims", keep)
                        .dts(FI)
                        .g(|g| {
                            let s = g.shape(1, 4);
                            case(one(g.t(g.dt, &s)), "any")
                        }),
                );
            }
        }
    }
    for (largest, sorted) in [(1i64, 1i64), (0, 1), (1, 0)] {
        v.push(
            e(&format!("TopK/largest={largest},sorted={sorted}"), "TopK")
                .ai("largest", largest)
                .ai("sorted", sorted)
                .ai("axis", -1)
                .io(2, 2)
                .dts(FI)
                .g(|g| {
                    let s = g.shape(1, 3);
                    let last = *s.last().unwrap();
                    let k = g.rng.range(1, last as i64);
                    // distinct values: ties would make the index output order implementation-defined
                    let n: usize = s.iter().product();
                    let mut vals: Vec<i32> = (0..n as i32).collect();
                    g.rng.shuffle(&mut vals);
                    let t = if g.dt == DT::F32 {
                        T::f(&s, &vals.iter().map(|x| *x as f32 * 0.5 - 3.0).collect::<Vec<_>>())
                    } else {
                        T::i(&s, &vals)
                    };
                    case(vec![In::T(t), In::T(T::ints(&[k]))], "distinct")
                }),
        );
    }
}

fn binary(v: &mut Vec<Entry>) {
    // (a, b) with a broadcast relation; cls names which side is the smaller one.
    fn pair(g: &mut G, dta: DT, dtb: DT, nz_b: bool) -> Case {
        let rel = g.rng.below(9);
        let s = g.shape(0, 4);
        let (sa, sb, cls): (Vec<usize>, Vec<usize>, &str) = match rel {
            0 => (s.clone(), s.clone(), "equal"),
            1 => (s.clone(), g.bcast_of(&s, 1), "b_suffix"),
            2 => (s.clone(), g.bcast_of(&s, 2), "b_ones"),
            3 => (s.clone(), vec![], "b_scalar"),
            4 => (g.bcast_of(&s, 1), s.clone(), "a_suffix"),
            5 => (g.bcast_of(&s, 2), s.clone(), "a_ones"),
            6 => (vec![], s.clone(), "a_scalar"),
            7 => {
                // both sides broadcast
                let a: Vec<usize> = s.iter().enumerate().map(|(i, d)| if i % 2 == 0 { 1 } else { *d }).collect();
                let b: Vec<usize> = s.iter().enumerate().map(|(i, d)| if i % 2 == 1 { 1 } else { *d }).collect();
                (a, b, "mutual")
            }
            _ => (s.clone(), g.bcast_of(&s, 5), "b_middle"),
        };
        let a = g.t(dta, &sa);
        let b = if nz_b { g.t_nz(dtb, &sb) } else { g.t(dtb, &sb) };
        case(vec![In::T(a), In::T(b)], cls)
    }
    for name in ["Add", "Sub", "Mul"] {
        v.push(e(name, name).io(2, 1).dts(FI).g(|g| pair(g, g.dt, g.dt, false)));
    }
    v.push(e("Div", "Div").io(2, 1).dts(FI).g(|g| pair(g, g.dt, g.dt, true)));
    for name in ["Add", "Mul"] {
        v.push(e(&format!("big/{name}"), name).io(2, 1).dts(FI).big().g(|g| {
            let s = [33usize, 1001];
            let sb: Vec<usize> = match g.rng.below(3) { 0 => s.to_vec(), 1 => vec![1001], _ => vec![33, 1] };
            let (a, b) = if g.dt == DT::F32 { (g.f_range(&s, -4.0, 4.0), g.f_range(&sb, -4.0, 4.0)) } else { (g.i_range(&s, -9, 9), g.i_range(&sb, -9, 9)) };
            if g.rng.chance(1, 2) { case(vec![In::T(a), In::T(b)], "big_b_small") } else { case(vec![In::T(b), In::T(a)], "big_a_small") }
        }));
    }
    for fmod in [0i64, 1] {
        v.push(e(&format!("Mod/fmod={fmod}"), "Mod").ai("fmod", fmod).io(2, 1).dts(FI).g(|g| pair(g, g.dt, g.dt, true)));
    }
    // Pow: (f32,f32) (i32,f32) (i32,i32); small bases/exponents to keep results finite
    for (key, dta, dtb) in [("Pow/f32^f32", DT::F32, DT::F32), ("Pow/i32^f32", DT::I32, DT::F32), ("Pow/i32^i32", DT::I32, DT::I32)] {
        v.push(e(key, "Pow").io(2, 1).dts(&[dta]).g(move |g| {
            let mut c = pair(g, dta, dtb, false);
            for (k, dt) in [(0usize, dta), (1usize, dtb)] {
                if let In::T(t) = &mut c.inputs[k] {
                    for x in t.vals.iter_mut() {
                        *x = if dt == DT::F32 {
                            let vals = if k == 0 { [0.5f32, 1.0, 2.0, 3.0, 1.5, 4.0] } else { [2.0f32, 3.0, 0.0, 1.0, 0.5, -1.0] };
                            vals[g.rng.below(6)].to_bits() as i32
                        } else if k == 0 {
                            g.rng.range(1, 5) as i32
                        } else {
                            g.rng.range(0, 4) as i32
                        };
                    }
                }
            }
            c
        }));
    }
    for name in ["And", "Or", "Xor"] {
        v.push(e(name, name).io(2, 1).dts(&[DT::I32]).g(|g| {
            let mut c = pair(g, DT::I32, DT::I32, false);
            for i in c.inputs.iter_mut() {
                if let In::T(t) = i {
                    for x in t.vals.iter_mut() {
                        *x = (*x & 1).abs();
                    }
                }
            }
            c
        }));
    }
    for name in ["Equal", "Greater", "GreaterOrEqual", "Less", "LessOrEqual"] {
        v.push(e(name, name).io(2, 1).dts(FI).g(|g| pair(g, g.dt, g.dt, false)));
    }
    v.push(e("PRelu", "PRelu").io(2, 1).g(|g| {
        let s = g.shape(1, 4);
        let rel = g.rng.below(4);
        let sb = g.bcast_of(&s, rel);
        let a = g.t(DT::F32, &s);
        let b = g.t(DT::F32, &sb);
        case(vec![In::T(a), In::T(b)], "slope_bcast")
    }));
    for name in ["Max", "Min", "Sum", "Mean"] {
        let dts = if name == "Mean" { &[DT::F32][..] } else { FI };
        v.push(e(name, name).io(3, 1).dts(dts).g(|g| {
            let n = 1 + g.rng.below(3);
            let s = g.shape(0, 3);
            let mut ins = Vec::new();
            for _ in 0..n {
                let rel = g.rng.below(4);
                let si = g.bcast_of(&s, rel);
                ins.push(In::T(g.t(g.dt, &si)));
            }
            while ins.len() < 3 {
                ins.push(In::None);
            }
            case(ins, &format!("n={n}"))
        }));
    }
    v.push(e("Where", "Where").io(3, 1).dts(FI).g(|g| {
        let s = g.shape(0, 4);
        let r = [g.rng.below(4), g.rng.below(4), g.rng.below(4)];
        let sc = g.bcast_of(&s, r[0]);
        let sx = g.bcast_of(&s, r[1]);
        let sy = g.bcast_of(&s, r[2]);
        let c = g.bools(&sc);
        let x = g.t(g.dt, &sx);
        let y = g.t(g.dt, &sy);
        case(vec![In::T(c), In::T(x), In::T(y)], "bcast3")
    }));
    v.push(
        e("AddSoftmax", "AddSoftmax")
            .io(2, 1)
            .direct(Arc::new(rops::AddSoftmax {
                flush_nans_to_zero: false,
            }))
            .g(|g| {
                let mut c = pair(g, DT::F32, DT::F32, false);
                // ranks >= 1 and moderate values
                for i in c.inputs.iter_mut() {
                    if let In::T(t) = i {
                        if t.shape.is_empty() {
                            t.shape = vec![1];
                        }
                        for x in t.vals.iter_mut() {
                            let f = f32::from_bits(*x as u32).clamp(-5.0, 5.0);
                            *x = f.to_bits() as i32;
                        }
                    }
                }
                c
            }),
    );
}

fn shape_ops(v: &mut Vec<Entry>) {
    for az in [0i64, 1] {
        v.push(e(&format!("Reshape/allowzero={az}"), "Reshape").ai("allowzero", az).io(2, 1).dts(ALL).g(move |g| {
            let s = g.shape(0, 4);
            let n: usize = s.iter().product();
            let t = g.t(g.dt, &s);
            // target: a random factorisation, optionally with -1 / 0
            let mut target: Vec<i64> = Vec::new();
            let mut rest = n;
            for _ in 0..g.rng.below(3) {
                let divs: Vec<usize> = (1..=rest).filter(|d| rest % d == 0).collect();
                let d = *g.rng.pick(&divs);
                target.push(d as i64);
                rest /= d;
            }
            target.push(rest as i64);
            let mut cls = "plain";
            if g.rng.chance(1, 3) {
                let k = g.rng.below(target.len());
                target[k] = -1;
                cls = "minus1";
            } else if az == 0 && g.rng.chance(1, 4) && !s.is_empty() && !target.is_empty() && target[0] as usize == s[0] {
                target[0] = 0;
                cls = "zero_copy";
            }
            case(vec![In::T(t), In::T(T::ints(&target))], cls)
        }));
    }
    v.push(e("Expand", "Expand").io(2, 1).dts(ALL).g(|g| {
        let s = g.shape(0, 4);
        let (si, target, cls): (Vec<usize>, Vec<usize>, &str) = match g.rng.below(5) {
            0 => (s.clone(), s.clone(), "noop"),
            1 => (s.clone(), vec![1; s.len()], "noop_ones"),
            2 => (g.bcast_of(&s, 2), s.clone(), "ones"),
            3 => (g.bcast_of(&s, 1), s.clone(), "suffix"),
            _ => (s.clone(), g.bcast_of(&s, 2), "target_ones"),
        };
        let t = g.t(g.dt, &si);
        let tv: Vec<i64> = target.iter().map(|x| *x as i64).collect();
        case(vec![In::T(t), In::T(T::ints(&tv))], cls)
    }));
    v.push(e("Tile", "Tile").io(2, 1).dts(FI).g(|g| {
        let s = g.shape_max(0, 3, 24);
        let t = g.t(g.dt, &s);
        let noop = g.rng.chance(1, 3);
        let reps: Vec<i64> = s.iter().map(|_| if noop { 1 } else { g.rng.range(1, 3) }).collect();
        case(vec![In::T(t), In::T(T::ints(&reps))], if noop { "noop" } else { "repeat" })
    }));
    v.push(e("Squeeze", "Squeeze").io(2, 1).dts(ALL).g(|g| {
        let mut s = g.shape(1, 4);
        let k = g.rng.below(s.len());
        s[k] = 1;
        let t = g.t(g.dt, &s);
        let ones: Vec<i64> = (0..s.len()).filter(|d| s[*d] == 1).map(|d| d as i64).collect();
        let axes = match g.rng.below(3) {
            0 => In::None,
            1 => In::T(T::ints(&[*g.rng.pick(&ones)])),
            _ => In::T(T::ints(&[*g.rng.pick(&ones) - s.len() as i64])),
        };
        case(vec![In::T(t), axes], "any")
    }));
    v.push(e("Unsqueeze", "Unsqueeze").io(2, 1).dts(ALL).g(|g| {
        let s = g.shape(0, 3);
        let t = g.t(g.dt, &s);
        let r = s.len() as i64;
        let axes: Vec<i64> = match g.rng.below(3) {
            0 => vec![g.rng.range(0, r)],
            1 => vec![-1],
            _ => vec![0, r + 1],
        };
        case(vec![In::T(t), In::T(T::ints(&axes))], "any")
    }));
    v.push(e("Slice", "Slice").io(5, 1).dts(ALL).g(|g| {
        let s = g.shape(1, 4);
        let t = g.t(g.dt, &s);
        let r = s.len();
        let n_axes = 1 + g.rng.below(r);
        let mut axes: Vec<usize> = (0..r).collect();
        g.rng.shuffle(&mut axes);
        axes.truncate(n_axes);
        let mut starts = vec![];
        let mut ends = vec![];
        let mut steps = vec![];
        let stepped = g.rng.chance(1, 3);
        let neg = stepped && g.rng.chance(1, 2);
        for &a in &axes {
            let d = s[a] as i64;
            let st = if stepped { if neg { -g.rng.range(1, 2) } else { g.rng.range(1, 3) } } else { 1 };
            let (b, e_) = if st > 0 {
                let r1 = g.rng.range(-d, d + 1);
                (g.rng.range(-d - 1, d), *g.rng.pick(&[r1, i32::MAX as i64, d]))
            } else {
                let r1 = g.rng.range(-d - 1, d);
                (g.rng.range(0, d + 1), *g.rng.pick(&[r1, i32::MIN as i64, -1]))
            };
            starts.push(b);
            ends.push(e_);
            steps.push(st);
        }
        let use_axes = n_axes < r || g.rng.chance(1, 2);
        let axes_in = if use_axes || axes != (0..r).collect::<Vec<_>>() {
            let neg_axes = g.rng.chance(1, 4);
            In::T(T::ints(&axes.iter().map(|a| if neg_axes { *a as i64 - r as i64 } else { *a as i64 }).collect::<Vec<_>>()))
        } else {
            In::None
        };
        let steps_in = if stepped || g.rng.chance(1, 4) { In::T(T::ints(&steps)) } else { In::None };
        let noaxes = matches!(axes_in, In::None);
        let cls = format!(
            "{}{}",
            if neg { "neg_step" } else if stepped { "stepped" } else { "unit_step" },
            if noaxes { "_noaxes" } else { "_axes" }
        );
        case(
            vec![In::T(t), In::T(T::ints(&starts)), In::T(T::ints(&ends)), axes_in, steps_in],
            &cls,
        )
    }));
    for mode in ["constant", "reflect", "edge", "wrap"] {
        v.push(e(&format!("Pad/{mode}"), "Pad").astr("mode", mode).io(4, 1).dts(FI).g(move |g| {
            let s: Vec<usize> = (0..1 + g.rng.below(3)).map(|_| 2 + g.rng.below(3)).collect();
            let t = g.t(g.dt, &s);
            let r = s.len();
            // rten: no `axes` input; non-constant modes pad the last two dims only
            let first = if mode == "constant" { 0 } else { r.saturating_sub(2) };
            let mut pads = vec![0i64; r * 2];
            for a in first..r {
                pads[a] = g.rng.range(0, 1);
                pads[a + r] = g.rng.range(0, 1);
            }
            let cv = if mode == "constant" && g.rng.chance(1, 2) {
                In::T(if g.dt == DT::F32 { T::scalar_f(1.5) } else { T::scalar_i(7) })
            } else {
                In::None
            };
            let ax = In::None;
            case(vec![In::T(t), In::T(T::ints(&pads)), cv, ax], "any")
        }));
    }
    v.push(e("ConstantOfShape", "ConstantOfShape").dts(&[DT::I32]).g(|g| {
        let s = g.shape(0, 3);
        case(one(T::ints(&s.iter().map(|x| *x as i64).collect::<Vec<_>>())), "any")
    }));
    for (nm, td) in [
        ("i32", onnx::TensorData::I32(vec![5])),
        ("i64", onnx::TensorData::I64(vec![-3])),
        ("f32", onnx::TensorData::F32(vec![2.5])),
        ("u8", onnx::TensorData::U8(vec![200])),
        ("i8", onnx::TensorData::I8(vec![-7])),
        ("bool", onnx::TensorData::Bool(vec![true])),
    ] {
        v.push(
            e(&format!("ConstantOfShape/value={nm}"), "ConstantOfShape")
                .a("value", Attr::Tensor(onnx::Tensor { name: String::new(), dims: vec![1], data: td }))
                .dts(&[DT::I32])
                .g(|g| {
                    let s = g.shape(0, 3);
                    case(one(T::ints(&s.iter().map(|x| *x as i64).collect::<Vec<_>>())), "any")
                }),
        );
    }
    v.push(e("Range", "Range").io(3, 1).dts(FI).g(|g| {
        if g.dt == DT::F32 {
            let st = g.rng.range(-4, 4) as f32 * 0.5;
            let d = *g.rng.pick(&[0.5f32, 1.0, -0.5, 2.0, -1.0]);
            let n = g.rng.range(0, 8) as f32;
            case(vec![In::T(T::scalar_f(st)), In::T(T::scalar_f(st + d * n)), In::T(T::scalar_f(d))], "any")
        } else {
            let st = g.rng.range(-5, 5) as i32;
            let d = *g.rng.pick(&[1i32, 2, -1, -3, 3]);
            let n = g.rng.range(0, 8) as i32;
            case(vec![In::T(T::scalar_i(st)), In::T(T::scalar_i(st + d * n)), In::T(T::scalar_i(d))], "any")
        }
    }));
    for axis in [-1i64, 0] {
        v.push(e(&format!("OneHot/axis={axis}"), "OneHot").ai("axis", axis).io(3, 1).dts(FI).g(|g| {
            let s = g.shape_max(0, 2, 12);
            let depth = g.rng.range(1, 5);
            let idx = g.i_range(&s, -depth, depth - 1);
            let values = if g.dt == DT::F32 { T::f(&[2], &[0.5, 2.0]) } else { T::i(&[2], &[-1, 9]) };
            case(vec![In::T(idx), In::T(T::scalar_i(depth as i32)), In::T(values)], "any")
        }));
    }
    for (key, axis, nsplit) in [("Split/axis=0", 0i64, 2usize), ("Split/axis=-1", -1, 3), ("Split/axis=1", 1, 2)] {
        v.push(e(key, "Split").ai("axis", axis).io(2, nsplit).dts(FI).g(move |g| {
            let mut s = g.shape(if axis == 1 { 2 } else { 1 }, 3);
            let r = s.len();
            let ax = if axis < 0 { r - 1 } else { axis as usize };
            let parts: Vec<i64> = (0..nsplit).map(|_| g.rng.range(0, 3)).collect();
            s[ax] = parts.iter().sum::<i64>() as usize;
            if s.iter().product::<usize>() == 0 {
                s[ax] = nsplit;
                let t = g.t(g.dt, &s);
                return case(vec![In::T(t), In::T(T::ints(&vec![1; nsplit]))], "explicit");
            }
            let t = g.t(g.dt, &s);
            case(vec![In::T(t), In::T(T::ints(&parts))], "explicit")
        }));
    }
    v.push(e("Split/num_outputs=2", "Split").ai("axis", 0).ai("num_outputs", 2).io(2, 2).dts(FI).g(|g| {
        let mut s = g.shape(1, 3);
        s[0] = 2 + g.rng.below(4);
        let t = g.t(g.dt, &s);
        case(vec![In::T(t), In::None], "num_outputs")
    }));
    v.push(e("Clip", "Clip").io(3, 1).dts(FI).g(|g| {
        let s = g.shape(0, 4);
        let t = g.t(g.dt, &s);
        let (lo, hi) = if g.dt == DT::F32 { (T::scalar_f(-1.5), T::scalar_f(2.25)) } else { (T::scalar_i(-3), T::scalar_i(4)) };
        let mn = if g.rng.chance(2, 3) { In::T(lo) } else { In::None };
        let mx = if g.rng.chance(2, 3) { In::T(hi) } else { In::None };
        case(vec![In::T(t), mn, mx], "any")
    }));
    for axis in [0i64, 1, -1] {
        v.push(e(&format!("Concat/axis={axis}"), "Concat").ai("axis", axis).io(3, 1).dts(FI).reserve(axis).g(move |g| {
            let s = g.shape_max(if axis == 1 { 2 } else { 1 }, 3, 40);
            let r = s.len();
            let ax = if axis < 0 { r - 1 } else { axis as usize };
            let n = 1 + g.rng.below(3);
            let mut ins = vec![];
            let empties = g.rng.chance(1, 5);
            for i in 0..n {
                let mut si = s.clone();
                si[ax] = if i > 0 && empties { 0 } else { g.rng.below(4) + if i == 0 { 1 } else { 0 } };
                ins.push(In::T(g.t(g.dt, &si)));
            }
            while ins.len() < 3 {
                ins.push(In::None);
            }
            case(ins, &format!("n={n}{}", if empties { ",rest_empty" } else { "" }))
        }));
    }
}

pub fn list() {
    let cat = catalogue();
    let mut rng = Rng::new(1);
    for en in &cat {
        match en.load() {
            Ok(op) => {
                let ip: Vec<u32> = op.in_place_inputs().iter().collect();
                let ot = op
                    .output_types(&rten::verif::OutputTypesContext { num_outputs: en.n_out })
                    .map(|l| l.len() as i64)
                    .unwrap_or(-1);
                let mut g = G { rng: &mut rng, dt: en.dts[0], special: false, exact: false };
                let c = (en.gen_fn)(&mut g);
                println!(
                    "{:40} name={:28} in_place={:?} comm={} rules={} n_in={} cls={}",
                    en.key,
                    op.name(),
                    ip,
                    op.is_commutative(),
                    ot,
                    c.inputs.len(),
                    c.cls
                );
            }
            Err(e) => println!("{:40} LOAD-ERROR {}", en.key, e),
        }
    }
    println!("entries: {}", cat.len());
}

/// Run every entry x dtype a few times and report how often `run` succeeds
/// (calibration of the generators).
pub fn smoke() {
    let cat = catalogue();
    let mut rng = Rng::new(7);
    for en in &cat {
        if en.big || (en.thr && !std::env::args().any(|a| a == "--thr")) {
            continue;
        }
        let op = match en.load() {
            Ok(op) => op,
            Err(e) => {
                println!("{:44} LOAD-ERROR {}", en.key, e);
                continue;
            }
        };
        for &dt in &en.dts {
            let (mut ok, mut err, mut pan) = (0, 0, 0);
            let mut first = String::new();
            for k in 0..30 {
                let mut g = G { rng: &mut rng, dt, special: k % 4 == 3 && !en.thr, exact: en.thr || (en.num == 1 && k % 2 == 0) };
                let c = (en.gen_fn)(&mut g);
                let mats: Vec<super::Mat> = c.inputs.iter().map(|i| super::Mat::new(i, None)).collect();
                let views: Vec<_> = mats.iter().map(|m| m.view()).collect();
                let o = super::run_normal(&*op, &views, en.n_out);
                match o.kind {
                    "ok" => ok += 1,
                    "err" => err += 1,
                    _ => pan += 1,
                }
                if o.kind != "ok" && first.is_empty() {
                    first = format!("{} [{}] {}", o.kind, c.cls, o.err);
                }
                if o.kind == "ok" && o.outputs.len() != en.n_out && first.is_empty() {
                    first = format!("n_out {} != declared {}", o.outputs.len(), en.n_out);
                }
            }
            if err + pan > 0 || !first.is_empty() {
                println!("{:44} {:4} ok={} err={} panic={} :: {}", en.key, dt.name(), ok, err, pan, first);
            }
        }
    }
}
