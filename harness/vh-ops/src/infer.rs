//! infer engine (see main.rs). Entry point: `vh-ops infer [options]`; sub-modes via further arguments.
pub fn main() {
    eprintln!("vh-ops infer: not implemented yet");
    std::process::exit(2);
}
