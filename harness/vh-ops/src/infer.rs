//! infer engine (C10): shape inference never contradicts execution.
//!
//! `vh-ops infer --out trace.ndjson [--per N] [--chains N] [--fold-chains N] [--ops A,B] [--only-case '<json>'] [--list]`
//!
//! Two drivers feed one record format (one `case` + one `ret` record per OPERATOR APPLICATION):
//!  * single: a single-operator ONNX model (seeded shapes / attributes / integer data) is loaded with
//!    optimisation off; the operator's `as_infer_shapes()` rule is called on a seeded ABSTRACTION of
//!    the concrete inputs (dim -> fixed or positive symbol or small expression; element of a small
//!    integer vector -> value, symbol or expression; whole tensor -> unknown) and `Model::run` is
//!    called on the concrete inputs;
//!  * chain: a multi-operator model (Shape/Gather/Concat/arithmetic/Equal/Where/... feeding
//!    Reshape/Expand/...) with symbolic input dims is run once with every value requested; the
//!    operators' rules are applied in plan order exactly as `rten::infer_shapes` does (inputs from
//!    constants, previously inferred values (simplified) or declared shapes); every operator of the
//!    chain becomes a case.
//! Nothing is judged here.  `specs/shape/Trace_ShapeInfer.tla` checks that the logged assignment is
//! consistent with (symbolic inputs, concrete inputs) and evaluates every inferred expression.
//!
//! Records (fixed field sets):
//!  {"ev":"case","id","mode","op","variant","attrs","env":[{"s","v","pos"}],
//!   "ins":[{"p","init","dt","shape","hv","vals","k","x"}]}
//!  {"ev":"ret","id","infer":"ok|err|panic|none","imsg","so":[{"k","x"}],
//!   "run":"ok|err|panic|loaderr","rmsg","outs":[{"p","dt","shape","hv","vals"}],"drv":"same|diff|na"}
//! `k` is the SymTensor kind: none | unknown | shape | vec | scalar; `x` the dims / elements as trees.

use std::collections::{BTreeMap, HashMap};
use std::sync::Arc;

use rten::verif::{Constant as GConst, Dimension, Node, NodeId, TypedConstant};
use rten::{Model, ModelOptions, Value};
use rten_shape_inference::{InferShapesContext, SymExpr, SymTensor, Symbol, SymbolGen};
use rten_tensor::Tensor;
use rten_tensor::prelude::*;
use vcommon::onnx::{self, Attr, Dim, Graph as OGraph, Node as ONode, TensorData, ValueInfo};
use vcommon::{Rng, Trace, Value as J, arg, arg_usize, guarded, json, quiet_panics};

// ------------------------------------------------------------------ concrete tensors

/// Integer-valued concrete tensor. `dt` is the run-time type ("f32" | "i32"), `ot` the ONNX
/// element type declared in the model (INT64 and BOOL are i32 at run time).
#[derive(Clone, Debug)]
pub struct T {
    pub shape: Vec<usize>,
    pub dt: &'static str,
    pub ot: i32,
    pub data: Vec<i64>,
}

fn numel(s: &[usize]) -> usize {
    s.iter().product()
}

impl T {
    fn new(shape: &[usize], dt: &'static str, data: Vec<i64>) -> T {
        assert_eq!(numel(shape), data.len(), "shape {shape:?}");
        T {
            shape: shape.to_vec(),
            dt,
            ot: if dt == "f32" { onnx::FLOAT } else { onnx::INT32 },
            data,
        }
    }
    fn f32(shape: &[usize], r: &mut Rng) -> T {
        let n = numel(shape);
        T::new(shape, "f32", (0..n).map(|_| r.range(-4, 4)).collect())
    }
    fn i32(shape: &[usize], r: &mut Rng, lo: i64, hi: i64) -> T {
        let n = numel(shape);
        T::new(shape, "i32", (0..n).map(|_| r.range(lo, hi)).collect())
    }
    fn i64s(v: &[i64]) -> T {
        let mut t = T::new(&[v.len()], "i32", v.to_vec());
        t.ot = onnx::INT64;
        t
    }
    fn i64_scalar(v: i64) -> T {
        let mut t = T::new(&[], "i32", vec![v]);
        t.ot = onnx::INT64;
        t
    }
    fn ot(mut self, ot: i32) -> T {
        self.ot = ot;
        self
    }
    fn to_value(&self) -> Value {
        let sh = self.shape.as_slice();
        if self.dt == "f32" {
            Tensor::from_data(sh, self.data.iter().map(|v| *v as f32).collect::<Vec<_>>()).into()
        } else if self.dt == "u8" {
            Tensor::from_data(sh, self.data.iter().map(|v| *v as u8).collect::<Vec<_>>()).into()
        } else if self.dt == "i8" {
            Tensor::from_data(sh, self.data.iter().map(|v| *v as i8).collect::<Vec<_>>()).into()
        } else {
            Tensor::from_data(sh, self.data.iter().map(|v| *v as i32).collect::<Vec<_>>()).into()
        }
    }
    fn to_onnx(&self, name: &str) -> onnx::Tensor {
        let d = &self.data;
        let data = match self.ot {
            onnx::FLOAT => TensorData::F32(d.iter().map(|v| *v as f32).collect()),
            onnx::INT32 => TensorData::I32(d.iter().map(|v| *v as i32).collect()),
            onnx::INT64 => TensorData::I64(d.clone()),
            onnx::BOOL => TensorData::Bool(d.iter().map(|v| *v != 0).collect()),
            onnx::UINT8 => TensorData::U8(d.iter().map(|v| *v as u8).collect()),
            onnx::INT8 => TensorData::I8(d.iter().map(|v| *v as i8).collect()),
            other => panic!("unsupported onnx type {other}"),
        };
        onnx::Tensor {
            name: name.to_string(),
            dims: self.shape.iter().map(|d| *d as i64).collect(),
            data,
        }
    }
    fn json(&self) -> J {
        let hv = self.data.len() <= MAX_VALS;
        json!({"p": true, "dt": self.dt, "shape": self.shape, "hv": hv,
               "vals": if hv { self.data.clone() } else { vec![] }})
    }
    fn from_json(j: &J, ot: i32) -> T {
        let dt = match j["dt"].as_str() {
            Some("f32") => "f32",
            Some("u8") => "u8",
            Some("i8") => "i8",
            _ => "i32",
        };
        T {
            shape: j["shape"].as_array().unwrap().iter().map(|x| x.as_u64().unwrap() as usize).collect(),
            dt,
            ot,
            data: j["vals"].as_array().unwrap().iter().map(|x| x.as_i64().unwrap()).collect(),
        }
    }
}

const MAX_VALS: usize = 64;

fn absent_json() -> J {
    json!({"p": false, "dt": "", "shape": [], "hv": false, "vals": []})
}

/// What execution produced, as a trace object.
fn value_json(v: &Value) -> J {
    fn small<I: Iterator<Item = Option<i64>>>(dt: &str, shape: &[usize], it: I) -> J {
        let n = numel(shape);
        let vals: Option<Vec<i64>> = if n <= MAX_VALS { it.collect() } else { None };
        match vals {
            Some(v) => json!({"p": true, "dt": dt, "shape": shape, "hv": true, "vals": v}),
            None => json!({"p": true, "dt": dt, "shape": shape, "hv": false, "vals": []}),
        }
    }
    match v {
        Value::FloatTensor(t) => small(
            "f32",
            t.shape(),
            t.iter().map(|x| {
                if x.is_finite() && x.fract() == 0.0 && x.abs() < (1u64 << 30) as f32 {
                    Some(*x as i64)
                } else {
                    None
                }
            }),
        ),
        Value::Int32Tensor(t) => small("i32", t.shape(), t.iter().map(|x| Some(*x as i64))),
        Value::Int8Tensor(t) => small("i8", t.shape(), t.iter().map(|x| Some(*x as i64))),
        Value::UInt8Tensor(t) => small("u8", t.shape(), t.iter().map(|x| Some(*x as i64))),
        _ => json!({"p": true, "dt": "seq", "shape": [], "hv": false, "vals": []}),
    }
}

// ------------------------------------------------------------------ symbolic values as JSON

fn tnode(op: &str, v: i32, s: &str, pos: bool, a: Vec<J>) -> J {
    json!({"op": op, "v": v, "s": s, "pos": pos, "a": a})
}

/// Expression tree in the record shape of specs/lib/SymExpr.tla.
pub fn tree(e: &SymExpr) -> J {
    let bin = |op: &str, l: &SymExpr, r: &SymExpr| tnode(op, 0, "", false, vec![tree(l), tree(r)]);
    match e {
        SymExpr::Value(x) => tnode("Val", *x, "", false, vec![]),
        SymExpr::Var(sym) => tnode("Var", 0, &sym.name, sym.positive, vec![]),
        SymExpr::Neg(x) => tnode("Neg", 0, "", false, vec![tree(x)]),
        SymExpr::Add(l, r) => bin("Add", l, r),
        SymExpr::Sub(l, r) => bin("Sub", l, r),
        SymExpr::Mul(l, r) => bin("Mul", l, r),
        SymExpr::Div(l, r) => bin("Div", l, r),
        SymExpr::DivCeil(l, r) => bin("DivCeil", l, r),
        SymExpr::Max(l, r) => bin("Max", l, r),
        SymExpr::Min(l, r) => bin("Min", l, r),
        SymExpr::Broadcast(l, r) => bin("Broadcast", l, r),
    }
}

fn untree(t: &J) -> SymExpr {
    let op = t["op"].as_str().unwrap();
    let kid = |i: usize| Arc::new(untree(&t["a"][i]));
    match op {
        "Val" => SymExpr::Value(t["v"].as_i64().unwrap() as i32),
        "Var" => SymExpr::Var(Arc::new(Symbol {
            name: t["s"].as_str().unwrap().to_string(),
            positive: t["pos"].as_bool().unwrap(),
            synthetic: false,
        })),
        "Neg" => SymExpr::Neg(kid(0)),
        "Add" => SymExpr::Add(kid(0), kid(1)),
        "Sub" => SymExpr::Sub(kid(0), kid(1)),
        "Mul" => SymExpr::Mul(kid(0), kid(1)),
        "Div" => SymExpr::Div(kid(0), kid(1)),
        "DivCeil" => SymExpr::DivCeil(kid(0), kid(1)),
        "Max" => SymExpr::Max(kid(0), kid(1)),
        "Min" => SymExpr::Min(kid(0), kid(1)),
        "Broadcast" => SymExpr::Broadcast(kid(0), kid(1)),
        _ => panic!("unknown op {op}"),
    }
}

fn sym_json(t: Option<&SymTensor>) -> J {
    let Some(t) = t else {
        return json!({"k": "none", "x": []});
    };
    if let Some(s) = t.as_scalar() {
        json!({"k": "scalar", "x": [tree(s)]})
    } else if let Some(v) = t.as_vector() {
        json!({"k": "vec", "x": v.iter().map(tree).collect::<Vec<_>>()})
    } else if let Some(dims) = t.shape() {
        json!({"k": "shape", "x": dims.map(|d| tree(&d)).collect::<Vec<_>>()})
    } else {
        json!({"k": "unknown", "x": []})
    }
}

fn sym_from_json(j: &J) -> Option<SymTensor> {
    let xs: Vec<SymExpr> = j["x"].as_array().unwrap().iter().map(untree).collect();
    match j["k"].as_str().unwrap() {
        "none" => None,
        "unknown" => Some(SymTensor::unknown("abstraction")),
        "shape" => Some(SymTensor::from_shape(xs)),
        "vec" => Some(SymTensor::from_vec(xs)),
        "scalar" => Some(SymTensor::from_scalar(xs.into_iter().next().unwrap())),
        k => panic!("bad kind {k}"),
    }
}

// ------------------------------------------------------------------ abstraction

/// Seeded abstraction of concrete inputs into symbolic ones; records the assignment it implies.
struct Abst {
    r: Rng,
    /// symbol name -> (value, positive)
    env: BTreeMap<String, (i64, bool)>,
}

impl Abst {
    fn sym(&mut self, name: String, val: i64, pos: bool) -> SymExpr {
        assert!(!pos || val >= 0);
        self.env.insert(name.clone(), (val, pos));
        SymExpr::Var(Arc::new(Symbol {
            name,
            positive: pos,
            synthetic: false,
        }))
    }

    /// A symbol whose value is `val`; shared by value or unique to `tag`.
    fn sym_for(&mut self, tag: &str, val: i64, must_pos: bool) -> SymExpr {
        let pos = must_pos || (val >= 0 && self.r.chance(7, 10));
        let shared = self.r.chance(1, 2);
        let v = if val < 0 { format!("m{}", -val) } else { format!("{val}") };
        let name = match (shared, pos) {
            (true, true) => format!("n{v}"),
            (true, false) => format!("u{v}"),
            (false, true) => format!("p_{tag}"),
            (false, false) => format!("q_{tag}"),
        };
        self.sym(name, val, pos)
    }

    /// Small expression that evaluates to `c` under the recorded assignment.
    fn expr_for(&mut self, tag: &str, c: i64) -> SymExpr {
        let k = *self.r.pick(&[1i64, 2, -1, 3, 5, -2]);
        let val = |x: i64| SymExpr::Value(x as i32);
        match self.r.below(9) {
            0 => -self.sym_for(tag, -c, false),
            1 => self.sym_for(tag, c - k, false) + val(k),
            2 => self.sym_for(tag, c + k, false) - val(k),
            3 if c % k == 0 => self.sym_for(tag, c / k, false) * val(k),
            4 => val(k) - self.sym_for(tag, k - c, false),
            5 => {
                let d = *self.r.pick(&[2i64, 3]);
                let rem = self.r.range(0, d - 1);
                let x = if c > 0 { c * d + rem } else if c < 0 { c * d - rem } else { self.r.range(-(d - 1), d - 1) };
                self.sym_for(tag, x, false) / val(d)
            }
            6 => self.sym_for(tag, c, false).max(&val(c - self.r.range(0, 2))),
            7 => self.sym_for(tag, c, false).min(&val(c + self.r.range(0, 2))),
            _ => {
                let a = self.r.range(-2, 3);
                let t2 = format!("{tag}b");
                self.sym_for(tag, a, false) + self.sym_for(&t2, c - a, false)
            }
        }
    }

    fn dim(&mut self, tag: &str, size: usize) -> SymExpr {
        match self.r.below(20) {
            0..=8 => SymExpr::Value(size as i32),
            9..=17 => self.sym_for(tag, size as i64, true),
            _ => self.expr_for(tag, size as i64),
        }
    }

    fn elem(&mut self, tag: &str, v: i64) -> SymExpr {
        match self.r.below(20) {
            0..=7 => SymExpr::Value(v as i32),
            8..=14 => self.sym_for(tag, v, false),
            _ => self.expr_for(tag, v),
        }
    }

    /// Abstraction of input `k`. `values`: allow a value-carrying abstraction.
    fn input(&mut self, k: usize, t: &T, init: bool) -> SymTensor {
        let small_int = t.dt == "i32" && t.shape.len() <= 1 && t.data.len() <= 8;
        if init {
            // what the graph driver does for constants
            return if small_int && t.shape.is_empty() {
                SymTensor::from_scalar(SymExpr::Value(t.data[0] as i32))
            } else if small_int {
                SymTensor::from_vec(t.data.iter().map(|v| SymExpr::Value(*v as i32)).collect())
            } else {
                SymTensor::from_fixed_shape(&t.shape)
            };
        }
        let c = self.r.below(20);
        if c == 0 {
            return SymTensor::unknown("abstraction");
        }
        if small_int && c < 14 {
            let xs: Vec<SymExpr> = t.data.iter().enumerate().map(|(i, v)| self.elem(&format!("e{k}_{i}"), *v)).collect();
            return if t.shape.is_empty() {
                SymTensor::from_scalar(xs.into_iter().next().unwrap())
            } else {
                SymTensor::from_vec(xs)
            };
        }
        SymTensor::from_shape(t.shape.iter().enumerate().map(|(a, s)| self.dim(&format!("d{k}_{a}"), *s)).collect())
    }

    fn env_json(&self) -> J {
        J::Array(self.env.iter().map(|(s, (v, p))| json!({"s": s, "v": v, "pos": p})).collect())
    }
}

// ------------------------------------------------------------------ single-operator cases

#[derive(Clone, Debug)]
pub struct Case {
    pub op: String,
    pub variant: String,
    pub domain: String,
    pub attrs: Vec<(String, Attr)>,
    pub ins: Vec<Option<T>>,
    pub init: Vec<bool>,
    pub nout: usize,
}

impl Case {
    fn new(op: &str, variant: &str) -> Case {
        Case {
            op: op.into(),
            variant: variant.into(),
            domain: String::new(),
            attrs: vec![],
            ins: vec![],
            init: vec![],
            nout: 1,
        }
    }
    fn input(mut self, t: T) -> Case {
        self.ins.push(Some(t));
        self.init.push(false);
        self
    }
    fn constant(mut self, t: T) -> Case {
        self.ins.push(Some(t));
        self.init.push(true);
        self
    }
    /// Runtime input or initializer, chosen by `as_init`.
    fn maybe_const(self, t: T, as_init: bool) -> Case {
        if as_init { self.constant(t) } else { self.input(t) }
    }
    fn skip(mut self) -> Case {
        self.ins.push(None);
        self.init.push(false);
        self
    }
    fn attr(mut self, name: &str, a: Attr) -> Case {
        self.attrs.push((name.into(), a));
        self
    }
    fn int(self, name: &str, v: i64) -> Case {
        self.attr(name, Attr::Int(v))
    }
    fn ints(self, name: &str, v: &[i64]) -> Case {
        self.attr(name, Attr::Ints(v.to_vec()))
    }
    fn nout(mut self, n: usize) -> Case {
        self.nout = n;
        self
    }
    fn attrs_str(&self) -> String {
        let mut s = String::new();
        for (n, a) in &self.attrs {
            let v = match a {
                Attr::Int(i) => format!("{i}"),
                Attr::Float(f) => format!("{f}"),
                Attr::Str(x) => x.clone(),
                Attr::Ints(v) => format!("{v:?}"),
                Attr::Tensor(t) => format!("tensor{:?}", t.dims),
                _ => "..".into(),
            };
            s.push_str(&format!("{n}={v};"));
        }
        s
    }
    fn attrs_json(&self) -> J {
        J::Array(
            self.attrs
                .iter()
                .map(|(n, a)| match a {
                    Attr::Int(i) => json!({"n": n, "k": "int", "v": [i]}),
                    Attr::Float(f) => json!({"n": n, "k": "flt", "v": [*f as i64]}),
                    Attr::Str(x) => json!({"n": n, "k": "str", "v": [x]}),
                    Attr::Ints(v) => json!({"n": n, "k": "ints", "v": v}),
                    Attr::Tensor(t) => {
                        let vals: Vec<i64> = match &t.data {
                            TensorData::I64(v) => v.clone(),
                            TensorData::I32(v) => v.iter().map(|x| *x as i64).collect(),
                            TensorData::F32(v) => v.iter().map(|x| *x as i64).collect(),
                            _ => vec![],
                        };
                        let kind = match &t.data {
                            TensorData::F32(_) => "tensf",
                            TensorData::I32(_) => "tensi32",
                            _ => "tensi64",
                        };
                        json!({"n": n, "k": kind, "v": vals, "dims": t.dims})
                    }
                    _ => json!({"n": n, "k": "other", "v": []}),
                })
                .collect(),
        )
    }

    fn model(&self) -> Vec<u8> {
        let in_names: Vec<String> = self
            .ins
            .iter()
            .enumerate()
            .map(|(k, t)| if t.is_some() { format!("i{k}") } else { String::new() })
            .collect();
        let mut n_in = in_names.len();
        while n_in > 0 && in_names[n_in - 1].is_empty() {
            n_in -= 1;
        }
        let out_names: Vec<String> = (0..self.nout).map(|k| format!("o{k}")).collect();
        let mut node = ONode::new(
            &self.op,
            &in_names[..n_in].iter().map(|s| s.as_str()).collect::<Vec<_>>(),
            &out_names.iter().map(|s| s.as_str()).collect::<Vec<_>>(),
        );
        node.domain = self.domain.clone();
        node.attrs = self.attrs.clone();
        let mut g = OGraph::default();
        g.nodes.push(node);
        for (k, t) in self.ins.iter().enumerate() {
            let Some(t) = t else { continue };
            if self.init[k] {
                g.initializers.push(t.to_onnx(&in_names[k]));
            } else {
                g.inputs.push(ValueInfo::new(&in_names[k], t.ot, None));
            }
        }
        for o in &out_names {
            g.outputs.push(ValueInfo::new(o, 0, None));
        }
        g.to_model()
    }
}

fn trunc(s: &str) -> String {
    s.chars().filter(|c| c.is_ascii() && !c.is_ascii_control() && *c != '"' && *c != '\\').take(120).collect()
}

fn load(bytes: Vec<u8>) -> Result<Model, String> {
    match guarded(|| {
        let mut opts = ModelOptions::with_all_ops();
        opts.enable_optimization(false);
        opts.load(bytes)
    }) {
        Ok(Ok(m)) => Ok(m),
        Ok(Err(e)) => Err(format!("loaderr: {e}")),
        Err(p) => Err(format!("panic in load: {p}")),
    }
}

/// Call the operator's inference rule; returns (outcome, message, outputs).
fn call_infer(opn: &rten::verif::OperatorNode, ins: &[Option<SymTensor>], sym_gen: &mut SymbolGen) -> (&'static str, String, Vec<SymTensor>) {
    let Some(rule) = opn.operator().as_infer_shapes() else {
        return ("none", String::new(), vec![]);
    };
    match guarded(|| rule.infer_shapes(InferShapesContext::new(ins), sym_gen)) {
        Ok(Ok(outs)) => ("ok", String::new(), outs),
        Ok(Err(e)) => ("err", trunc(&format!("{e:?}")), vec![]),
        Err(p) => ("panic", trunc(&p), vec![]),
    }
}

struct Emit<'a> {
    /// shards; `cur` selects the one the current case goes to
    trs: &'a mut Vec<Trace>,
    cur: usize,
    id: usize,
}

impl Emit<'_> {
    #[allow(clippy::too_many_arguments)]
    fn case(&mut self, mode: &str, op: &str, variant: &str, attrs: &str, env: J, ins: Vec<J>, extra: J) -> usize {
        self.id += 1;
        let mut rec = json!({"ev": "case", "id": self.id, "mode": mode, "op": op, "variant": variant,
                             "attrs": attrs, "env": env, "ins": ins});
        // replay information (not read by the spec)
        rec.as_object_mut().unwrap().insert("replay".into(), extra);
        self.trs[self.cur].emit(rec);
        self.id
    }
    fn ret(&mut self, rec: J) {
        self.trs[self.cur].emit(rec);
    }
    fn flush(&mut self) {
        self.trs[self.cur].flush();
    }
}

fn in_json(t: Option<&T>, init: bool, s: Option<&SymTensor>) -> J {
    let mut j = match t {
        Some(t) => t.json(),
        None => absent_json(),
    };
    let m = j.as_object_mut().unwrap();
    m.insert("init".into(), json!(init));
    let sj = sym_json(s);
    m.insert("k".into(), sj["k"].clone());
    m.insert("x".into(), sj["x"].clone());
    j
}

/// Run one single-operator case. `fixed_abs`: replay a recorded abstraction instead of drawing one.
fn run_single(em: &mut Emit, c: &Case, r: &mut Rng, fixed_abs: Option<(&J, &J)>) {
    let mut ab = Abst {
        r: Rng(r.next_u64()),
        env: BTreeMap::new(),
    };
    let (sym_ins, env): (Vec<Option<SymTensor>>, J) = match fixed_abs {
        Some((ins, env)) => (ins.as_array().unwrap().iter().map(sym_from_json).collect(), env.clone()),
        None => {
            let s: Vec<Option<SymTensor>> = c
                .ins
                .iter()
                .enumerate()
                .map(|(k, t)| t.as_ref().map(|t| ab.input(k, t, c.init[k])))
                .collect();
            (s, ab.env_json())
        }
    };
    let ins_json: Vec<J> = c
        .ins
        .iter()
        .enumerate()
        .map(|(k, t)| in_json(t.as_ref(), c.init[k], sym_ins[k].as_ref()))
        .collect();
    let replay = json!({"domain": c.domain, "attrs": c.attrs_json(), "nout": c.nout,
                        "ots": c.ins.iter().map(|t| t.as_ref().map(|t| t.ot).unwrap_or(0)).collect::<Vec<_>>(),
                        "data": c.ins.iter().map(|t| t.as_ref().map(|t| t.data.clone()).unwrap_or_default()).collect::<Vec<_>>()});
    let id = em.case("single", &c.op, &c.variant, &c.attrs_str(), env, ins_json, replay);
    em.flush();

    let absent: Vec<J> = vec![];
    let model = match load(c.model()) {
        Ok(m) => m,
        Err(e) => {
            em.ret(json!({"ev": "ret", "id": id, "infer": "none", "imsg": "", "so": absent,
                              "run": "loaderr", "rmsg": trunc(&e), "outs": absent, "drv": "na"}));
            return;
        }
    };
    // inference on the abstraction
    let graph = model.verif_graph();
    let opn = graph.iter().find_map(|(_, n)| if let Node::Operator(o) = n { Some(o) } else { None });
    let (infer, imsg, so) = match opn {
        Some(opn) => call_infer(opn, &sym_ins, &mut SymbolGen::new()),
        None => ("none", "no operator node".to_string(), vec![]),
    };
    // execution on the concrete inputs
    let run = guarded(|| -> Result<Vec<Value>, String> {
        let mut inputs = Vec::new();
        for (k, t) in c.ins.iter().enumerate() {
            let Some(t) = t else { continue };
            if c.init[k] {
                continue;
            }
            let id = model.node_id(&format!("i{k}")).map_err(|e| e.to_string())?;
            inputs.push((id, t.to_value().into()));
        }
        let mut outs = Vec::new();
        for k in 0..c.nout {
            outs.push(model.node_id(&format!("o{k}")).map_err(|e| e.to_string())?);
        }
        model.run(inputs, &outs, None).map_err(|e| e.to_string())
    });
    let (runs, rmsg, outs): (&str, String, Vec<J>) = match run {
        Ok(Ok(v)) => ("ok", String::new(), v.iter().map(value_json).collect()),
        Ok(Err(e)) => ("err", trunc(&e), vec![]),
        Err(p) => ("panic", trunc(&p), vec![]),
    };
    em.ret(json!({"ev": "ret", "id": id, "infer": infer, "imsg": imsg,
                      "so": so.iter().map(|s| sym_json(Some(s))).collect::<Vec<_>>(),
                      "run": runs, "rmsg": rmsg, "outs": outs, "drv": "na"}));
}

include!("infer_catalogue.rs");
include!("infer_chain.rs");

pub fn main() {
    quiet_panics();
    let out = arg("--out").unwrap_or_else(|| "-".into());
    let per = arg_usize("--per", 20);
    let nchains = arg_usize("--chains", 50);
    let nfold = arg_usize("--fold-chains", 50);
    let only_ops: Option<Vec<String>> = arg("--ops").map(|s| s.split(',').map(|x| x.to_string()).collect());
    let mut rng = Rng::from_env();
    if std::env::args().any(|a| a == "--list") {
        for (name, _) in catalogue() {
            println!("{name}");
        }
        return;
    }
    let shards = arg_usize("--shards", 1).max(1);
    let mut trs: Vec<Trace> = if shards == 1 {
        vec![Trace::create(&out)]
    } else {
        (0..shards).map(|k| Trace::create(&format!("{out}.{k}"))).collect()
    };
    let mut em = Emit { trs: &mut trs, cur: 0, id: 0 };
    let pool = rten::ThreadPool::with_num_threads(1);
    pool.run(|| {
        if let Some(cj) = arg("--only-case") {
            let cj: J = serde_json::from_str(&cj).expect("case json");
            replay_case(&mut em, &cj, &mut rng);
            return;
        }
        for (name, generate) in catalogue() {
            if let Some(only) = &only_ops {
                if !only.iter().any(|o| o == name) {
                    continue;
                }
            }
            // every operator draws from its own stream so that --ops does not change the cases
            let mut r = Rng::new(rng.0 ^ fxhash(name));
            for i in 0..per {
                em.cur = i % shards;
                let c = generate(&mut r);
                run_single(&mut em, &c, &mut r, None);
            }
        }
        if only_ops.is_none() || only_ops.as_ref().unwrap().iter().any(|o| o == "chain") {
            let mut r = Rng::new(rng.0 ^ fxhash("chain"));
            for i in 0..nchains {
                em.cur = i % shards;
                run_chain(&mut em, &mut r, None, "chain");
            }
            let mut r = Rng::new(rng.0 ^ fxhash("fold"));
            for i in 0..nfold {
                em.cur = i % shards;
                run_chain(&mut em, &mut r, None, "fold");
            }
        }
    });
    for t in trs.iter_mut() {
        t.flush();
    }
}

fn fxhash(s: &str) -> u64 {
    let mut h: u64 = 0xcbf29ce484222325;
    for b in s.bytes() {
        h ^= b as u64;
        h = h.wrapping_mul(0x100000001b3);
    }
    h
}

/// Re-run one recorded case (the `case` record of a trace) with the recorded abstraction.
fn replay_case(em: &mut Emit, cj: &J, rng: &mut Rng) {
    if cj["mode"].as_str() == Some("chain") {
        run_chain(em, rng, Some(cj), "chain");
        return;
    }
    let rp = &cj["replay"];
    let mut c = Case::new(cj["op"].as_str().unwrap(), cj["variant"].as_str().unwrap());
    c.domain = rp["domain"].as_str().unwrap_or("").to_string();
    c.nout = rp["nout"].as_u64().unwrap() as usize;
    for a in rp["attrs"].as_array().unwrap() {
        let n = a["n"].as_str().unwrap();
        let v = a["v"].as_array().unwrap();
        let ints = || v.iter().map(|x| x.as_i64().unwrap()).collect::<Vec<i64>>();
        let dims = || a["dims"].as_array().unwrap().iter().map(|x| x.as_i64().unwrap()).collect::<Vec<i64>>();
        let at = match a["k"].as_str().unwrap() {
            "int" => Attr::Int(v[0].as_i64().unwrap()),
            "flt" => Attr::Float(v[0].as_i64().unwrap() as f32),
            "str" => Attr::Str(v[0].as_str().unwrap().to_string()),
            "ints" => Attr::Ints(ints()),
            "tensf" => Attr::Tensor(onnx::Tensor { name: String::new(), dims: dims(), data: TensorData::F32(ints().iter().map(|x| *x as f32).collect()) }),
            "tensi32" => Attr::Tensor(onnx::Tensor { name: String::new(), dims: dims(), data: TensorData::I32(ints().iter().map(|x| *x as i32).collect()) }),
            "tensi64" => Attr::Tensor(onnx::Tensor { name: String::new(), dims: dims(), data: TensorData::I64(ints()) }),
            _ => continue,
        };
        c.attrs.push((n.to_string(), at));
    }
    for (k, i) in cj["ins"].as_array().unwrap().iter().enumerate() {
        if i["p"].as_bool().unwrap() {
            let mut t = T::from_json(i, rp["ots"][k].as_i64().unwrap() as i32);
            t.data = rp["data"][k].as_array().unwrap().iter().map(|x| x.as_i64().unwrap()).collect();
            c.ins.push(Some(t));
        } else {
            c.ins.push(None);
        }
        c.init.push(i["init"].as_bool().unwrap());
    }
    let sym: J = J::Array(cj["ins"].as_array().unwrap().iter().map(|i| json!({"k": i["k"], "x": i["x"]})).collect());
    run_single(em, &c, rng, Some((&sym, &cj["env"])));
}

#[allow(dead_code)]
fn unused(_: HashMap<NodeId, Dimension>, _: &GConst, _: Dim) {
    let _ = <GConst as TypedConstant<i32>>::as_scalar;
}
