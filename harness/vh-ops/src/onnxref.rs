//! onnxref engine (C15): single-operator ONNX models with seeded random shapes, attributes and
//! integer-valued data are run through `rten::Model::run`; the case (operator, attributes, complete
//! inputs) and what rten did (outputs / error / panic) are written as NDJSON. The expected outputs
//! are NOT computed here: `specs/ops/Trace_Onnx.tla` evaluates `OnnxOps.OnnxEval` on the logged
//! inputs and compares.
//!
//! `vh-ops onnxref --out trace.ndjson [--ops A,B,..] [--per N] [--grid N] [--first-id N] [--only-case '<case json>'] [--list]`
//!
//! Trace records (fixed field sets):
//!  {"ev":"case","id","op","tag","attrs":{name:[]|[v]},"ins":[{"p","shape","dtype","ot","data","init"}],"nout","vshape"}
//!  {"ev":"ret","id","outcome":"ok|err|loaderr|panic","msg","outs":[{"shape","dtype","data","nonint"}]}
//! f32 data is logged as its exact integer value (inputs are integer-valued by construction; a
//! non-integer / non-finite / huge f32 output element is logged as 0 and counted in `nonint`).

use rten::{Model, Value};
use rten_tensor::Tensor;
use rten_tensor::prelude::*;
use vcommon::onnx::{self, Attr, Graph, Node, TensorData, ValueInfo};
use vcommon::{Rng, Trace, Value as J, arg, arg_usize, guarded, json, quiet_panics, seed_from_env};

#[derive(Clone, Copy, PartialEq, Debug)]
pub enum Dt {
    F32,
    I32,
    I8,
    U8,
}

impl Dt {
    fn name(self) -> &'static str {
        match self {
            Dt::F32 => "f32",
            Dt::I32 => "i32",
            Dt::I8 => "i8",
            Dt::U8 => "u8",
        }
    }
    fn from_name(s: &str) -> Dt {
        match s {
            "f32" => Dt::F32,
            "i32" => Dt::I32,
            "i8" => Dt::I8,
            "u8" => Dt::U8,
            _ => panic!("bad dtype {s}"),
        }
    }
    /// Default ONNX element type.
    fn onnx(self) -> i32 {
        match self {
            Dt::F32 => onnx::FLOAT,
            Dt::I32 => onnx::INT32,
            Dt::I8 => onnx::INT8,
            Dt::U8 => onnx::UINT8,
        }
    }
    fn lo(self) -> i64 {
        match self {
            Dt::U8 => 0,
            Dt::I8 => -128,
            _ => -(1 << 30),
        }
    }
    fn hi(self) -> i64 {
        match self {
            Dt::U8 => 255,
            Dt::I8 => 127,
            _ => 1 << 30,
        }
    }
}

/// Integer-valued tensor. `ot` = ONNX element type declared in the model (INT64/BOOL/DOUBLE are
/// i32/i32/f32 at run time).
#[derive(Clone, Debug)]
pub struct T {
    pub shape: Vec<usize>,
    pub dt: Dt,
    pub ot: i32,
    pub data: Vec<i64>,
    /// common denominator of `data` (1 except for Resize `scales`): element value = data / den
    pub den: i64,
}

impl T {
    fn new(shape: Vec<usize>, dt: Dt, data: Vec<i64>) -> T {
        assert_eq!(shape.iter().product::<usize>(), data.len());
        T {
            shape,
            dt,
            ot: dt.onnx(),
            data,
            den: 1,
        }
    }
    fn den(mut self, den: i64) -> T {
        self.den = den;
        self
    }
    fn ot(mut self, ot: i32) -> T {
        self.ot = ot;
        self
    }
    fn i64s(v: Vec<i64>) -> T {
        T::new(vec![v.len()], Dt::I32, v).ot(onnx::INT64)
    }
    fn scalar(dt: Dt, v: i64) -> T {
        T::new(vec![], dt, vec![v])
    }
    fn json(&self, init: bool) -> J {
        json!({"p": true, "shape": self.shape, "dtype": self.dt.name(), "ot": self.ot, "data": self.data, "den": self.den, "init": init})
    }
    fn from_json(j: &J) -> Option<T> {
        if !j["p"].as_bool().unwrap_or(false) {
            return None;
        }
        Some(T {
            shape: j["shape"].as_array().unwrap().iter().map(|x| x.as_u64().unwrap() as usize).collect(),
            dt: Dt::from_name(j["dtype"].as_str().unwrap()),
            ot: j["ot"].as_i64().unwrap() as i32,
            data: j["data"].as_array().unwrap().iter().map(|x| x.as_i64().unwrap()).collect(),
            den: j["den"].as_i64().unwrap_or(1),
        })
    }
    fn to_value(&self) -> Value {
        let sh = self.shape.as_slice();
        match self.dt {
            Dt::F32 => Tensor::from_data(sh, self.data.iter().map(|v| *v as f32 / self.den as f32).collect::<Vec<_>>()).into(),
            Dt::I32 => Tensor::from_data(sh, self.data.iter().map(|v| *v as i32).collect::<Vec<_>>()).into(),
            Dt::I8 => Tensor::from_data(sh, self.data.iter().map(|v| *v as i8).collect::<Vec<_>>()).into(),
            Dt::U8 => Tensor::from_data(sh, self.data.iter().map(|v| *v as u8).collect::<Vec<_>>()).into(),
        }
    }
    /// The same logical tensor stored column-major (strides[i] = prod(shape[..i])): a non-contiguous
    /// input, which reaches the operators' strided / scalar code paths.
    fn to_value_colmajor(&self) -> Value {
        let rank = self.shape.len();
        let mut strides = vec![1usize; rank];
        for i in 1..rank {
            strides[i] = strides[i - 1] * self.shape[i - 1];
        }
        let n = self.data.len();
        let mut perm = vec![0usize; n]; // storage offset of row-major position p
        let mut idx = vec![0usize; rank];
        for p in 0..n {
            perm[p] = idx.iter().zip(&strides).map(|(i, s)| i * s).sum();
            for d in (0..rank).rev() {
                idx[d] += 1;
                if idx[d] < self.shape[d] {
                    break;
                }
                idx[d] = 0;
            }
        }
        fn build<X: Copy + Default>(shape: &[usize], strides: &[usize], perm: &[usize], vals: Vec<X>) -> Tensor<X> {
            let mut store = vec![X::default(); vals.len()];
            for (p, v) in vals.into_iter().enumerate() {
                store[perm[p]] = v;
            }
            Tensor::from_data_with_strides(shape, store, strides).expect("column-major layout")
        }
        let (sh, st) = (self.shape.as_slice(), strides.as_slice());
        match self.dt {
            Dt::F32 => build(sh, st, &perm, self.data.iter().map(|v| *v as f32 / self.den as f32).collect()).into(),
            Dt::I32 => build(sh, st, &perm, self.data.iter().map(|v| *v as i32).collect()).into(),
            Dt::I8 => build(sh, st, &perm, self.data.iter().map(|v| *v as i8).collect()).into(),
            Dt::U8 => build(sh, st, &perm, self.data.iter().map(|v| *v as u8).collect()).into(),
        }
    }
    /// As an ONNX TensorProto (initializer / tensor attribute) of element type `ot`.
    fn to_onnx(&self, name: &str) -> onnx::Tensor {
        let d = &self.data;
        let data = match self.ot {
            onnx::FLOAT => TensorData::F32(d.iter().map(|v| *v as f32 / self.den as f32).collect()),
            onnx::INT32 => TensorData::I32(d.iter().map(|v| *v as i32).collect()),
            onnx::INT64 => TensorData::I64(d.clone()),
            onnx::UINT8 => TensorData::U8(d.iter().map(|v| *v as u8).collect()),
            onnx::INT8 => TensorData::I8(d.iter().map(|v| *v as i8).collect()),
            onnx::BOOL => TensorData::Bool(d.iter().map(|v| *v != 0).collect()),
            onnx::DOUBLE => {
                let mut raw = Vec::new();
                for v in d {
                    raw.extend_from_slice(&(*v as f64).to_le_bytes());
                }
                TensorData::Raw(onnx::DOUBLE, raw)
            }
            other => panic!("unsupported onnx type {other}"),
        };
        onnx::Tensor {
            name: name.to_string(),
            dims: self.shape.iter().map(|d| *d as i64).collect(),
            data,
        }
    }
}

#[derive(Clone, Debug)]
pub enum AV {
    Int(i64),
    Ints(Vec<i64>),
    /// list of integer lists (pseudo-attributes only)
    Lists(Vec<Vec<i64>>),
    Str(String),
    /// float attribute with an integer value
    Flt(i64),
    Tens(T),
}

#[derive(Clone, Debug)]
pub struct Case {
    pub op: String,
    /// coarse attribute / input class: part of the signature of a failing case
    pub tag: String,
    /// fine attribute combination (dtype, attribute settings): counted in the evidence file
    pub combo: String,
    /// None = attribute not set (logged as [], the spec applies the ONNX default)
    pub attrs: Vec<(String, Option<AV>)>,
    pub ins: Vec<Option<T>>,
    /// inputs supplied as initializers instead of graph inputs
    pub init: Vec<bool>,
    pub nout: usize,
    /// declare fixed input shapes in the graph's ValueInfo
    pub vshape: bool,
    /// feed input 0 as a non-contiguous (column-major) tensor
    pub view: bool,
}

impl Case {
    fn new(op: &str) -> Case {
        Case {
            op: op.to_string(),
            tag: String::new(),
            combo: String::new(),
            attrs: vec![],
            ins: vec![],
            init: vec![],
            nout: 1,
            vshape: false,
            view: false,
        }
    }
    fn input(mut self, t: T) -> Case {
        self.ins.push(Some(t));
        self.init.push(false);
        self
    }
    fn opt_input(mut self, t: Option<T>) -> Case {
        self.ins.push(t);
        self.init.push(false);
        self
    }
    fn attr(mut self, name: &str, v: Option<AV>) -> Case {
        self.attrs.push((name.to_string(), v));
        self
    }
    fn int(self, name: &str, v: Option<i64>) -> Case {
        self.attr(name, v.map(AV::Int))
    }
    fn tag(mut self, t: String) -> Case {
        self.tag = t;
        self
    }
    fn combo(mut self, t: String) -> Case {
        self.combo = t;
        self
    }
    fn nout(mut self, n: usize) -> Case {
        self.nout = n;
        self
    }

    fn json(&self, id: usize) -> J {
        let mut attrs = serde_json::Map::new();
        for (n, v) in &self.attrs {
            let jv = match v {
                None => json!([]),
                Some(AV::Int(i)) => json!([i]),
                Some(AV::Flt(i)) => json!([i]),
                Some(AV::Ints(v)) => json!([v]),
                Some(AV::Lists(v)) => json!([v]),
                Some(AV::Str(s)) => json!([s]),
                Some(AV::Tens(t)) => json!([t.json(true)]),
            };
            attrs.insert(n.clone(), jv);
        }
        // attribute kinds, needed to rebuild the model on --only-case
        let kinds: Vec<J> = self
            .attrs
            .iter()
            .map(|(n, v)| {
                json!([n, match v {
                    None => "none",
                    Some(AV::Int(_)) => "int",
                    Some(AV::Flt(_)) => "flt",
                    Some(AV::Ints(_)) => "ints",
                    Some(AV::Lists(_)) => "lists",
                    Some(AV::Str(_)) => "str",
                    Some(AV::Tens(_)) => "tens",
                }])
            })
            .collect();
        let ins: Vec<J> = self
            .ins
            .iter()
            .zip(&self.init)
            .map(|(t, init)| match t {
                Some(t) => t.json(*init),
                None => json!({"p": false, "shape": [], "dtype": "", "ot": 0, "data": [], "den": 1, "init": false}),
            })
            .collect();
        json!({"ev": "case", "id": id, "op": self.op, "tag": self.tag, "combo": self.combo, "attrs": J::Object(attrs), "akinds": kinds,
               "ins": ins, "nout": self.nout, "vshape": self.vshape, "view": self.view})
    }

    fn from_json(j: &J) -> Case {
        let mut c = Case::new(j["op"].as_str().unwrap());
        c.tag = j["tag"].as_str().unwrap_or("").to_string();
        c.combo = j["combo"].as_str().unwrap_or("").to_string();
        c.nout = j["nout"].as_u64().unwrap() as usize;
        c.vshape = j["vshape"].as_bool().unwrap_or(false);
        c.view = j["view"].as_bool().unwrap_or(false);
        for k in j["akinds"].as_array().unwrap() {
            let name = k[0].as_str().unwrap();
            let v = &j["attrs"][name];
            let av = match k[1].as_str().unwrap() {
                "none" => None,
                "int" => Some(AV::Int(v[0].as_i64().unwrap())),
                "flt" => Some(AV::Flt(v[0].as_i64().unwrap())),
                "ints" => Some(AV::Ints(v[0].as_array().unwrap().iter().map(|x| x.as_i64().unwrap()).collect())),
                "lists" => Some(AV::Lists(
                    v[0].as_array().unwrap().iter().map(|l| l.as_array().unwrap().iter().map(|x| x.as_i64().unwrap()).collect()).collect(),
                )),
                "str" => Some(AV::Str(v[0].as_str().unwrap().to_string())),
                "tens" => Some(AV::Tens(T::from_json(&v[0]).unwrap())),
                other => panic!("bad attr kind {other}"),
            };
            c.attrs.push((name.to_string(), av));
        }
        for i in j["ins"].as_array().unwrap() {
            c.ins.push(T::from_json(i));
            c.init.push(i["init"].as_bool().unwrap_or(false));
        }
        c
    }

    fn nseq(&self) -> usize {
        self.attrs
            .iter()
            .find(|(n, _)| n == "_nseq")
            .and_then(|(_, v)| match v {
                Some(AV::Int(i)) => Some(*i as usize),
                _ => None,
            })
            .unwrap_or(0)
    }

    fn model(&self) -> Vec<u8> {
        let in_names: Vec<String> = self
            .ins
            .iter()
            .enumerate()
            .map(|(k, t)| if t.is_some() { format!("i{k}") } else { String::new() })
            .collect();
        // trailing omitted inputs are dropped from the node's input list
        let mut n_in = in_names.len();
        while n_in > 0 && in_names[n_in - 1].is_empty() {
            n_in -= 1;
        }
        let out_names: Vec<String> = (0..self.nout).map(|k| format!("o{k}")).collect();
        // pseudo-attribute _nseq = n: the first n inputs are packed into a sequence by a preceding
        // SequenceConstruct node and the operator under test receives that sequence as its first input
        let nseq = self.nseq();
        let mut g = Graph::default();
        let main_inputs: Vec<String> = if nseq > 0 {
            let pre = Node::new(
                "SequenceConstruct",
                &in_names[..nseq].iter().map(|s| s.as_str()).collect::<Vec<_>>(),
                &["s0"],
            );
            g.nodes.push(pre);
            std::iter::once("s0".to_string()).chain(in_names[nseq..n_in.max(nseq)].iter().cloned()).collect()
        } else {
            in_names[..n_in].to_vec()
        };
        let mut node = Node::new(
            &self.op,
            &main_inputs.iter().map(|s| s.as_str()).collect::<Vec<_>>(),
            &out_names.iter().map(|s| s.as_str()).collect::<Vec<_>>(),
        );
        for (name, v) in &self.attrs {
            if name.starts_with('_') {
                continue; // pseudo-attribute: logged for the spec only (e.g. the parsed Einsum equation)
            }
            let a = match v {
                None => continue,
                Some(AV::Int(i)) => Attr::Int(*i),
                Some(AV::Flt(i)) => Attr::Float(*i as f32),
                Some(AV::Ints(v)) => Attr::Ints(v.clone()),
                Some(AV::Lists(_)) => continue,
                Some(AV::Str(s)) => Attr::Str(s.clone()),
                Some(AV::Tens(t)) => Attr::Tensor(t.to_onnx("")),
            };
            node = node.attr(name, a);
        }
        g.nodes.push(node);
        for (k, t) in self.ins.iter().enumerate() {
            let Some(t) = t else { continue };
            if self.init[k] {
                g.initializers.push(t.to_onnx(&in_names[k]));
            } else if self.vshape {
                let dims: Vec<i64> = t.shape.iter().map(|d| *d as i64).collect();
                g.inputs.push(ValueInfo::fixed(&in_names[k], t.ot, &dims));
            } else {
                g.inputs.push(ValueInfo::new(&in_names[k], t.ot, None));
            }
        }
        for o in &out_names {
            g.outputs.push(ValueInfo::new(o, 0, None));
        }
        g.to_model()
    }
}

fn trunc(s: &str) -> String {
    s.chars().filter(|c| c.is_ascii() && !c.is_ascii_control()).take(160).collect()
}

fn out_json(v: &Value) -> J {
    fn ints<I: Iterator<Item = i64>>(shape: &[usize], dt: &str, it: I) -> J {
        json!({"shape": shape, "dtype": dt, "data": it.collect::<Vec<i64>>(), "nonint": 0})
    }
    match v {
        Value::FloatTensor(t) => {
            let mut nonint = 0;
            let data: Vec<i64> = t
                .iter()
                .map(|x| {
                    if x.is_finite() && x.fract() == 0.0 && x.abs() < (1u64 << 30) as f32 {
                        *x as i64
                    } else {
                        nonint += 1;
                        0
                    }
                })
                .collect();
            json!({"shape": t.shape(), "dtype": "f32", "data": data, "nonint": nonint})
        }
        Value::Int32Tensor(t) => ints(t.shape(), "i32", t.iter().map(|x| *x as i64)),
        Value::Int8Tensor(t) => ints(t.shape(), "i8", t.iter().map(|x| *x as i64)),
        Value::UInt8Tensor(t) => ints(t.shape(), "u8", t.iter().map(|x| *x as i64)),
        Value::Sequence(s) => json!({"shape": [s.len()], "dtype": "seq", "data": [], "nonint": 0}),
        _ => json!({"shape": [], "dtype": "unknown", "data": [], "nonint": 0}),
    }
}

/// Run one case on the real code. Returns the `ret` record (without id).
fn run_case(c: &Case) -> J {
    let bytes = c.model();
    let fail = |kind: &str, msg: &str| json!({"ev": "ret", "outcome": kind, "msg": trunc(msg), "outs": []});
    // load and run are guarded separately so that a panic can be attributed
    let model = match guarded(|| Model::load(bytes)) {
        Ok(Ok(m)) => m,
        Ok(Err(e)) => return fail("loaderr", &e.to_string()),
        Err(msg) => return fail("panic", &format!("in Model::load: {msg}")),
    };
    let r = guarded(|| -> Result<Vec<Value>, String> {
        let mut inputs = Vec::new();
        for (k, t) in c.ins.iter().enumerate() {
            let Some(t) = t else { continue };
            if c.init[k] {
                continue;
            }
            let id = model.node_id(&format!("i{k}")).map_err(|e| e.to_string())?;
            let v = if k == 0 && c.view { t.to_value_colmajor() } else { t.to_value() };
            inputs.push((id, v.into()));
        }
        let mut outs = Vec::new();
        for k in 0..c.nout {
            outs.push(model.node_id(&format!("o{k}")).map_err(|e| e.to_string())?);
        }
        model.run(inputs, &outs, None).map_err(|e| e.to_string())
    });
    match r {
        Ok(Ok(vals)) => {
            // a sequence output is logged as the list of its elements
            let mut outs = Vec::new();
            for v in &vals {
                match v {
                    Value::Sequence(sq) => outs.extend(sq.iter().map(|e| out_json(&e.to_owned()))),
                    v => outs.push(out_json(v)),
                }
            }
            json!({"ev": "ret", "outcome": "ok", "msg": "", "outs": outs})
        }
        Ok(Err(msg)) => fail("err", &msg),
        Err(msg) => fail("panic", &format!("in Model::run: {msg}")),
    }
}

// ------------------------------------------------------------------ generators

fn dims(r: &mut Rng, min_rank: usize, max_rank: usize, max_dim: usize, zero: bool) -> Vec<usize> {
    let rank = r.range(min_rank as i64, max_rank as i64) as usize;
    (0..rank)
        .map(|_| if zero && r.chance(1, 14) { 0 } else { r.range(1, max_dim as i64) as usize })
        .collect()
}

fn numel(s: &[usize]) -> usize {
    s.iter().product()
}

fn vals(r: &mut Rng, n: usize, lo: i64, hi: i64) -> Vec<i64> {
    (0..n).map(|_| r.range(lo, hi)).collect()
}

fn tensor(r: &mut Rng, shape: &[usize], dt: Dt, lo: i64, hi: i64) -> T {
    let lo = lo.max(dt.lo());
    let hi = hi.min(dt.hi()).max(lo);
    T::new(shape.to_vec(), dt, vals(r, numel(shape), lo, hi))
}

fn bools(r: &mut Rng, shape: &[usize]) -> T {
    tensor(r, shape, Dt::I32, 0, 1).ot(onnx::BOOL)
}

/// A shape broadcastable to (a prefix-trimmed version of) `out`.
fn operand_shape(r: &mut Rng, out: &[usize]) -> Vec<usize> {
    let drop = if r.chance(1, 3) { r.below(out.len() + 1) } else { 0 };
    out[drop..].iter().map(|d| if r.chance(1, 4) { 1 } else { *d }).collect()
}

fn num_dt(r: &mut Rng) -> Dt {
    // rten's arithmetic operators accept f32 / i32 only: i8 / u8 are exercised rarely
    *r.pick(&[Dt::F32, Dt::F32, Dt::F32, Dt::F32, Dt::F32, Dt::I32, Dt::I32, Dt::I32, Dt::I32, Dt::I32, Dt::I8, Dt::U8])
}

fn any_dt(r: &mut Rng) -> Dt {
    *r.pick(&[Dt::F32, Dt::F32, Dt::I32, Dt::I32, Dt::I8, Dt::U8])
}

fn opt_range(r: &mut Rng, lo: i64, hi: i64) -> Option<i64> {
    if r.chance(1, 4) { None } else { Some(r.range(lo, hi)) }
}

/// Axis in 0..rank, written negatively half of the time.
fn axis_in(r: &mut Rng, rank: usize) -> i64 {
    let a = r.below(rank.max(1)) as i64;
    if r.chance(1, 2) { a - rank as i64 } else { a }
}

fn maybe_neg(r: &mut Rng, a: i64, n: usize) -> i64 {
    if r.chance(1, 2) { a - n as i64 } else { a }
}

fn perm(r: &mut Rng, n: usize) -> Vec<i64> {
    let mut p: Vec<i64> = (0..n as i64).collect();
    r.shuffle(&mut p);
    p
}

fn b2s(b: Option<i64>) -> String {
    match b {
        None => "d".into(),
        Some(v) => v.to_string(),
    }
}

fn idx_ot(r: &mut Rng) -> i32 {
    if r.chance(1, 4) { onnx::INT32 } else { onnx::INT64 }
}

pub const OPS: &[&str] = &[
    "Add", "Sub", "Mul", "Div", "Mod", "Pow", "Neg", "Abs", "Sign", "Relu", "Identity", "Min", "Max", "Sum", "Mean",
    "Clip", "Equal", "Greater", "GreaterOrEqual", "Less", "LessOrEqual", "And", "Or", "Xor", "Not", "Where", "Cast",
    "Shape", "Size", "Reshape", "Squeeze", "Unsqueeze", "Flatten", "Transpose", "Expand", "Tile", "Concat", "Split",
    "Slice", "Gather", "GatherElements", "GatherND", "ScatterElements", "ScatterND", "Pad", "ReduceSum", "ReduceProd",
    "ReduceMin", "ReduceMax", "ReduceSumSquare", "ReduceL1", "ReduceMean", "ArgMax", "ArgMin", "CumSum", "TopK",
    "Trilu", "Range", "OneHot", "NonZero", "EyeLike", "ConstantOfShape", "DepthToSpace", "MatMul", "Gemm",
    "MatMulInteger", "Conv", "ConvTranspose", "ConvInteger", "MaxPool", "AveragePool", "GlobalMaxPool",
    "GlobalAveragePool", "Resize", "CastLike", "Scatter", "Ceil", "Floor", "Round", "IsInf", "IsNaN", "PRelu",
    "LeakyRelu", "ReverseSequence", "DequantizeLinear", "QuantizeLinear", "Einsum",
    "SequenceConstruct", "SequenceAt", "SequenceLength", "SequenceInsert", "SequenceErase", "ConcatFromSequence",
    "SplitToSequence", "Dropout", "DynamicQuantizeLinear",
];

fn gen_case(op: &str, r: &mut Rng) -> Case {
    let c = Case::new(op);
    let mut c = match op {
        "Add" | "Sub" | "Mul" => {
            let dt = num_dt(r);
            let out = dims(r, 0, 4, 4, true);
            let (sa, sb) = (operand_shape(r, &out), operand_shape(r, &out));
            c.input(tensor(r, &sa, dt, -9, 9)).input(tensor(r, &sb, dt, -9, 9)).tag(dt.name().into())
        }
        "Div" | "Mod" => {
            let dt = *r.pick(&[Dt::F32, Dt::F32, Dt::F32, Dt::F32, Dt::I32, Dt::I32, Dt::I32, Dt::I32, Dt::I32, Dt::I8, Dt::U8]);
            let out = dims(r, 0, 4, 4, true);
            let (sa, sb) = (operand_shape(r, &out), operand_shape(r, &out));
            let (a, mut b) = if dt == Dt::F32 && op == "Div" {
                let mut a = tensor(r, &sa, dt, -6, 6);
                a.data.iter_mut().for_each(|v| *v *= 2);
                (a, tensor(r, &sb, dt, -2, 2))
            } else {
                (tensor(r, &sa, dt, -20, 20), tensor(r, &sb, dt, -5, 5))
            };
            // zero divisors are undefined: mostly avoided
            let keep_zero = r.chance(1, 15);
            if !keep_zero {
                b.data.iter_mut().for_each(|v| {
                    if *v == 0 {
                        *v = 1
                    }
                });
            }
            let c = c.input(a).input(b);
            if op == "Mod" {
                let fmod = if dt == Dt::F32 { Some(1) } else { opt_range(r, 0, 1) };
                c.int("fmod", fmod).tag(format!("{},fmod={}", dt.name(), b2s(fmod)))
            } else {
                c.tag(dt.name().into())
            }
        }
        "Pow" => {
            let dt = *r.pick(&[Dt::F32, Dt::F32, Dt::I32]);
            let edt = if r.chance(1, 5) { *r.pick(&[Dt::F32, Dt::I32]) } else { dt };
            let out = dims(r, 0, 4, 4, true);
            let (sa, sb) = (operand_shape(r, &out), operand_shape(r, &out));
            c.input(tensor(r, &sa, dt, -3, 3)).input(tensor(r, &sb, edt, 0, 4)).tag(format!("{}^{}", dt.name(), edt.name()))
        }
        "Neg" | "Abs" | "Sign" | "Relu" | "Identity" => {
            let dt = if op == "Identity" { any_dt(r) } else if op == "Relu" && r.chance(4, 5) { Dt::F32 } else { num_dt(r) };
            let s = dims(r, 0, 4, 4, true);
            c.input(tensor(r, &s, dt, -9, 9)).tag(dt.name().into())
        }
        "Min" | "Max" | "Sum" | "Mean" => {
            let dt = if op == "Mean" && r.chance(4, 5) { Dt::F32 } else { *r.pick(&[Dt::F32, Dt::F32, Dt::F32, Dt::I32, Dt::I32, Dt::I32, Dt::U8]) };
            let out = dims(r, 0, 4, 4, true);
            let n = r.range(1, 3) as usize;
            let mut c = c;
            for _ in 0..n {
                let s = operand_shape(r, &out);
                let mut t = tensor(r, &s, dt, -6, 6);
                if op == "Mean" {
                    // make sums divisible by n most of the time
                    t.data.iter_mut().for_each(|v| *v *= n as i64);
                    if dt == Dt::U8 {
                        t.data.iter_mut().for_each(|v| *v = (*v).clamp(0, 255));
                    }
                }
                c = c.input(t);
            }
            c.tag(format!("{},n={}", dt.name(), n))
        }
        "Clip" => {
            let dt = num_dt(r);
            let s = dims(r, 0, 4, 4, true);
            let lo = r.range(-6, 4);
            let hi = if r.chance(1, 8) { lo - r.range(1, 3) } else { lo + r.range(0, 6) };
            let (lo, hi) = if dt == Dt::U8 { (lo.max(0), hi.max(0)) } else { (lo, hi) };
            let has_lo = r.chance(3, 4);
            let has_hi = r.chance(3, 4);
            c.input(tensor(r, &s, dt, -9, 9))
                .opt_input(has_lo.then(|| T::scalar(dt, lo)))
                .opt_input(has_hi.then(|| T::scalar(dt, hi)))
                .tag(format!("{},min={},max={}{}", dt.name(), has_lo, has_hi, if has_lo && has_hi && lo > hi { ",min>max" } else { "" }))
        }
        "Equal" | "Greater" | "GreaterOrEqual" | "Less" | "LessOrEqual" => {
            let dt = num_dt(r);
            let out = dims(r, 0, 4, 4, true);
            let (sa, sb) = (operand_shape(r, &out), operand_shape(r, &out));
            c.input(tensor(r, &sa, dt, -3, 3)).input(tensor(r, &sb, dt, -3, 3)).tag(dt.name().into())
        }
        "And" | "Or" | "Xor" => {
            let out = dims(r, 0, 4, 4, true);
            let (sa, sb) = (operand_shape(r, &out), operand_shape(r, &out));
            c.input(bools(r, &sa)).input(bools(r, &sb)).tag("bool".into())
        }
        "Not" => {
            let s = dims(r, 0, 4, 4, true);
            c.input(bools(r, &s)).tag("bool".into())
        }
        "Where" => {
            let dt = num_dt(r);
            let out = dims(r, 0, 4, 4, true);
            let (sc, sa, sb) = (operand_shape(r, &out), operand_shape(r, &out), operand_shape(r, &out));
            c.input(bools(r, &sc)).input(tensor(r, &sa, dt, -9, 9)).input(tensor(r, &sb, dt, -9, 9)).tag(dt.name().into())
        }
        "Cast" => {
            let dt = any_dt(r);
            let to = *r.pick(&[onnx::FLOAT, onnx::UINT8, onnx::INT8, onnx::INT32, onnx::INT64, onnx::BOOL, onnx::DOUBLE, 10]);
            let s = dims(r, 0, 4, 4, true);
            let (lo, hi) = if r.chance(1, 6) { (-200, 300) } else if r.chance(1, 2) { (0, 100) } else { (-100, 100) };
            let is_int_target = matches!(to, onnx::UINT8 | onnx::INT8 | onnx::INT32 | onnx::INT64 | onnx::BOOL);
            if dt == Dt::F32 && is_int_target && r.chance(2, 3) {
                // fractional floats (halves / quarters, both signs) incl. values next to the target range ends
                let den = *r.pick(&[2i64, 4]);
                let mut x = tensor(r, &s, dt, -40 * den, 60 * den);
                let (tlo, thi) = match to {
                    onnx::UINT8 => (0, 255),
                    onnx::INT8 => (-128, 127),
                    _ => (-1000, 1000),
                };
                for v in x.data.iter_mut() {
                    if r.chance(1, 4) {
                        *v = *r.pick(&[tlo * den, tlo * den + 1, tlo * den - 1, thi * den, thi * den + den - 1, thi * den - 1, 1, -1, den - 1, 1 - den]);
                    }
                }
                c.input(x.den(den)).int("to", Some(to as i64)).tag(format!("f32(fractional)->{}", to))
            } else {
                c.input(tensor(r, &s, dt, lo, hi)).int("to", Some(to as i64)).tag(format!("{}->{}", dt.name(), to))
            }
        }
        "Shape" => {
            let dt = any_dt(r);
            let s = dims(r, 0, 4, 4, true);
            let start = if r.chance(1, 2) { Some(r.range(-6, 6)) } else { None };
            let end = if r.chance(1, 2) { Some(r.range(-6, 6)) } else { None };
            c.input(tensor(r, &s, dt, -9, 9)).int("start", start).int("end", end)
                .tag(format!("start={},end={}", start.is_some(), end.is_some()))
        }
        "Size" => {
            let dt = any_dt(r);
            let s = dims(r, 0, 4, 4, true);
            c.input(tensor(r, &s, dt, -9, 9)).tag(dt.name().into())
        }
        "Reshape" => {
            let dt = any_dt(r);
            let s = dims(r, 0, 4, 4, true);
            let n = numel(&s);
            // target with the same number of elements
            let mut tgt: Vec<i64> = match r.below(5) {
                0 => vec![n as i64],
                1 => s.iter().rev().map(|d| *d as i64).collect(),
                2 => {
                    // merge two adjacent dims
                    let mut v: Vec<i64> = s.iter().map(|d| *d as i64).collect();
                    if v.len() >= 2 {
                        let i = r.below(v.len() - 1);
                        let m = v[i] * v[i + 1];
                        v[i] = m;
                        v.remove(i + 1);
                    }
                    v
                }
                3 => {
                    // split one dim into factors
                    let mut v: Vec<i64> = s.iter().map(|d| *d as i64).collect();
                    if !v.is_empty() {
                        let i = r.below(v.len());
                        if v[i] == 4 {
                            v[i] = 2;
                            v.insert(i, 2);
                        } else {
                            v.insert(i, 1);
                        }
                    }
                    v
                }
                _ => s.iter().map(|d| *d as i64).collect(),
            };
            if r.chance(1, 3) {
                let i = r.below(tgt.len() + 1);
                tgt.insert(i, 1);
            }
            let allowzero = if r.chance(1, 4) { Some(r.range(0, 1)) } else { None };
            let az = allowzero == Some(1);
            let mut kind = "plain";
            if !tgt.is_empty() && r.chance(1, 3) {
                let i = r.below(tgt.len());
                tgt[i] = -1;
                kind = "neg1";
            }
            if !az && r.chance(1, 3) {
                // 0 = copy the input dim at that position
                for i in 0..tgt.len().min(s.len()) {
                    if tgt[i] == s[i] as i64 && r.chance(1, 2) {
                        tgt[i] = 0;
                        kind = if kind == "neg1" { "neg1+zero" } else { "zero" };
                    }
                }
            }
            if r.chance(1, 25) && !tgt.is_empty() {
                let i = r.below(tgt.len());
                tgt[i] += 1; // element count mismatch: undefined
            }
            c.input(tensor(r, &s, dt, -9, 9)).input(T::i64s(tgt)).int("allowzero", allowzero)
                .tag(format!("{},allowzero={}", kind, b2s(allowzero)))
        }
        "Squeeze" => {
            let dt = any_dt(r);
            let mut s = dims(r, 0, 4, 3, true);
            for d in s.iter_mut() {
                if r.chance(1, 2) {
                    *d = 1;
                }
            }
            let ones: Vec<usize> = (0..s.len()).filter(|i| s[*i] == 1).collect();
            let axes = if r.chance(1, 4) {
                None
            } else {
                let mut a: Vec<i64> = Vec::new();
                for i in &ones {
                    if r.chance(2, 3) {
                        a.push(maybe_neg(r, *i as i64, s.len()));
                    }
                }
                r.shuffle(&mut a);
                if r.chance(1, 20) && !s.is_empty() {
                    a.push(r.below(s.len()) as i64); // possibly not 1 / duplicate: undefined
                }
                Some(T::i64s(a))
            };
            let t = format!("axes={}", axes.is_some());
            c.input(tensor(r, &s, dt, -9, 9)).opt_input(axes).tag(t)
        }
        "Unsqueeze" => {
            let dt = any_dt(r);
            let s = dims(r, 0, 3, 3, true);
            let k = r.range(0, 2) as usize;
            let ro = s.len() + k;
            let mut pos: Vec<i64> = (0..ro as i64).collect();
            r.shuffle(&mut pos);
            let axes: Vec<i64> = pos[..k].iter().map(|a| maybe_neg(r, *a, ro)).collect();
            c.input(tensor(r, &s, dt, -9, 9)).input(T::i64s(axes)).tag(format!("n={k}"))
        }
        "Flatten" => {
            let dt = any_dt(r);
            let s = dims(r, 0, 4, 4, true);
            let axis = if r.chance(1, 4) { None } else { Some(r.range(-(s.len() as i64), s.len() as i64)) };
            c.input(tensor(r, &s, dt, -9, 9)).int("axis", axis).tag(format!("axis={}", match axis {
                None => "d",
                Some(a) if a < 0 => "neg",
                _ => "pos",
            }))
        }
        "Transpose" => {
            let dt = any_dt(r);
            let s = dims(r, 0, 4, 4, true);
            let p = if r.chance(1, 4) { None } else { Some(AV::Ints(perm(r, s.len()))) };
            let t = format!("perm={},rank={}", p.is_some(), s.len());
            c.input(tensor(r, &s, dt, -9, 9)).attr("perm", p).tag(t)
        }
        "Expand" => {
            let dt = any_dt(r);
            let out = dims(r, 0, 4, 4, true);
            let sa = operand_shape(r, &out);
            let sb: Vec<i64> = operand_shape(r, &out).iter().map(|d| *d as i64).collect();
            c.input(tensor(r, &sa, dt, -9, 9)).input(T::i64s(sb)).tag(dt.name().into())
        }
        "Tile" => {
            let dt = num_dt(r);
            let s = dims(r, 0, 4, 3, true);
            let reps: Vec<i64> = s.iter().map(|_| if r.chance(1, 10) { 0 } else { r.range(1, 3) }).collect();
            c.input(tensor(r, &s, dt, -9, 9)).input(T::i64s(reps)).tag(dt.name().into())
        }
        "Concat" => {
            let dt = num_dt(r);
            let s = dims(r, 1, 4, 3, true);
            let n = r.range(1, 3) as usize;
            let ax = r.below(s.len());
            let mut c = c;
            for _ in 0..n {
                let mut si = s.clone();
                si[ax] = r.range(0, 3) as usize;
                c = c.input(tensor(r, &si, dt, -9, 9));
            }
            let axis = maybe_neg(r, ax as i64, s.len());
            c.int("axis", Some(axis)).tag(format!("n={n},axis={}", if axis < 0 { "neg" } else { "pos" }))
        }
        "Split" => {
            let dt = any_dt(r);
            let mut s = dims(r, 1, 4, 3, true);
            let ax = r.below(s.len());
            let axis = if ax == 0 && r.chance(1, 3) { None } else { Some(maybe_neg(r, ax as i64, s.len())) };
            if r.chance(1, 2) {
                let n = r.range(1, 3) as usize;
                let sizes: Vec<i64> = (0..n).map(|_| r.range(0, 3)).collect();
                s[ax] = sizes.iter().sum::<i64>() as usize;
                c.input(tensor(r, &s, dt, -9, 9)).input(T::i64s(sizes)).int("axis", axis).int("num_outputs", None)
                    .nout(n).tag("split=sizes".into())
            } else {
                let n = r.range(1, 4) as usize;
                s[ax] = r.range(0, 8) as usize;
                let even = s[ax] % n == 0;
                c.input(tensor(r, &s, dt, -9, 9)).opt_input(None).int("axis", axis).int("num_outputs", Some(n as i64))
                    .nout(n).tag(format!("split=num_outputs,even={even}"))
            }
        }
        "Slice" => {
            let dt = any_dt(r);
            let s = dims(r, 1, 4, 4, true);
            let rank = s.len();
            let k = r.range(0, rank as i64) as usize;
            let p = perm(r, rank);
            let axes_v: Vec<i64> = p[..k].to_vec();
            let mut starts = vec![];
            let mut ends = vec![];
            let mut steps = vec![];
            let mut special = false;
            for a in &axes_v {
                let d = s[*a as usize] as i64;
                let mut pick = |r: &mut Rng| -> i64 {
                    match r.below(10) {
                        0 => {
                            special = true;
                            i32::MAX as i64
                        }
                        1 => {
                            special = true;
                            i32::MIN as i64
                        }
                        2 => {
                            special = true;
                            -(1 << 20)
                        }
                        _ => r.range(-d - 2, d + 2),
                    }
                };
                starts.push(pick(r));
                ends.push(pick(r));
                steps.push(*r.pick(&[1, 1, 1, 2, 3, -1, -1, -2, -3, 5, -5]));
            }
            let has_steps = r.chance(2, 3);
            let has_axes = has_steps || k < rank || r.chance(1, 2);
            // without an axes input the axes are 0..k-1
            let axes_in = if has_axes {
                Some(T::i64s(axes_v.iter().map(|a| maybe_neg(r, *a, rank)).collect()).ot(idx_ot(r)))
            } else {
                None
            };
            let (starts, ends) = if has_axes {
                (starts, ends)
            } else {
                // positional: entry i applies to axis i; recompute nothing, values are just reinterpreted
                (starts, ends)
            };
            let neg = has_steps && steps.iter().any(|s| *s < 0);
            c.input(tensor(r, &s, dt, -9, 9)).input(T::i64s(starts)).input(T::i64s(ends)).opt_input(axes_in)
                .opt_input(has_steps.then(|| T::i64s(steps)))
                .tag(format!("axes={has_axes},steps={},extreme={special}", if !has_steps { "d" } else if neg { "neg" } else { "pos" }))
        }
        "Gather" => {
            let dt = any_dt(r);
            let s = dims(r, 1, 4, 4, false);
            let ax = r.below(s.len());
            let is = dims(r, 0, 2, 3, true);
            let d = s[ax] as i64;
            let mut ind = tensor(r, &is, Dt::I32, -d, d - 1).ot(idx_ot(r));
            if r.chance(1, 25) && !ind.data.is_empty() {
                ind.data[0] = d + 1; // out of range: undefined
            }
            let axis = if ax == 0 && r.chance(1, 3) { None } else { Some(maybe_neg(r, ax as i64, s.len())) };
            c.input(tensor(r, &s, dt, -9, 9)).input(ind).int("axis", axis).tag(format!("{},irank={}", dt.name(), is.len()))
        }
        "GatherElements" => {
            let dt = any_dt(r);
            let s = dims(r, 1, 4, 4, false);
            let ax = r.below(s.len());
            let mut is: Vec<usize> = s
                .iter()
                .map(|d| {
                    let lo = if r.chance(1, 12) { 0 } else { 1 };
                    r.range(lo, *d as i64) as usize
                })
                .collect();
            is[ax] = r.range(0, 4) as usize;
            let d = s[ax] as i64;
            let ind = tensor(r, &is, Dt::I32, -d, d - 1).ot(idx_ot(r));
            let axis = if ax == 0 && r.chance(1, 3) { None } else { Some(maybe_neg(r, ax as i64, s.len())) };
            c.input(tensor(r, &s, dt, -9, 9)).input(ind).int("axis", axis).tag(dt.name().into())
        }
        "GatherND" => {
            let dt = any_dt(r);
            let s = dims(r, 1, 4, 3, false);
            let rank = s.len();
            let b = if rank >= 2 && r.chance(1, 3) { 1 } else { 0 };
            let k = r.range(1, (rank - b) as i64) as usize;
            let mut is: Vec<usize> = s[..b].to_vec();
            is.extend(dims(r, 0, 2, 3, true));
            is.push(k);
            let n = numel(&is);
            let neg = r.chance(1, 4);
            let data: Vec<i64> = (0..n)
                .map(|i| {
                    let d = s[b + i % k] as i64;
                    if neg { r.range(-d, d - 1) } else { r.range(0, d - 1) }
                })
                .collect();
            let ind = T::new(is, Dt::I32, data).ot(onnx::INT64);
            let bd = if b == 0 && r.chance(1, 2) { None } else { Some(b as i64) };
            c.input(tensor(r, &s, dt, -9, 9)).input(ind).int("batch_dims", bd).tag(format!("b={b},neg={neg}"))
        }
        "ScatterElements" => {
            let dt = *r.pick(&[Dt::F32, Dt::F32, Dt::I32, Dt::I32, Dt::U8]);
            let s = dims(r, 1, 3, 4, false);
            let rank = s.len();
            let ax = r.below(rank);
            let red = *r.pick(&["", "none", "add", "mul", "min", "max"]);
            let d = s[ax];
            let mut is: Vec<usize> = s
                .iter()
                .map(|d| {
                    let lo = if r.chance(1, 12) { 0 } else { 1 };
                    r.range(lo, *d as i64) as usize
                })
                .collect();
            let unique = red.is_empty() || red == "none";
            is[ax] = if unique { r.range(0, d as i64) as usize } else { r.range(0, 4) as usize };
            let n = numel(&is);
            let mut ind = vec![0i64; n];
            if unique {
                // per lane along `ax`: distinct targets
                let outer: usize = is[..ax].iter().product();
                let inner: usize = is[ax + 1..].iter().product();
                for o in 0..outer {
                    for i in 0..inner {
                        let p = perm(r, d);
                        for j in 0..is[ax] {
                            ind[(o * is[ax] + j) * inner + i] = p[j];
                        }
                    }
                }
                if r.chance(1, 25) && n >= 2 && is[ax] >= 2 {
                    let inner: usize = is[ax + 1..].iter().product();
                    ind[inner] = ind[0]; // duplicate: undefined
                }
            } else {
                for v in ind.iter_mut() {
                    *v = r.range(0, d as i64 - 1);
                }
            }
            let neg = r.chance(1, 3);
            if neg {
                for v in ind.iter_mut() {
                    if r.chance(1, 2) {
                        *v -= d as i64;
                    }
                }
            }
            let (lo, hi) = if red == "mul" { (-2, 2) } else { (-9, 9) };
            let upd = tensor(r, &is, dt, lo, hi);
            let axis = if ax == 0 && r.chance(1, 3) { None } else { Some(maybe_neg(r, ax as i64, rank)) };
            c.input(tensor(r, &s, dt, -9, 9)).input(T::new(is, Dt::I32, ind).ot(idx_ot(r))).input(upd).int("axis", axis)
                .attr("reduction", (!red.is_empty()).then(|| AV::Str(red.into())))
                .tag(format!("{},red={},neg={neg}", dt.name(), if red.is_empty() { "d" } else { red }))
        }
        "ScatterND" => {
            let dt = *r.pick(&[Dt::F32, Dt::F32, Dt::I32, Dt::I32, Dt::U8]);
            let s = dims(r, 1, 3, 3, false);
            let rank = s.len();
            let k = r.range(1, rank as i64) as usize;
            let red = *r.pick(&["", "none", "add", "mul", "min", "max"]);
            let unique = red.is_empty() || red == "none";
            let total: usize = s[..k].iter().product();
            let mut lead = dims(r, 0, 2, 3, true);
            if unique {
                while numel(&lead) > total {
                    lead.pop();
                }
            }
            let m = numel(&lead);
            let order = perm(r, total);
            let mut ind = vec![];
            for j in 0..m {
                let lin = if unique { order[j] as usize } else { r.below(total) };
                // unravel lin over s[..k]
                let mut rem = lin;
                let mut tup = vec![0i64; k];
                for d in (0..k).rev() {
                    tup[d] = (rem % s[d]) as i64;
                    rem /= s[d];
                }
                ind.extend(tup);
            }
            let mut is = lead.clone();
            is.push(k);
            let mut us = lead;
            us.extend_from_slice(&s[k..]);
            let (lo, hi) = if red == "mul" { (-2, 2) } else { (-9, 9) };
            let upd = tensor(r, &us, dt, lo, hi);
            c.input(tensor(r, &s, dt, -9, 9)).input(T::new(is, Dt::I32, ind).ot(onnx::INT64)).input(upd)
                .attr("reduction", (!red.is_empty()).then(|| AV::Str(red.into())))
                .tag(format!("{},red={}", dt.name(), if red.is_empty() { "d" } else { red }))
        }
        "Pad" => {
            let dt = *r.pick(&[Dt::F32, Dt::F32, Dt::I32, Dt::I32, Dt::U8, Dt::I8]);
            let mode = *r.pick(&["", "constant", "reflect", "edge", "wrap"]);
            let m = if mode.is_empty() { "constant" } else { mode };
            let s = dims(r, 1, 4, 4, m == "constant");
            let rank = s.len();
            let has_axes = r.chance(1, 3);
            let axes: Vec<i64> = if has_axes {
                let p = perm(r, rank);
                p[..r.range(0, rank as i64) as usize].to_vec()
            } else {
                (0..rank as i64).collect()
            };
            let n = axes.len();
            let mut pads = vec![0i64; 2 * n];
            let negp = m == "constant" && r.chance(1, 5);
            for (i, a) in axes.iter().enumerate() {
                let d = s[*a as usize] as i64;
                for e in 0..2 {
                    let hi = match m {
                        "reflect" => (d - 1).min(3),
                        _ => 3,
                    };
                    pads[e * n + i] = if r.chance(1, 3) { 0 } else { r.range(0, hi.max(0)) };
                    if negp && r.chance(1, 3) {
                        pads[e * n + i] = -r.range(0, d.min(2));
                    }
                }
            }
            let cv = if m == "constant" && r.chance(1, 2) { Some(T::scalar(dt, r.range(if dt == Dt::U8 { 0 } else { -5 }, 5))) } else { None };
            let axes_t = has_axes.then(|| T::i64s(axes.iter().map(|a| maybe_neg(r, *a, rank)).collect()).ot(idx_ot(r)));
            let t = format!("{},mode={},axes={has_axes},neg={negp},cv={}", dt.name(), if mode.is_empty() { "d" } else { mode }, cv.is_some());
            c.input(tensor(r, &s, dt, -9, 9)).input(T::i64s(pads)).opt_input(cv).opt_input(axes_t)
                .attr("mode", (!mode.is_empty()).then(|| AV::Str(mode.into()))).tag(t)
        }
        "ReduceSum" | "ReduceProd" | "ReduceMin" | "ReduceMax" | "ReduceSumSquare" | "ReduceL1" | "ReduceMean" => {
            let dt = if op == "ReduceMean" && r.chance(5, 6) { Dt::F32 } else { *r.pick(&[Dt::F32, Dt::F32, Dt::F32, Dt::I32, Dt::I32, Dt::I32, Dt::U8]) };
            let s = dims(r, 0, 4, if op == "ReduceProd" { 3 } else { 4 }, true);
            let rank = s.len();
            let axes = match r.below(4) {
                0 => None,
                1 => Some(vec![]),
                _ => {
                    let p = perm(r, rank);
                    Some(p[..r.range(0, rank as i64) as usize].iter().map(|a| maybe_neg(r, *a, rank)).collect())
                }
            };
            let keep = opt_range(r, 0, 1);
            let noop = if r.chance(1, 3) { Some(r.range(0, 1)) } else { None };
            let mut x = match op {
                "ReduceProd" => tensor(r, &s, dt, -2, 2),
                _ => tensor(r, &s, dt, -9, 9),
            };
            if op == "ReduceMean" && r.chance(3, 4) {
                // make every group sum divisible by the group size
                let g = match &axes {
                    None => numel(&s),
                    Some(a) if a.is_empty() && noop != Some(1) => numel(&s),
                    Some(a) => a.iter().map(|a| s[(if *a < 0 { *a + rank as i64 } else { *a }) as usize]).product(),
                };
                x.data.iter_mut().for_each(|v| *v = (*v * g as i64).clamp(dt.lo(), dt.hi()));
            }
            let empty = axes.as_ref().map(|a| a.is_empty());
            c.input(x).opt_input(axes.map(T::i64s)).int("keepdims", keep).int("noop_with_empty_axes", noop)
                .tag(format!("{},axes={},keep={},noop={}", dt.name(), match empty {
                    None => "absent",
                    Some(true) => "empty",
                    Some(false) => "given",
                }, b2s(keep), b2s(noop)))
        }
        "ArgMax" | "ArgMin" => {
            let dt = num_dt(r);
            let s = dims(r, 1, 4, 4, true);
            let ax = r.below(s.len());
            let axis = if ax == 0 && r.chance(1, 3) { None } else { Some(maybe_neg(r, ax as i64, s.len())) };
            let keep = opt_range(r, 0, 1);
            // select_last_index=1 is rejected by rten at load: exercised rarely
            let last = if r.chance(1, 2) { Some(if r.chance(1, 6) { 1 } else { 0 }) } else { None };
            c.input(tensor(r, &s, dt, -3, 3)).int("axis", axis).int("keepdims", keep).int("select_last_index", last)
                .tag(format!("{},keep={},last={}", dt.name(), b2s(keep), b2s(last)))
        }
        "CumSum" => {
            let dt = *r.pick(&[Dt::F32, Dt::F32, Dt::I32, Dt::I32]);
            let s = dims(r, 1, 4, 4, true);
            let ax0 = r.below(s.len()) as i64;
            let ax = maybe_neg(r, ax0, s.len());
            let excl = opt_range(r, 0, 1);
            let rev = opt_range(r, 0, 1);
            let axt = if r.chance(1, 2) { T::scalar(Dt::I32, ax).ot(idx_ot(r)) } else { T::new(vec![1], Dt::I32, vec![ax]).ot(idx_ot(r)) };
            c.input(tensor(r, &s, dt, -9, 9)).input(axt).int("exclusive", excl).int("reverse", rev)
                .tag(format!("{},excl={},rev={}", dt.name(), b2s(excl), b2s(rev)))
        }
        "TopK" => {
            let dt = *r.pick(&[Dt::F32, Dt::F32, Dt::I32, Dt::I32]);
            let s = dims(r, 1, 4, 4, true);
            let ax = r.below(s.len());
            let axis = if ax == s.len() - 1 && r.chance(1, 3) { None } else { Some(maybe_neg(r, ax as i64, s.len())) };
            let k = r.range(0, s[ax] as i64);
            let largest = opt_range(r, 0, 1);
            let sorted = if r.chance(1, 2) { Some(1) } else { None };
            c.input(tensor(r, &s, dt, -3, 3)).input(T::i64s(vec![k])).int("axis", axis).int("largest", largest).int("sorted", sorted)
                .nout(2).tag(format!("{},largest={}", dt.name(), b2s(largest)))
        }
        "Trilu" => {
            let dt = num_dt(r);
            let s = dims(r, 2, 4, 4, true);
            let k = if r.chance(1, 3) { None } else { Some(T::scalar(Dt::I32, r.range(-4, 4)).ot(onnx::INT64)) };
            let upper = opt_range(r, 0, 1);
            let t = format!("k={},upper={}", k.is_some(), b2s(upper));
            c.input(tensor(r, &s, dt, -9, 9)).opt_input(k).int("upper", upper).tag(t)
        }
        "Range" => {
            let dt = *r.pick(&[Dt::F32, Dt::I32, Dt::I32]);
            let start = r.range(-5, 5);
            let delta = *r.pick(&[1, 1, 2, 3, -1, -2, -3]);
            let limit = start + r.range(-8, 8);
            let ot = if dt == Dt::I32 && r.chance(1, 2) { onnx::INT64 } else { dt.onnx() };
            c.input(T::scalar(dt, start).ot(ot)).input(T::scalar(dt, limit).ot(ot)).input(T::scalar(dt, delta).ot(ot))
                .tag(format!("{},delta={}", dt.name(), if delta < 0 { "neg" } else { "pos" }))
        }
        "OneHot" => {
            let s = dims(r, 0, 3, 3, true);
            let depth = r.range(1, 4);
            let vdt = any_dt(r);
            let axis = if r.chance(1, 3) { None } else { Some(r.range(-(s.len() as i64) - 1, s.len() as i64)) };
            let ind = tensor(r, &s, Dt::I32, -depth - 1, depth + 1).ot(idx_ot(r));
            let depth_t = if r.chance(1, 2) { T::scalar(Dt::I32, depth).ot(onnx::INT64) } else { T::new(vec![1], Dt::I32, vec![depth]).ot(onnx::INT64) };
            let off = r.range(0, 3);
            let on = r.range(4, 9);
            c.input(ind).input(depth_t).input(T::new(vec![2], vdt, vec![off, on])).int("axis", axis)
                .tag(format!("{},axis={}", vdt.name(), match axis {
                    None => "d",
                    Some(a) if a < 0 => "neg",
                    _ => "pos",
                }))
        }
        "NonZero" => {
            let dt = num_dt(r);
            let s = dims(r, 1, 4, 4, true);
            c.input(tensor(r, &s, dt, -1, 1)).tag(dt.name().into())
        }
        "EyeLike" => {
            let dt = any_dt(r);
            let s = dims(r, 2, 2, 4, true);
            let k = opt_range(r, -3, 3);
            let to = if r.chance(1, 2) { Some(*r.pick(&[onnx::FLOAT, onnx::INT32, onnx::INT64, onnx::UINT8, onnx::INT8, onnx::DOUBLE]) as i64) } else { None };
            c.input(tensor(r, &s, dt, -9, 9)).int("dtype", to).int("k", k).tag(format!("{}->{}", dt.name(), b2s(to)))
        }
        "ConstantOfShape" => {
            let s = dims(r, 0, 4, 3, true);
            let v = if r.chance(1, 4) {
                None
            } else {
                let dt = any_dt(r);
                let ot = if dt == Dt::I32 { *r.pick(&[onnx::INT32, onnx::INT64, onnx::BOOL]) } else { dt.onnx() };
                let val = if ot == onnx::BOOL { r.range(0, 1) } else { r.range(if dt == Dt::U8 { 0 } else { -9 }, 9) };
                Some(T::new(vec![1], dt, vec![val]).ot(ot))
            };
            let t = match &v {
                None => "value=d".to_string(),
                Some(t) => format!("value={}", t.ot),
            };
            c.input(T::i64s(s.iter().map(|d| *d as i64).collect())).attr("value", v.map(AV::Tens)).tag(t)
        }
        "DepthToSpace" => {
            let dt = if r.chance(5, 6) { Dt::F32 } else { any_dt(r) };
            let b = *r.pick(&[1usize, 2, 2, 2, 3]);
            let c2 = r.range(1, if b == 3 { 1 } else { 3 }) as usize;
            let s = vec![r.range(1, 2) as usize, c2 * b * b, r.range(1, 3) as usize, r.range(1, 3) as usize];
            let mode = *r.pick(&["", "DCR", "CRD"]);
            c.input(tensor(r, &s, dt, -9, 9)).int("blocksize", Some(b as i64))
                .attr("mode", (!mode.is_empty()).then(|| AV::Str(mode.into())))
                .tag(format!("mode={},b={b}", if mode.is_empty() { "d" } else { mode }))
        }
        "MatMul" => {
            let dt = *r.pick(&[Dt::F32, Dt::F32, Dt::I32]);
            let klo = if r.chance(1, 12) { 0 } else { 1 };
            let (m, k, n) = (r.range(1, 4) as usize, r.range(klo, 4) as usize, r.range(1, 4) as usize);
            let kind = r.below(6);
            let batch = dims(r, 1, 2, 3, true);
            let (sa, sb, t): (Vec<usize>, Vec<usize>, &str) = match kind {
                0 => (vec![k], vec![k], "vec.vec"),
                1 => (vec![k], [operand_shape(r, &batch), vec![k, n]].concat(), "vec.mat"),
                2 => ([operand_shape(r, &batch), vec![m, k]].concat(), vec![k], "mat.vec"),
                3 | 4 => (vec![m, k], vec![k, n], "2d"),
                _ => ([operand_shape(r, &batch), vec![m, k]].concat(), [operand_shape(r, &batch), vec![k, n]].concat(), "batched"),
            };
            c.input(tensor(r, &sa, dt, -5, 5)).input(tensor(r, &sb, dt, -5, 5)).tag(format!("{},{t}", dt.name()))
        }
        "Gemm" => {
            let dt = *r.pick(&[Dt::F32, Dt::F32, Dt::F32, Dt::I32]);
            let klo = if r.chance(1, 12) { 0 } else { 1 };
            let (m, k, n) = (r.range(1, 4) as usize, r.range(klo, 4) as usize, r.range(1, 4) as usize);
            let ta = opt_range(r, 0, 1);
            let tb = opt_range(r, 0, 1);
            let sa = if ta == Some(1) { vec![k, m] } else { vec![m, k] };
            let sb = if tb == Some(1) { vec![n, k] } else { vec![k, n] };
            let cs: Option<Vec<usize>> = match r.below(7) {
                0 => None,
                1 => Some(vec![]),
                2 => Some(vec![1]),
                3 => Some(vec![n]),
                4 => Some(vec![m, 1]),
                5 => Some(vec![1, n]),
                _ => Some(vec![m, n]),
            };
            let alpha = if r.chance(1, 2) { Some(*r.pick(&[1i64, 2, -1, 0, 3])) } else { None };
            let beta = if r.chance(1, 2) { Some(*r.pick(&[1i64, 2, -1, 0, 3])) } else { None };
            let ct = cs.as_ref().map(|s| tensor(r, s, dt, -9, 9));
            let t = format!("{},transA={},transB={},C={},alpha={},beta={}", dt.name(), b2s(ta), b2s(tb),
                cs.map(|s| format!("{s:?}").replace(&m.to_string(), "M").replace(&n.to_string(), "N")).unwrap_or("none".into()),
                alpha.is_some(), beta.is_some());
            let tg = format!("{},transA={},transB={}", dt.name(), b2s(ta), b2s(tb));
            c.input(tensor(r, &sa, dt, -5, 5)).input(tensor(r, &sb, dt, -5, 5)).opt_input(ct)
                .attr("alpha", alpha.map(AV::Flt)).attr("beta", beta.map(AV::Flt)).int("transA", ta).int("transB", tb)
                .tag(tg).combo(t)
        }
        "MatMulInteger" => {
            let (da, db) = (*r.pick(&[Dt::U8, Dt::I8]), *r.pick(&[Dt::U8, Dt::I8]));
            let (m, k, n) = (r.range(1, 4) as usize, r.range(1, 4) as usize, r.range(1, 4) as usize);
            let batched = r.chance(1, 4);
            let batch = dims(r, 1, 2, 2, false);
            let (sa, sb) = if batched {
                ([operand_shape(r, &batch), vec![m, k]].concat(), [operand_shape(r, &batch), vec![k, n]].concat())
            } else {
                (vec![m, k], vec![k, n])
            };
            let mut zp = |r: &mut Rng, dt: Dt, n: usize| -> (Option<T>, &'static str) {
                match r.below(if batched { 3 } else { 4 }) {
                    0 => (None, "none"),
                    1 => (Some(tensor(r, &[], dt, -3, 9)), "scalar"),
                    2 => (Some(tensor(r, &[1], dt, -3, 9)), "[1]"),
                    _ => (Some(tensor(r, &[n], dt, -3, 9)), "vector"),
                }
            };
            let (za, ta) = zp(r, da, m);
            let (zb, tb) = if za.is_none() && r.chance(1, 2) { (None, "none") } else { zp(r, db, n) };
            // an omitted a_zero_point with a present b_zero_point needs an empty input name: keep both or none/first
            let za = if za.is_none() && zb.is_some() { Some(T::scalar(da, 0)) } else { za };
            c.input(tensor(r, &sa, da, -9, 9)).input(tensor(r, &sb, db, -9, 9)).opt_input(za).opt_input(zb)
                .tag(format!("{}x{},azp={ta},bzp={tb},batched={batched}", da.name(), db.name()))
        }
        "Conv" | "ConvInteger" | "ConvTranspose" => {
            // rten implements 1-D and 2-D convolution; 3-D is rejected with an error
            let nsp = *r.pick(&[1usize, 1, 1, 2, 2, 2, 2, 2, 2, 2, 2, 3]);
            let group = *r.pick(&[1usize, 1, 1, 2, 3]);
            let cg = r.range(1, 2) as usize;
            let mg = r.range(1, 2) as usize;
            let n = r.range(1, 2) as usize;
            let ks: Vec<usize> = (0..nsp).map(|_| r.range(1, 3) as usize).collect();
            let strides: Vec<i64> = (0..nsp).map(|_| *r.pick(&[1i64, 1, 2, 3])).collect();
            let dil: Vec<i64> = (0..nsp).map(|_| *r.pick(&[1i64, 1, 1, 2])).collect();
            let ins: Vec<usize> = (0..nsp).map(|i| r.range(1, 5).max(if r.chance(9, 10) { ((ks[i] as i64 - 1) * dil[i] + 1) - 1 } else { 1 }) as usize).collect();
            let auto = *r.pick(&["", "", "", "NOTSET", "VALID", "SAME_UPPER", "SAME_LOWER"]);
            let explicit_pads = auto.is_empty() || auto == "NOTSET";
            let pads: Option<Vec<i64>> = if explicit_pads && r.chance(2, 3) {
                Some((0..2 * nsp).map(|_| *r.pick(&[0i64, 0, 1, 1, 2])).collect())
            } else {
                None
            };
            let has_strides = r.chance(3, 4);
            let has_dil = r.chance(1, 2);
            // (rten derives the default strides / dilations from the kernel_shape attribute and rejects
            // models that omit it together with strides)
            let has_ks = r.chance(5, 6);
            let strides_a = has_strides.then(|| AV::Ints(strides.clone()));
            let dil_a = has_dil.then(|| AV::Ints(dil.clone()));
            let ks_a = has_ks.then(|| AV::Ints(ks.iter().map(|k| *k as i64).collect()));
            let auto_a = (!auto.is_empty()).then(|| AV::Str(auto.into()));
            let grp_a = if group == 1 && r.chance(1, 2) { None } else { Some(group as i64) };
            let tagc = format!("{}d,group={},auto_pad={},pads={},strides={},dil={}", nsp, if group == 1 { "1" } else { ">1" },
                if auto.is_empty() { "d" } else { auto }, pads.is_some(), has_strides && strides.iter().any(|s| *s > 1), has_dil && dil.iter().any(|d| *d > 1));
            let tag = format!("auto_pad={}", if auto.is_empty() { "NOTSET" } else { auto });
            if op == "ConvTranspose" {
                let xs = [vec![n, cg * group], ins.clone()].concat();
                let ws = [vec![cg * group, mg], ks.clone()].concat();
                let opad: Option<Vec<i64>> = if r.chance(1, 3) {
                    Some((0..nsp).map(|i| r.range(0, (strides[i].max(dil[i]) - 1).max(0))).collect())
                } else {
                    None
                };
                let bias = r.chance(1, 2).then(|| tensor(r, &[mg * group], Dt::F32, -5, 5));
                let tagc = format!("{tagc},opad={},bias={}", opad.is_some(), bias.is_some());
                c.input(tensor(r, &xs, Dt::F32, -4, 4)).input(tensor(r, &ws, Dt::F32, -3, 3)).opt_input(bias)
                    .attr("auto_pad", auto_a).attr("dilations", dil_a).int("group", grp_a).attr("kernel_shape", ks_a)
                    .attr("pads", pads.map(AV::Ints)).attr("strides", strides_a).attr("output_padding", opad.map(AV::Ints))
                    .tag(tag).combo(tagc)
            } else {
                let xs = [vec![n, cg * group], ins.clone()].concat();
                let ws = [vec![mg * group, cg], ks.clone()].concat();
                if op == "Conv" {
                    let bias = r.chance(1, 2).then(|| tensor(r, &[mg * group], Dt::F32, -5, 5));
                    let tagc = format!("{tagc},bias={}", bias.is_some());
                    c.input(tensor(r, &xs, Dt::F32, -4, 4)).input(tensor(r, &ws, Dt::F32, -3, 3)).opt_input(bias)
                        .attr("auto_pad", auto_a).attr("dilations", dil_a).int("group", grp_a).attr("kernel_shape", ks_a)
                        .attr("pads", pads.map(AV::Ints)).attr("strides", strides_a)
                        .tag(tag).combo(tagc)
                } else {
                    let (dx, dw) = (*r.pick(&[Dt::U8, Dt::U8, Dt::I8]), *r.pick(&[Dt::U8, Dt::I8, Dt::I8]));
                    let xz = r.chance(2, 3).then(|| tensor(r, &[], dx, -3, 9));
                    let wz = if xz.is_some() && r.chance(1, 2) {
                        Some(if r.chance(1, 3) { tensor(r, &[mg * group], dw, -3, 5) } else { tensor(r, &[], dw, -3, 5) })
                    } else {
                        None
                    };
                    let tagc = format!("{}x{},{tagc},xzp={},wzp={}", dx.name(), dw.name(), xz.is_some(),
                        wz.as_ref().map(|w| if w.shape.is_empty() { "scalar" } else { "vector" }).unwrap_or("none"));
                    c.input(tensor(r, &xs, dx, -9, 9)).input(tensor(r, &ws, dw, -5, 5)).opt_input(xz).opt_input(wz)
                        .attr("auto_pad", auto_a).attr("dilations", dil_a).int("group", grp_a).attr("kernel_shape", ks_a)
                        .attr("pads", pads.map(AV::Ints)).attr("strides", strides_a)
                        .tag(tag).combo(tagc)
                }
            }
        }
        "MaxPool" | "AveragePool" => {
            let nsp = *r.pick(&[1usize, 1, 2, 2, 2, 2, 2, 2, 2, 3]);
            // attributes are drawn uniformly (no dominating "common" value); the full cross product over a
            // small size grid is covered by grid_case
            let kmax = if op == "AveragePool" { 3 } else { 4 }; // (window counts must divide the data multiplier)
            let ks: Vec<usize> = (0..nsp).map(|_| r.range(1, kmax) as usize).collect();
            let strides: Vec<i64> = (0..nsp).map(|_| r.range(1, 3)).collect();
            let ins: Vec<usize> = (0..nsp).map(|i| r.range((ks[i] as i64 - 2).max(1), 8) as usize).collect();
            let auto = *r.pick(&["", "", "", "NOTSET", "VALID", "SAME_UPPER", "SAME_LOWER"]);
            let explicit_pads = auto.is_empty() || auto == "NOTSET";
            let pads: Option<Vec<i64>> = if explicit_pads && r.chance(4, 5) {
                Some((0..2 * nsp).map(|i| r.range(0, ks[i % nsp] as i64 - 1)).collect())
            } else {
                None
            };
            // (rten rejects pooling models that omit `strides`; dilations other than 1 are rejected at load)
            let has_strides = r.chance(9, 10);
            let ceil = *r.pick(&[None, Some(0), Some(0), Some(1), Some(1)]);
            let dil: Option<Vec<i64>> = if r.chance(1, 8) { Some((0..nsp).map(|_| *r.pick(&[1i64, 1, 2])).collect()) } else { None };
            let xs = [vec![r.range(1, 2) as usize, r.range(1, 2) as usize], ins].concat();
            let mut x = tensor(r, &xs, Dt::F32, -9, 9);
            let mut c = c;
            let mut extra = String::new();
            if op == "AveragePool" {
                x.data.iter_mut().for_each(|v| *v *= 5040);
                let cip = *r.pick(&[None, Some(0), Some(0), Some(1), Some(1)]);
                c = c.int("count_include_pad", cip);
                extra = format!(",count_include_pad={}", b2s(cip));
            }
            let tagc = format!("{}d,auto_pad={},pads={},strides={},ceil={},dil={}{extra}", nsp, if auto.is_empty() { "d" } else { auto },
                pads.is_some(), has_strides, b2s(ceil), dil.is_some());
            let tag = format!("auto_pad={},ceil={}{extra}", if auto.is_empty() { "NOTSET" } else { auto }, ceil == Some(1));
            c.input(x).attr("auto_pad", (!auto.is_empty()).then(|| AV::Str(auto.into()))).int("ceil_mode", ceil)
                .attr("dilations", dil.map(AV::Ints)).attr("kernel_shape", Some(AV::Ints(ks.iter().map(|k| *k as i64).collect())))
                .attr("pads", pads.map(AV::Ints)).attr("strides", has_strides.then(|| AV::Ints(strides))).int("storage_order", None)
                .tag(tag).combo(tagc)
        }
        "GlobalMaxPool" | "GlobalAveragePool" => {
            let nsp = r.range(1, 3) as usize;
            let sp: Vec<usize> = (0..nsp).map(|_| r.range(1, 3) as usize).collect();
            let xs = [vec![r.range(1, 2) as usize, r.range(1, 3) as usize], sp.clone()].concat();
            let mut x = tensor(r, &xs, Dt::F32, -9, 9);
            if op == "GlobalAveragePool" {
                let g = numel(&sp) as i64;
                x.data.iter_mut().for_each(|v| *v *= g);
            }
            c.input(x).tag(format!("{nsp}d"))
        }
        "Resize" => {
            let dt = *r.pick(&[Dt::F32, Dt::F32, Dt::F32, Dt::F32, Dt::F32, Dt::F32, Dt::F32, Dt::F32, Dt::I32, Dt::U8]);
            let rank = *r.pick(&[4usize, 4, 4, 3, 2]);
            let mut xs: Vec<usize> = (0..rank).map(|_| r.range(1, 4) as usize).collect();
            // scale factor per axis, in quarters; leading axes mostly 1
            let mut q: Vec<i64> = (0..rank)
                .map(|i| if i + 2 < rank && r.chance(14, 15) { 4 } else { *r.pick(&[1i64, 2, 2, 4, 4, 4, 8, 8, 8, 16, 16, 6]) })
                .collect();
            let use_sizes = r.chance(1, 2);
            for i in 0..rank {
                // shrinking: keep the extent divisible so that sizes has an exact power-of-two ratio
                if q[i] == 1 {
                    xs[i] = 4;
                } else if q[i] == 2 && xs[i] % 2 == 1 {
                    xs[i] += 1;
                }
                if q[i] == 6 && xs[i] % 2 == 1 && use_sizes {
                    q[i] = 8;
                }
            }
            let cm = *r.pick(&["", "half_pixel", "half_pixel", "pytorch_half_pixel", "pytorch_half_pixel", "asymmetric", "asymmetric", "align_corners", "align_corners", "half_pixel_symmetric"]);
            let nm = *r.pick(&["", "round_prefer_floor", "round_prefer_ceil", "floor", "ceil"]);
            let mode = if r.chance(1, 2) { Some(AV::Str("nearest".into())) } else { None };
            let mut out_sizes: Vec<i64> = (0..rank).map(|i| (xs[i] as i64 * q[i] / 4).max(1)).collect();
            if cm == "align_corners" && use_sizes {
                // exact when (in-1)/(out-1) is a power of two: extents from {1,2,3,5}
                for i in 0..rank {
                    if q[i] != 4 {
                        xs[i] = *r.pick(&[1usize, 2, 3, 5]);
                        out_sizes[i] = *r.pick(&[1i64, 2, 3, 5]);
                    } else {
                        out_sizes[i] = xs[i] as i64;
                    }
                }
            }
            let x = tensor(r, &xs, dt, -9, 9);
            let (scales, sizes) = if use_sizes {
                (None, Some(T::i64s(out_sizes)))
            } else {
                (Some(T::new(vec![rank], Dt::F32, q.clone()).den(4)), None)
            };
            let tag = format!("coord={},nearest={}", if cm.is_empty() { "d" } else { cm }, if nm.is_empty() { "d" } else { nm });
            let tagc = format!("{},{tag},{},rank={rank}", dt.name(), if use_sizes { "sizes" } else { "scales" });
            c.input(x).opt_input(None).opt_input(scales).opt_input(sizes)
                .attr("coordinate_transformation_mode", (!cm.is_empty()).then(|| AV::Str(cm.into())))
                .attr("nearest_mode", (!nm.is_empty()).then(|| AV::Str(nm.into()))).attr("mode", mode)
                .tag(tag).combo(tagc)
        }
        "CastLike" => {
            let (dt, tdt) = (any_dt(r), any_dt(r));
            let s = dims(r, 0, 4, 4, true);
            let (lo, hi) = if r.chance(1, 2) { (0, 100) } else { (-100, 100) };
            let ts = dims(r, 0, 2, 2, true);
            c.input(tensor(r, &s, dt, lo, hi)).input(tensor(r, &ts, tdt, 0, 5)).tag(format!("{}->{}", dt.name(), tdt.name()))
        }
        "Scatter" => {
            let mut c2 = gen_case("ScatterElements", r);
            c2.op = "Scatter".into();
            // Scatter has no reduction attribute: keep only cases generated with unique targets
            let unique = c2.attrs.iter().any(|(n, v)| n == "reduction" && match v {
                None => true,
                Some(AV::Str(s)) => s == "none",
                _ => false,
            });
            c2.attrs.retain(|(n, _)| n != "reduction");
            if !unique {
                // duplicates possible -> the spec will say undefined where they occur
                c2.combo.push_str(",maybe_dup");
            }
            return c2;
        }
        "Ceil" | "Floor" | "Round" | "IsInf" | "IsNaN" => {
            let s = dims(r, 0, 4, 4, true);
            if matches!(op, "Ceil" | "Floor" | "Round") && r.chance(3, 4) {
                // halves: k + 1/2 for even / odd / negative k (the ties of round-half-even) and integers
                c.input(tensor(r, &s, Dt::F32, -13, 13).den(2)).tag("f32,halves".into())
            } else {
                c.input(tensor(r, &s, Dt::F32, -9, 9)).tag("f32".into())
            }
        }
        "PRelu" => {
            let s = dims(r, 0, 4, 4, true);
            let mut ss = operand_shape(r, &s);
            if r.chance(1, 6) {
                ss = vec![];
            }
            c.input(tensor(r, &s, Dt::F32, -9, 9)).input(tensor(r, &ss, Dt::F32, -3, 3)).tag("f32".into())
        }
        "LeakyRelu" => {
            let s = dims(r, 0, 4, 4, true);
            let alpha = *r.pick(&[0i64, 1, 2, 3, -1]);
            c.input(tensor(r, &s, Dt::F32, -9, 9)).attr("alpha", Some(AV::Flt(alpha))).tag("f32".into())
        }
        "ReverseSequence" => {
            let dt = any_dt(r);
            let s = dims(r, 2, 4, 4, false);
            let (ba, ta): (Option<i64>, Option<i64>) = match r.below(3) {
                0 => (None, None),
                1 => (Some(1), Some(0)),
                _ => (Some(0), Some(1)),
            };
            let b = ba.unwrap_or(1) as usize;
            let t = ta.unwrap_or(0) as usize;
            let llo = if r.chance(1, 8) { 0 } else { 1 };
            let lens = vals(r, s[b], llo, s[t] as i64);
            c.input(tensor(r, &s, dt, -9, 9)).input(T::i64s(lens)).int("batch_axis", ba).int("time_axis", ta)
                .tag(format!("batch_axis={}", b2s(ba)))
        }
        "DequantizeLinear" => {
            let dt = *r.pick(&[Dt::U8, Dt::I8, Dt::I32]);
            let s = dims(r, 0, 4, 4, true);
            let per_axis = !s.is_empty() && r.chance(1, 3);
            let ax = r.below(s.len().max(1));
            let ps: Vec<usize> = if per_axis { vec![s[ax]] } else if r.chance(1, 2) { vec![] } else { vec![1] };
            let zp = r.chance(2, 3).then(|| tensor(r, &ps, dt, -5, 9));
            let axis = if per_axis { if ax == 1 && r.chance(1, 2) { None } else { Some(maybe_neg(r, ax as i64, s.len())) } } else { None };
            let t = format!("{},per_axis={per_axis},zp={}", dt.name(), zp.is_some());
            c.input(tensor(r, &s, dt, -20, 20)).input(tensor(r, &ps, Dt::F32, 1, 4)).opt_input(zp).int("axis", axis).tag(t)
        }
        "QuantizeLinear" => {
            // value pool aimed at the rounding / saturation points: exact ties x/scale = k + 1/2 (k even,
            // odd, negative), zero points of both parities and types, values that land on and next to
            // the ends of the output range, per-tensor and per-axis scales (powers of two: exact)
            let zdt = *r.pick(&[Dt::U8, Dt::I8]);
            let s = dims(r, 0, 4, 4, true);
            let per_axis = !s.is_empty() && r.chance(2, 5);
            let ax = r.below(s.len().max(1));
            let ps: Vec<usize> = if per_axis { vec![s[ax]] } else if r.chance(1, 2) { vec![] } else { vec![1] };
            // (rten rejects QuantizeLinear without y_zero_point with an error: exercised rarely)
            let zp = r.chance(7, 8).then(|| tensor(r, &ps, zdt, -5, 9));
            let axis = if per_axis { if ax == 1 && r.chance(1, 2) { None } else { Some(maybe_neg(r, ax as i64, s.len())) } } else { None };
            let mut sc = tensor(r, &ps, Dt::F32, 0, 2);
            sc.data.iter_mut().for_each(|v| *v = 1 << *v); // 1, 2, 4
            let den = *r.pick(&[1i64, 2, 2]);
            let (qlo, qhi) = match zp.as_ref().map(|z| z.dt) {
                Some(Dt::I8) => (-128i64, 127i64),
                _ => (0, 255),
            };
            let n = numel(&s);
            let inner: usize = if s.is_empty() { 1 } else { s[ax + 1..].iter().product() };
            let mut data = Vec::with_capacity(n);
            for p in 0..n {
                let ch = if per_axis { (p / inner) % s[ax] } else { 0 };
                let scale = sc.data[if sc.data.len() > 1 { ch } else { 0 }];
                let z = zp.as_ref().map(|z| z.data[if z.data.len() > 1 { ch } else { 0 }]).unwrap_or(0);
                // numerator of x over `den`
                let v = match r.below(10) {
                    0..=4 => {
                        // tie: x = scale * (k + 1/2)  =>  numerator den*scale*(2k+1)/2 (needs den*scale even)
                        let k = r.range(-9, 9);
                        if (den * scale) % 2 == 0 { den * scale / 2 * (2 * k + 1) } else { den * scale * k }
                    }
                    5 | 6 => {
                        // on / next to the ends of the output range (before and after adding the zero point)
                        let q = *r.pick(&[qlo - 2, qlo - 1, qlo, qlo + 1, qhi - 1, qhi, qhi + 1, qhi + 2]);
                        let half = if (den * scale) % 2 == 0 && r.chance(1, 2) { den * scale / 2 } else { 0 };
                        (q - z) * scale * den + half
                    }
                    7 => r.range(-600, 600) * den,
                    _ => r.range(-40 * den, 40 * den),
                };
                data.push(v);
            }
            let x = T::new(s.clone(), Dt::F32, data).den(den);
            let t = format!("zp={},per_axis={per_axis},den={den}", zp.as_ref().map(|z| z.dt.name()).unwrap_or("none"));
            let tg = if per_axis && axis.is_none() && s.len() > 2 { "per_axis,default_axis_is_not_last_axis" } else if per_axis { "per_axis" } else { "per_tensor" };
            c.input(x).input(sc).opt_input(zp).int("axis", axis).tag(tg.into()).combo(t)
        }
        "DynamicQuantizeLinear" => {
            // x in quarters; range chosen so that y_scale = (max - min) / 255 is 1/2, 1 or 2 (exact), values
            // on the ties of x / y_scale; min / max possibly not straddling 0 (range is extended to 0)
            let den = 4i64;
            let scale4 = *r.pick(&[2i64, 4, 4, 8]); // y_scale * 4
            let span = 255 * scale4; // (hi - lo) * 4
            let lo = match r.below(4) {
                0 => 0,
                1 => -span,
                _ => -(r.range(0, 255) * scale4),
            };
            let hi = lo + span;
            let s = dims(r, 1, 3, 4, false);
            let n = numel(&s);
            let mut data: Vec<i64> = (0..n)
                .map(|_| {
                    let k = r.range(0, 2 * 255); // multiples of y_scale / 2 inside [lo, hi]
                    lo + k * scale4 / 2
                })
                .collect();
            // the extreme values must be present (0 is implied)
            if lo < 0 {
                let i = r.below(n);
                data[i] = lo;
            }
            if hi > 0 && n >= 2 {
                let mut i = r.below(n);
                if data[i] == lo && lo < 0 {
                    i = (i + 1) % n;
                }
                data[i] = hi;
            } else if hi > 0 && lo == 0 {
                data[0] = hi;
            }
            let exact_scale = scale4 % 4 == 0;
            let nout = if exact_scale && r.chance(2, 3) { 3 } else { 1 };
            c.input(T::new(s, Dt::F32, data).den(den)).int("_nout", Some(nout as i64)).nout(nout)
                .tag(format!("scale={}/4,lo={},outputs={nout}", scale4, if lo == 0 { "0" } else if hi == 0 { "-span" } else { "mixed" }))
        }
        "Einsum" => {
            let dt = *r.pick(&[Dt::F32, Dt::F32, Dt::F32, Dt::I32]);
            // labels a..e with extents 1..3
            let ext: Vec<usize> = (0..5).map(|_| r.range(1, 3) as usize).collect();
            let n_in = *r.pick(&[1usize, 2, 2, 2, 3]);
            let mut terms: Vec<Vec<i64>> = Vec::new();
            for _ in 0..n_in {
                let rank = r.range(0, 3) as usize;
                let diag = r.chance(1, 12);
                let mut t: Vec<i64> = Vec::new();
                while t.len() < rank {
                    let l = r.below(5) as i64;
                    if diag || !t.contains(&l) {
                        t.push(l);
                    }
                }
                terms.push(t);
            }
            let mut labels: Vec<i64> = terms.iter().flatten().copied().collect();
            labels.sort();
            labels.dedup();
            let implicit = r.chance(1, 4);
            let mut out: Vec<i64> = Vec::new();
            if !implicit {
                r.shuffle(&mut labels);
                let k = r.range(0, labels.len() as i64) as usize;
                out = labels[..k].to_vec();
            }
            let ch = |l: &i64| (b'a' + *l as u8) as char;
            let mut eq: String = terms.iter().map(|t| t.iter().map(ch).collect::<String>()).collect::<Vec<_>>().join(",");
            if !implicit {
                eq.push_str("->");
                eq.extend(out.iter().map(ch));
            }
            let mut c = c;
            for t in &terms {
                let shape: Vec<usize> = t.iter().map(|l| ext[*l as usize]).collect();
                c = c.input(tensor(r, &shape, dt, -4, 4));
            }
            let kind = if terms.iter().any(|t| { let mut u = t.clone(); u.sort(); u.dedup(); u.len() != t.len() }) { "repeated_label" } else { "distinct_labels" };
            c.attr("equation", Some(AV::Str(eq.clone()))).attr("_terms", Some(AV::Lists(terms))).attr("_out", Some(AV::Ints(out)))
                .int("_implicit", Some(implicit as i64))
                .tag(format!("{},inputs={n_in},{kind},{}", dt.name(), if implicit { "implicit" } else { "explicit" }))
        }
        "SequenceConstruct" | "SequenceAt" | "SequenceLength" | "SequenceInsert" | "SequenceErase" | "ConcatFromSequence" => {
            let dt = any_dt(r);
            let n = r.range(1, 3) as usize;
            let base = dims(r, 0, 3, 3, true);
            let mut c = c;
            let stack = op == "ConcatFromSequence" && r.chance(1, 2);
            let cat_axis = if base.is_empty() { 0 } else { r.below(base.len()) };
            for _ in 0..n {
                let mut s = if op == "ConcatFromSequence" || r.chance(1, 2) { base.clone() } else { dims(r, 0, 3, 3, true) };
                if op == "ConcatFromSequence" && !stack && !s.is_empty() {
                    s[cat_axis] = r.range(0, 3) as usize;
                }
                c = c.input(tensor(r, &s, dt, -9, 9));
            }
            let n_i = n as i64;
            match op {
                "SequenceConstruct" => c.tag(format!("{},n={n}", dt.name())),
                "SequenceLength" => c.int("_nseq", Some(n_i)).tag(format!("n={n}")),
                "SequenceAt" => {
                    let pos = r.range(-n_i, n_i - 1);
                    c.input(T::scalar(Dt::I32, pos).ot(idx_ot(r))).int("_nseq", Some(n_i)).tag(format!("pos={}", if pos < 0 { "neg" } else { "pos" }))
                }
                "SequenceInsert" => {
                    let pos = if r.chance(1, 3) { None } else { Some(r.range(-n_i, n_i)) };
                    let s = if r.chance(1, 2) { base.clone() } else { dims(r, 0, 3, 3, true) };
                    let t = format!("pos={}", match pos {
                        None => "omitted",
                        Some(p) if p < 0 => "neg",
                        _ => "pos",
                    });
                    c.input(tensor(r, &s, dt, -9, 9)).opt_input(pos.map(|p| T::scalar(Dt::I32, p).ot(idx_ot(r)))).int("_nseq", Some(n_i)).tag(t)
                }
                "SequenceErase" => {
                    let pos = if r.chance(1, 3) { None } else { Some(r.range(-n_i, n_i - 1)) };
                    let t = format!("pos={}", match pos {
                        None => "omitted",
                        Some(p) if p < 0 => "neg",
                        _ => "pos",
                    });
                    c.opt_input(pos.map(|p| T::scalar(Dt::I32, p).ot(idx_ot(r)))).int("_nseq", Some(n_i)).tag(t)
                }
                _ => {
                    let rank = base.len() as i64;
                    let (axis, na) = if stack {
                        (r.range(-rank - 1, rank), Some(1))
                    } else {
                        (maybe_neg(r, cat_axis as i64, base.len()), if r.chance(1, 2) { Some(0) } else { None })
                    };
                    c.int("axis", Some(axis)).int("new_axis", na).int("_nseq", Some(n_i)).tag(format!("new_axis={},axis={}", b2s(na), if axis < 0 { "neg" } else { "pos" }))
                }
            }
        }
        "SplitToSequence" => {
            let dt = any_dt(r);
            let mut s = dims(r, 1, 3, 4, true);
            let ax = r.below(s.len());
            let axis = if ax == 0 && r.chance(1, 3) { None } else { Some(maybe_neg(r, ax as i64, s.len())) };
            let keep = opt_range(r, 0, 1);
            let (split, t): (Option<T>, &str) = match r.below(3) {
                0 => (None, "omitted"),
                1 => (Some(T::scalar(Dt::I32, r.range(1, 3)).ot(onnx::INT64)), "scalar"),
                _ => {
                    let n = r.range(1, 3) as usize;
                    let sizes: Vec<i64> = (0..n).map(|_| r.range(0, 3)).collect();
                    s[ax] = sizes.iter().sum::<i64>() as usize;
                    (Some(T::i64s(sizes)), "sizes")
                }
            };
            c.input(tensor(r, &s, dt, -9, 9)).opt_input(split).int("axis", axis).int("keepdims", keep)
                .tag(format!("split={t},keepdims={}", b2s(keep)))
        }
        "Dropout" => {
            let s = dims(r, 0, 4, 4, true);
            let dt = if r.chance(4, 5) { Dt::F32 } else { any_dt(r) };
            let ratio = r.chance(1, 2).then(|| T::scalar(Dt::F32, 0));
            let tm = if ratio.is_some() && r.chance(1, 3) { Some(T::scalar(Dt::I32, 0).ot(onnx::BOOL)) } else { None };
            let nout = r.range(1, 2) as usize;
            let t = format!("{},ratio={},training_mode={},outputs={nout}", dt.name(), ratio.is_some(), tm.is_some());
            c.input(tensor(r, &s, dt, -9, 9)).opt_input(ratio).opt_input(tm).nout(nout).tag(t)
        }
        other => panic!("no generator for {other}"),
    };
    c.vshape = r.chance(1, 3);
    // "parameter" inputs (everything but input 0) as initializers, sometimes
    if r.chance(1, 4) {
        for k in 1..c.ins.len() {
            if c.ins[k].is_some() {
                c.init[k] = true;
            }
        }
    }
    finish_case(&mut c, r);
    c
}

/// Common tail of every generated case: layout of input 0, signature class.
fn finish_case(c: &mut Case, r: &mut Rng) {
    // one case in five feeds input 0 as a non-contiguous (column-major) tensor
    if let Some(Some(t)) = c.ins.first() {
        if !c.init[0] && t.shape.len() >= 2 && t.data.len() >= 2 && r.chance(1, 5) {
            c.view = true;
        }
    }
    classify(c);
    if c.combo.is_empty() {
        c.combo = c.tag.clone();
    }
    if c.view {
        c.combo.push_str(",noncontiguous_input");
    }
}

/// Coarse input/attribute class used in failure signatures (`tag`); the generator's fine
/// description moves to `combo`. Purely descriptive: the spec never reads either.
fn classify(c: &mut Case) {
    let fine = c.tag.clone();
    let t = |k: usize| c.ins.get(k).and_then(|x| x.as_ref());
    let attr_int = |name: &str| -> Option<i64> {
        c.attrs.iter().find(|(n, _)| n == name).and_then(|(_, v)| match v {
            Some(AV::Int(i)) => Some(*i),
            _ => None,
        })
    };
    let coarse: Option<String> = match c.op.as_str() {
        "Add" | "Sub" | "Mul" | "Div" | "Mod" | "Pow" | "Equal" | "Greater" | "GreaterOrEqual" | "Less" | "LessOrEqual"
        | "And" | "Or" | "Xor" => {
            let (a, b) = (t(0).unwrap(), t(1).unwrap());
            let hi = (b.data.len() == 1 && b.shape.len() > a.shape.len()) || (a.data.len() == 1 && a.shape.len() > b.shape.len());
            Some(format!("{},{}", a.dt.name(), if hi { "one_elem_operand_of_higher_rank" } else { "plain" }))
        }
        "Sign" => {
            let a = t(0).unwrap();
            Some(format!("{},{}", a.dt.name(), if a.data.contains(&0) { "has_zero" } else { "no_zero" }))
        }
        "Cast" => {
            let a = t(0).unwrap();
            if attr_int("to") == Some(onnx::BOOL as i64) {
                Some(if a.data.iter().any(|v| *v != 0 && v.abs() < a.den) {
                    "to_bool,nonzero_fraction_below_one".into()
                } else if a.data.iter().any(|v| *v != 0 && *v != 1) {
                    "to_bool,values_not_0_1".into()
                } else {
                    "to_bool,values_0_1".into()
                })
            } else {
                None
            }
        }
        "Expand" => {
            let (a, sh) = (t(0).unwrap(), t(1).unwrap());
            Some(if sh.data.len() < a.shape.len() { "shape_shorter_than_input_rank".into() } else { "plain".into() })
        }
        "Slice" => {
            let x = t(0).unwrap();
            let (st, steps) = (t(1).unwrap(), t(4));
            let rank = x.shape.len() as i64;
            let mut below = false;
            let mut neg = false;
            if let Some(steps) = steps {
                for i in 0..st.data.len().min(steps.data.len()) {
                    let ax = match t(3) {
                        Some(a) if i < a.data.len() => a.data[i],
                        _ => i as i64,
                    };
                    let ax = if ax < 0 { ax + rank } else { ax };
                    if ax < 0 || ax >= rank {
                        continue;
                    }
                    let d = x.shape[ax as usize] as i64;
                    if steps.data[i] < 0 {
                        neg = true;
                        if st.data[i] < -d {
                            below = true;
                        }
                    }
                }
            }
            Some(if below { "negative_step,start_below_minus_dim".into() } else if neg { "negative_step".into() } else { "positive_step".into() })
        }
        "ArgMax" | "ArgMin" => {
            let x = t(0).unwrap();
            let rank = x.shape.len() as i64;
            let ax = attr_int("axis").unwrap_or(0);
            let ax = (if ax < 0 { ax + rank } else { ax }) as usize;
            let n = x.shape[ax];
            let inner: usize = x.shape[ax + 1..].iter().product();
            let outer: usize = x.shape[..ax].iter().product();
            let mut ties = false;
            for o in 0..outer {
                for i in 0..inner {
                    let lane: Vec<i64> = (0..n).map(|j| x.data[(o * n + j) * inner + i]).collect();
                    if lane.is_empty() {
                        continue;
                    }
                    let best = if c.op == "ArgMax" { *lane.iter().max().unwrap() } else { *lane.iter().min().unwrap() };
                    if lane.iter().filter(|v| **v == best).count() > 1 {
                        ties = true;
                    }
                }
            }
            let last = attr_int("select_last_index") == Some(1);
            Some(format!("{},{}", if ties { "ties" } else { "no_ties" }, if last { "select_last" } else { "select_first" }))
        }
        "ReduceSum" | "ReduceProd" | "ReduceMin" | "ReduceMax" | "ReduceSumSquare" | "ReduceL1" | "ReduceMean" => {
            let axes = match t(1) {
                None => "absent",
                Some(a) if a.data.is_empty() => "empty",
                _ => "given",
            };
            let src = if t(1).is_none() { "none" } else if c.init[1] { "constant" } else { "dynamic" };
            Some(format!("axes={axes},axes_input={src},noop={}", attr_int("noop_with_empty_axes").unwrap_or(0)))
        }
        "MatMul" => {
            let (a, b) = (t(0).unwrap(), t(1).unwrap());
            Some(format!("{},{}", a.dt.name(), if b.shape.len() == 1 && a.shape.len() >= 3 {
                "batched_matrix_times_vector"
            } else if a.shape.len() == 1 && b.shape.len() >= 3 {
                if b.data.is_empty() { "vector_times_empty_batched_matrix" } else { "vector_times_batched_matrix" }
            } else {
                "other"
            }))
        }
        "MatMulInteger" => {
            let (a, b) = (t(0).unwrap(), t(1).unwrap());
            let ab: usize = a.shape[..a.shape.len().saturating_sub(2)].iter().product();
            let bb: usize = b.shape[..b.shape.len().saturating_sub(2)].iter().product();
            Some(if bb > 1 && ab < bb { "lhs_broadcast_over_rhs_batch".into() } else { "no_lhs_batch_broadcast".into() })
        }
        "MaxPool" | "AveragePool" => {
            let auto = c.attrs.iter().find(|(n, _)| n == "auto_pad").and_then(|(_, v)| match v {
                Some(AV::Str(s)) => Some(s.clone()),
                _ => None,
            });
            Some(format!("auto_pad={}", auto.unwrap_or("NOTSET".into())))
        }
        "ScatterElements" | "Scatter" => {
            let (x, ind) = (t(0).unwrap(), t(1).unwrap());
            let rank = x.shape.len() as i64;
            let ax = attr_int("axis").unwrap_or(0);
            let ax = (if ax < 0 { ax + rank } else { ax }) as usize;
            let sub = (0..x.shape.len()).any(|d| d != ax && ind.shape[d] != x.shape[d]);
            Some(if sub { "indices_smaller_than_data_off_axis".into() } else { "indices_match_data_off_axis".into() })
        }
        _ => None,
    };
    if let Some(co) = coarse {
        c.combo = fine;
        c.tag = co;
    }
}

// ------------------------------------------------------------------ attribute grids
//
// For operators whose output depends on interacting shape-arithmetic attributes the independent random
// draws above hit a given combination rarely. `grid_case` enumerates the FULL cross product of those
// attributes over a small size grid (window operators: extent 1..8 x kernel 1..4 x stride 1..3 x
// (pad_begin, pad_end) in 0..2 squared or an auto_pad mode x ceil_mode / dilation (x count_include_pad);
// Slice: every start / end in -d-2..d+2 plus INT_MIN / INT_MAX x six steps; Pad: mode x extent x begin
// x end incl. negative pads; Resize: extent x power-of-two factor x sizes|scales x 4 coordinate x 4
// nearest modes; Split, Trilu, Range, TopK). `--grid N` runs all of a grid, or a seeded sample of N.

fn grid_size(op: &str) -> usize {
    match op {
        "MaxPool" | "Conv" | "ConvInteger" | "ConvTranspose" => 8 * 4 * 3 * 12 * 2,
        "AveragePool" => 8 * 4 * 3 * 12 * 2 * 2,
        "Slice" => (0..=5usize).map(|d| (2 * d + 7) * (2 * d + 7) * 6).sum(),
        "Pad" => 4 * 4 * 36,
        "Resize" => 8 * 5 * 2 * 4 * 4,
        "Split" => 9 * 4,
        "Trilu" => 9 * 8 * 2,
        "Range" => 5 * 11 * 6 * 2,
        "TopK" => 14 * 2 * 4,
        _ => 0,
    }
}

/// Mixed-radix decoding helper.
struct Digits(usize);
impl Digits {
    fn take(&mut self, radix: usize) -> usize {
        let d = self.0 % radix;
        self.0 /= radix;
        d
    }
}

fn grid_case(op: &str, idx: usize, r: &mut Rng) -> Option<Case> {
    let c = Case::new(op);
    let mut g = Digits(idx);
    let mut c = match op {
        "MaxPool" | "AveragePool" | "Conv" | "ConvInteger" | "ConvTranspose" => {
            let inn = g.take(8) + 1;
            let k = g.take(4) + 1;
            let st = (g.take(3) + 1) as i64;
            let padmode = g.take(12);
            let flag = g.take(2);
            let cip = if op == "AveragePool" { Some(g.take(2) as i64) } else { None };
            let is_pool = op == "MaxPool" || op == "AveragePool";
            let d: i64 = if is_pool { 1 } else { flag as i64 + 1 };
            let dk = (k as i64 - 1) * d + 1;
            let (auto, pb, pe): (&str, i64, i64) = match padmode {
                0..=8 => ("", (padmode / 3) as i64, (padmode % 3) as i64),
                9 => ("SAME_UPPER", 0, 0),
                10 => ("SAME_LOWER", 0, 0),
                _ => ("VALID", 0, 0),
            };
            if (inn as i64) + pb + pe < dk {
                return None; // the kernel never fits
            }
            if is_pool && (pb >= dk || pe >= dk) {
                return None; // pooling pads must be smaller than the kernel
            }
            if op == "ConvTranspose" && auto.starts_with("SAME") {
                return None; // not modelled
            }
            // optionally a second, trivial spatial axis; the grid axis is the first or the last one
            let two_d = r.chance(1, 2);
            let grid_first = r.chance(1, 2);
            let (in_o, k_o) = (r.range(1, 3) as usize, 1usize);
            let k_o = if in_o >= 2 && r.chance(1, 2) { 2 } else { k_o };
            let put = |a: i64, o: i64| -> Vec<i64> { if !two_d { vec![a] } else if grid_first { vec![a, o] } else { vec![o, a] } };
            let ins: Vec<usize> = put(inn as i64, in_o as i64).iter().map(|v| *v as usize).collect();
            let ks = put(k as i64, k_o as i64);
            let strides = put(st, 1);
            let dil = put(d, 1);
            let pads: Vec<i64> = [put(pb, 0), put(pe, 0)].concat();
            let explicit = auto.is_empty();
            let pads_attr = if explicit && (pb != 0 || pe != 0 || r.chance(1, 2)) { Some(AV::Ints(pads)) } else { None };
            let auto_attr = if explicit { if r.chance(1, 4) { Some(AV::Str("NOTSET".into())) } else { None } } else { Some(AV::Str(auto.into())) };
            let padclass = if !explicit { auto } else if pb == 0 && pe == 0 { "nopad" } else if pb == pe { "sym" } else if pb > pe { "begin>end" } else { "begin<end" };
            let tag = format!("auto_pad={}", if explicit { "NOTSET" } else { auto });
            let nsp = ins.len();
            if is_pool {
                let xs = [vec![1usize, r.range(1, 2) as usize], ins].concat();
                let mut x = tensor(r, &xs, Dt::F32, -9, 9);
                let mut c = c;
                if op == "AveragePool" {
                    x.data.iter_mut().for_each(|v| *v *= 2520);
                    c = c.int("count_include_pad", cip);
                }
                c.input(x).attr("auto_pad", auto_attr).int("ceil_mode", Some(flag as i64)).attr("dilations", None)
                    .attr("kernel_shape", Some(AV::Ints(ks))).attr("pads", pads_attr).attr("strides", Some(AV::Ints(strides)))
                    .int("storage_order", None).tag(tag)
                    .combo(format!("grid,{nsp}d,pads={padclass},stride={st},ceil={flag}{}", cip.map(|c| format!(",count_include_pad={c}")).unwrap_or_default()))
            } else {
                let (cg, mg) = (r.range(1, 2) as usize, r.range(1, 2) as usize);
                let dil_attr = if d > 1 || r.chance(1, 2) { Some(AV::Ints(dil)) } else { None };
                let combo = format!("grid,{nsp}d,pads={padclass},stride={st},dilation={d}");
                let kss: Vec<usize> = ks.iter().map(|v| *v as usize).collect();
                let xs = [vec![1usize, cg], ins].concat();
                let c = match op {
                    "ConvTranspose" => {
                        let ws = [vec![cg, mg], kss].concat();
                        let opad: Option<Vec<i64>> = if r.chance(1, 3) { Some(put(r.range(0, (st.max(d) - 1).max(0)), 0)) } else { None };
                        let bias = r.chance(1, 2).then(|| tensor(r, &[mg], Dt::F32, -5, 5));
                        c.input(tensor(r, &xs, Dt::F32, -4, 4)).input(tensor(r, &ws, Dt::F32, -3, 3)).opt_input(bias)
                            .attr("output_padding", opad.map(AV::Ints))
                    }
                    "Conv" => {
                        let ws = [vec![mg, cg], kss].concat();
                        let bias = r.chance(1, 2).then(|| tensor(r, &[mg], Dt::F32, -5, 5));
                        c.input(tensor(r, &xs, Dt::F32, -4, 4)).input(tensor(r, &ws, Dt::F32, -3, 3)).opt_input(bias)
                    }
                    _ => {
                        let ws = [vec![mg, cg], kss].concat();
                        let (dx, dw) = (*r.pick(&[Dt::U8, Dt::U8, Dt::I8]), *r.pick(&[Dt::U8, Dt::I8, Dt::I8]));
                        let xz = r.chance(2, 3).then(|| tensor(r, &[], dx, -3, 9));
                        let wz = if xz.is_some() && r.chance(1, 2) { Some(tensor(r, &[], dw, -3, 5)) } else { None };
                        c.input(tensor(r, &xs, dx, -9, 9)).input(tensor(r, &ws, dw, -5, 5)).opt_input(xz).opt_input(wz)
                    }
                };
                c.attr("auto_pad", auto_attr).attr("dilations", dil_attr).int("group", None)
                    .attr("kernel_shape", Some(AV::Ints(ks))).attr("pads", pads_attr).attr("strides", Some(AV::Ints(strides)))
                    .tag(tag).combo(combo)
            }
        }
        "Slice" => {
            let mut d = 0usize;
            let mut rest = idx;
            loop {
                let sz = (2 * d + 7) * (2 * d + 7) * 6;
                if rest < sz {
                    break;
                }
                rest -= sz;
                d += 1;
            }
            let mut g = Digits(rest);
            let nv = 2 * d + 7;
            let val = |i: usize| -> i64 {
                if i == nv - 2 { i32::MIN as i64 } else if i == nv - 1 { i32::MAX as i64 } else { i as i64 - d as i64 - 2 }
            };
            let (start, end) = (val(g.take(nv)), val(g.take(nv)));
            let step = [1i64, 2, 3, -1, -2, -3][g.take(6)];
            let dt = num_dt(r);
            let (shape, ax): (Vec<usize>, usize) = match r.below(3) {
                0 => (vec![d], 0),
                1 => (vec![d, r.range(1, 3) as usize], 0),
                _ => (vec![r.range(1, 3) as usize, d], 1),
            };
            let axis = maybe_neg(r, ax as i64, shape.len());
            let has_axes = ax != 0 || r.chance(2, 3);
            let has_steps = step != 1 || r.chance(1, 2);
            c.input(tensor(r, &shape, dt, -9, 9)).input(T::i64s(vec![start])).input(T::i64s(vec![end]))
                .opt_input((has_axes || has_steps).then(|| T::i64s(vec![if has_axes { axis } else { 0 }]).ot(idx_ot(r))))
                .opt_input(has_steps.then(|| T::i64s(vec![step])))
                .tag(String::new()).combo(format!("grid,step={step},dim={d}"))
        }
        "Pad" => {
            let mode = ["constant", "reflect", "edge", "wrap"][g.take(4)];
            let dim = g.take(4) as i64 + 1;
            let pb = g.take(6) as i64 - 2;
            let pe = g.take(6) as i64 - 2;
            if mode != "constant" && (pb < 0 || pe < 0) {
                return None;
            }
            if mode == "reflect" && (pb > dim - 1 || pe > dim - 1) {
                return None;
            }
            if pb < -dim || pe < -dim || dim + pb + pe < 0 {
                return None;
            }
            let dt = *r.pick(&[Dt::F32, Dt::F32, Dt::I32, Dt::I32, Dt::U8, Dt::I8]);
            let two_d = r.chance(1, 2);
            let shape: Vec<usize> = if two_d { vec![r.range(1, 3) as usize, dim as usize] } else { vec![dim as usize] };
            let pads = if two_d { vec![0, pb, 0, pe] } else { vec![pb, pe] };
            let cv = if mode == "constant" && r.chance(1, 2) { Some(T::scalar(dt, r.range(if dt == Dt::U8 { 0 } else { -5 }, 5))) } else { None };
            let mode_attr = if mode == "constant" && r.chance(1, 2) { None } else { Some(AV::Str(mode.into())) };
            c.input(tensor(r, &shape, dt, -9, 9)).input(T::i64s(pads)).opt_input(cv).opt_input(None).attr("mode", mode_attr)
                .tag(format!("{},mode={mode},axes=false,neg={},cv=grid", dt.name(), pb < 0 || pe < 0)).combo(format!("grid,mode={mode},neg={}", pb < 0 || pe < 0))
        }
        "Resize" => {
            let inn = g.take(8) + 1;
            let q = [1i64, 2, 4, 8, 16][g.take(5)];
            let use_sizes = g.take(2) == 0;
            let cm = ["half_pixel", "pytorch_half_pixel", "asymmetric", "align_corners"][g.take(4)];
            let nm = ["round_prefer_floor", "round_prefer_ceil", "floor", "ceil"][g.take(4)];
            let out = inn as i64 * q / 4;
            if out < 1 || (use_sizes && (inn as i64 * q) % 4 != 0) {
                return None;
            }
            let last = r.chance(1, 2);
            let xs: Vec<usize> = if last { vec![1, 1, 1, inn] } else { vec![1, 1, inn, 1] };
            let qs: Vec<i64> = if last { vec![4, 4, 4, q] } else { vec![4, 4, q, 4] };
            let (scales, sizes) = if use_sizes {
                (None, Some(T::i64s(xs.iter().zip(&qs).map(|(d, q)| *d as i64 * q / 4).collect())))
            } else {
                (Some(T::new(vec![4], Dt::F32, qs).den(4)), None)
            };
            let cm_attr = if cm == "half_pixel" && r.chance(1, 3) { None } else { Some(AV::Str(cm.into())) };
            let nm_attr = if nm == "round_prefer_floor" && r.chance(1, 3) { None } else { Some(AV::Str(nm.into())) };
            c.input(tensor(r, &xs, Dt::F32, -9, 9)).opt_input(None).opt_input(scales).opt_input(sizes)
                .attr("coordinate_transformation_mode", cm_attr).attr("nearest_mode", nm_attr).attr("mode", Some(AV::Str("nearest".into())))
                .tag(format!("coord={cm},nearest={nm}")).combo(format!("grid,coord={cm},nearest={nm},{},factor={q}/4", if use_sizes { "sizes" } else { "scales" }))
        }
        "Split" => {
            let dim = g.take(9);
            let n = g.take(4) + 1;
            let dt = any_dt(r);
            let (shape, ax): (Vec<usize>, usize) = if r.chance(1, 2) { (vec![dim], 0) } else { (vec![r.range(1, 2) as usize, dim], 1) };
            let axis = if ax == 0 && r.chance(1, 2) { None } else { Some(maybe_neg(r, ax as i64, shape.len())) };
            c.input(tensor(r, &shape, dt, -9, 9)).opt_input(None).int("axis", axis).int("num_outputs", Some(n as i64)).nout(n)
                .tag(format!("split=num_outputs,even={}", dim % n == 0)).combo(format!("grid,num_outputs={n},even={}", dim % n == 0))
        }
        "Trilu" => {
            let (h, w) = (g.take(3) + 1, g.take(3) + 1);
            let kk = g.take(8);
            let upper = g.take(2) as i64;
            let k = if kk == 7 { None } else { Some(T::scalar(Dt::I32, kk as i64 - 3).ot(onnx::INT64)) };
            let dt = num_dt(r);
            let shape: Vec<usize> = if r.chance(1, 3) { vec![r.range(1, 2) as usize, h, w] } else { vec![h, w] };
            let t = format!("k={},upper={upper}", k.is_some());
            c.input(tensor(r, &shape, dt, 1, 9)).opt_input(k).int("upper", Some(upper)).tag(t.clone()).combo(format!("grid,{t}"))
        }
        "Range" => {
            let start = g.take(5) as i64 - 2;
            let limit = start + g.take(11) as i64 - 5;
            let delta = [1i64, 2, 3, -1, -2, -3][g.take(6)];
            let dt = [Dt::F32, Dt::I32][g.take(2)];
            let ot = if dt == Dt::I32 && r.chance(1, 2) { onnx::INT64 } else { dt.onnx() };
            c.input(T::scalar(dt, start).ot(ot)).input(T::scalar(dt, limit).ot(ot)).input(T::scalar(dt, delta).ot(ot))
                .tag(format!("{},delta={}", dt.name(), if delta < 0 { "neg" } else { "pos" })).combo(format!("grid,{},delta={delta}", dt.name()))
        }
        "TopK" => {
            // (dim, k) with 0 <= k <= dim <= 4: 14 pairs
            let pair = g.take(14);
            let (mut dim, mut k, mut acc) = (1usize, 0usize, 0usize);
            'outer: for d in 1..=4usize {
                for kk in 0..=d {
                    if acc == pair {
                        dim = d;
                        k = kk;
                        break 'outer;
                    }
                    acc += 1;
                }
            }
            let largest = g.take(2) as i64;
            let variant = g.take(4);
            let dt = *r.pick(&[Dt::F32, Dt::I32]);
            let (shape, ax): (Vec<usize>, usize) = match variant {
                0 => (vec![dim], 0),
                1 => (vec![r.range(1, 3) as usize, dim], 1),
                2 => (vec![dim, r.range(1, 3) as usize], 0),
                _ => (vec![2, dim, 2], 1),
            };
            let axis = if ax + 1 == shape.len() && r.chance(1, 3) { None } else { Some(maybe_neg(r, ax as i64, shape.len())) };
            // few distinct values: ties are the rule
            c.input(tensor(r, &shape, dt, -1, 1)).input(T::i64s(vec![k as i64])).int("axis", axis).int("largest", Some(largest))
                .int("sorted", if r.chance(1, 2) { Some(1) } else { None }).nout(2)
                .tag(format!("{},largest={largest}", dt.name())).combo(format!("grid,largest={largest},k={k},dim={dim}"))
        }
        _ => return None,
    };
    c.vshape = r.chance(1, 3);
    finish_case(&mut c, r);
    Some(c)
}

fn fnv(s: &str) -> u64 {
    let mut h = 0xcbf29ce484222325u64;
    for b in s.bytes() {
        h ^= b as u64;
        h = h.wrapping_mul(0x100000001b3);
    }
    h
}

pub fn main() {
    // VH_LOUD=1 keeps the default panic hook (message + location on stderr) for debugging
    if std::env::var_os("VH_LOUD").is_none() {
        quiet_panics();
    }
    if std::env::args().any(|a| a == "--list-grids") {
        // operator:grid-size pairs (for load balancing in the engine)
        let v: Vec<String> = OPS.iter().filter(|o| grid_size(o) > 0).map(|o| format!("{o}:{}", grid_size(o))).collect();
        println!("{}", v.join(","));
        return;
    }
    if std::env::args().any(|a| a == "--list") {
        println!("{}", OPS.join(","));
        return;
    }
    let out = arg("--out").unwrap_or_else(|| {
        eprintln!("usage: vh-ops onnxref --out <trace> [--ops A,B] [--per N] [--only-case JSON] [--list]");
        std::process::exit(2)
    });
    let mut trace = Trace::create(&out);
    if let Some(cj) = arg("--only-case") {
        let j: J = serde_json::from_str(&cj).expect("bad --only-case json");
        let c = Case::from_json(&j);
        trace.emit(c.json(1));
        trace.flush();
        let mut ret = run_case(&c);
        ret["id"] = json!(1);
        trace.emit(ret);
        return;
    }
    let per = arg_usize("--per", 25);
    let ops: Vec<String> = match arg("--ops") {
        Some(s) if !s.is_empty() && s != "all" => s.split(',').map(|s| s.to_string()).collect(),
        _ => OPS.iter().map(|s| s.to_string()).collect(),
    };
    let seed = seed_from_env();
    // --first-id N: resume after the process died in case N-1 (cases are a function of (seed, op, j))
    let first_id = arg_usize("--first-id", 1);
    // --unique-tags: triage aid, every failing case gets its own signature (and is printed by TLC)
    let unique_tags = std::env::args().any(|a| a == "--unique-tags");
    let grid_n = arg_usize("--grid", 0);
    let mut id = 0usize;
    for op in &ops {
        for j in 0..per {
            // every case has its own generator state: independent of --ops / --per
            let mut r = Rng::new(seed ^ fnv(op).wrapping_add((j as u64).wrapping_mul(0x9E3779B97F4A7C15)));
            let mut c = gen_case(op, &mut r);
            id += 1;
            if id < first_id {
                continue;
            }
            if unique_tags {
                c.tag = format!("{}#{}", c.tag, id);
            }
            trace.emit(c.json(id));
            trace.flush();
            let mut ret = run_case(&c);
            ret["id"] = json!(id);
            trace.emit(ret);
        }
        // --grid N: the operator's attribute grid, completely if it has at most N points, else a seeded sample
        let size = grid_size(op);
        if grid_n > 0 && size > 0 {
            let mut order: Vec<usize> = (0..size).collect();
            if size > grid_n {
                Rng::new(seed ^ fnv(op) ^ 0x6772_6964).shuffle(&mut order);
                order.truncate(grid_n);
                order.sort();
            }
            for gi in order {
                let mut r = Rng::new(seed ^ fnv(op).wrapping_add(0x6772_6964_0000 + (gi as u64).wrapping_mul(0x9E3779B97F4A7C15)));
                let Some(mut c) = grid_case(op, gi, &mut r) else { continue };
                id += 1;
                if id < first_id {
                    continue;
                }
                if unique_tags {
                    c.tag = format!("{}#{}", c.tag, id);
                }
                trace.emit(c.json(id));
                trace.flush();
                let mut ret = run_case(&c);
                ret["id"] = json!(id);
                trace.emit(ret);
            }
        }
    }
    trace.flush();
}
