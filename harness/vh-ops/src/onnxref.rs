//! onnxref engine (see main.rs). Entry point: `vh-ops onnxref [options]`; sub-modes via further arguments.
pub fn main() {
    eprintln!("vh-ops onnxref: not implemented yet");
    std::process::exit(2);
}
