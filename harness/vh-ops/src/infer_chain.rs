// Chain driver for the infer engine (included by infer.rs).
//
// A seeded multi-operator model over shape-carrying integer tensors is built, loaded (optimisation
// off) and run once with every operator output requested.  The operators' inference rules are then
// applied in plan order the way `rten::infer_shapes` does it (constants -> scalar / vector values,
// earlier results simplified, declared input shapes -> positive symbols); every operator application
// is emitted as a case with the symbolic inputs it was given, the concrete inputs / outputs of the
// run and the assignment of the declared dimension names.  `drv` records whether the real graph
// driver `rten::verif::infer_shapes` reports the same shapes / constants for the operator's outputs.

use rten::verif::{InferShapeOptions, Shape as DrvShape, infer_shapes as drv_infer_shapes};

struct PoolVal {
    name: String,
    vals: Vec<i64>,
    scalar: bool,
}

struct ChainBuilder {
    g: OGraph,
    n: usize,
    pool: Vec<PoolVal>,
    outs: Vec<String>,
}

impl ChainBuilder {
    fn fresh(&mut self, p: &str) -> String {
        self.n += 1;
        format!("{p}{}", self.n)
    }
    fn konst(&mut self, t: &T) -> String {
        let name = self.fresh("c");
        self.g.initializers.push(t.to_onnx(&name));
        name
    }
    fn node(&mut self, op: &str, ins: &[&str], attrs: Vec<(&str, Attr)>) -> String {
        let out = self.fresh("v");
        let mut n = ONode::new(op, ins, &[&out]);
        for (k, a) in attrs {
            n = n.attr(k, a);
        }
        self.g.nodes.push(n);
        self.outs.push(out.clone());
        out
    }
    fn push(&mut self, name: String, vals: Vec<i64>, scalar: bool) {
        self.pool.push(PoolVal { name, vals, scalar });
    }
}

/// Build a chain; returns the graph, the graph inputs (name, tensor) and the assignment of dim names.
fn build_chain(r: &mut Rng) -> (OGraph, Vec<(String, T)>, BTreeMap<String, (i64, bool)>, Vec<String>) {
    let mut b = ChainBuilder { g: OGraph::default(), n: 0, pool: vec![], outs: vec![] };
    let mut env = BTreeMap::new();
    let mut inputs = vec![];
    let nin = r.range(1, 2);
    for i in 0..nin {
        let s = shape(r, 1, 4, 5);
        let name = format!("x{i}");
        let dims: Option<Vec<Dim>> = if r.chance(1, 10) {
            None
        } else {
            Some(
                s.iter()
                    .enumerate()
                    .map(|(a, d)| {
                        if r.chance(2, 3) {
                            // shared name for equal sizes half of the time
                            let nm = if r.chance(1, 2) { format!("s{d}") } else { format!("d{i}_{a}") };
                            env.insert(nm.clone(), (*d as i64, true));
                            Dim::Sym(nm)
                        } else {
                            Dim::Fixed(*d as i64)
                        }
                    })
                    .collect(),
            )
        };
        b.g.inputs.push(ValueInfo::new(&name, onnx::FLOAT, dims));
        let sh = b.node("Shape", &[&name], vec![]);
        b.push(sh, s.iter().map(|d| *d as i64).collect(), false);
        inputs.push((name, T::f32(&s, r)));
    }
    let steps = r.range(2, 7);
    for _ in 0..steps {
        let k = r.below(b.pool.len());
        let (name, vals, scalar) = (b.pool[k].name.clone(), b.pool[k].vals.clone(), b.pool[k].scalar);
        let n = vals.len();
        match r.below(12) {
            0 | 1 if !scalar && n > 0 => {
                // Gather one element (scalar) or several (vector)
                if r.chance(2, 3) {
                    let i = r.range(-(n as i64), n as i64 - 1);
                    let idx = b.konst(&T::i64_scalar(i));
                    let o = b.node("Gather", &[&name, &idx], vec![]);
                    b.push(o, vec![vals[(i.rem_euclid(n as i64)) as usize]], true);
                } else {
                    let m = r.range(1, 3) as usize;
                    let is: Vec<i64> = (0..m).map(|_| r.range(-(n as i64), n as i64 - 1)).collect();
                    let idx = b.konst(&T::i64s(&is));
                    let o = b.node("Gather", &[&name, &idx], vec![]);
                    b.push(o, is.iter().map(|i| vals[(i.rem_euclid(n as i64)) as usize]).collect(), false);
                }
            }
            2 if !scalar => {
                // Slice [s:e]
                let s = r.range(0, n as i64);
                let e = r.range(s, n as i64);
                let (cs, ce) = (b.konst(&T::i64s(&[s])), b.konst(&T::i64s(&[if r.chance(1, 4) && e == n as i64 { i32::MAX as i64 } else { e }])));
                let ca = b.konst(&T::i64s(&[0]));
                let o = b.node("Slice", &[&name, &cs, &ce, &ca], vec![]);
                b.push(o, vals[s as usize..e as usize].to_vec(), false);
            }
            3 => {
                if scalar {
                    let ca = b.konst(&T::i64s(&[0]));
                    let o = b.node("Unsqueeze", &[&name, &ca], vec![]);
                    b.push(o, vals, false);
                } else if n == 1 {
                    let ca = b.konst(&T::i64s(&[0]));
                    let o = b.node("Squeeze", &[&name, &ca], vec![]);
                    b.push(o, vals, true);
                }
            }
            4 if !scalar => {
                // Concat with another vector or a constant
                let other: Option<(String, Vec<i64>)> = {
                    let j = r.below(b.pool.len());
                    if !b.pool[j].scalar && r.chance(1, 2) {
                        Some((b.pool[j].name.clone(), b.pool[j].vals.clone()))
                    } else {
                        None
                    }
                };
                let (on, ov) = match other {
                    Some(x) => x,
                    None => {
                        let m = r.range(1, 2) as usize;
                        let v: Vec<i64> = (0..m).map(|_| r.range(-2, 5)).collect();
                        (b.konst(&T::i64s(&v)), v)
                    }
                };
                let o = if r.chance(1, 2) {
                    b.push_concat(&name, &on)
                } else {
                    b.push_concat(&on, &name)
                };
                let _ = (o, ov);
            }
            5 => {
                let o = b.node("Neg", &[&name], vec![]);
                b.push(o, vals.iter().map(|v| -v).collect(), scalar);
            }
            6..=8 => {
                // arithmetic with a constant scalar, a constant vector or another pool value of the same length
                let op = *r.pick(&["Add", "Sub", "Mul", "Div", "Mul", "Sub"]);
                let j = r.below(b.pool.len());
                let same = b.pool[j].vals.len() == n && b.pool[j].scalar == scalar && r.chance(1, 2);
                let (rhs_name, rhs): (String, Vec<i64>) = if same {
                    (b.pool[j].name.clone(), b.pool[j].vals.clone())
                } else {
                    let c = *r.pick(&[-1i64, 2, -2, 3, 1, 0, 5, -3]);
                    let t = if r.chance(1, 2) || scalar { T::i64_scalar(c) } else { T::i64s(&vec![c; n]) };
                    (b.konst(&t), vec![c; n.max(1)])
                };
                if op == "Div" && rhs.iter().any(|v| *v == 0) {
                    continue;
                }
                let swap = r.chance(1, 4) && op != "Div";
                let o = if swap { b.node(op, &[&rhs_name, &name], vec![]) } else { b.node(op, &[&name, &rhs_name], vec![]) };
                let f = |a: i64, c: i64| match op {
                    "Add" => a + c,
                    "Sub" => a - c,
                    "Mul" => a * c,
                    _ => a / c,
                };
                let res: Vec<i64> = vals.iter().zip(rhs.iter().cycle()).map(|(a, c)| if swap { f(*c, *a) } else { f(*a, *c) }).collect();
                b.push(o, res, scalar);
            }
            9 | 10 => {
                // Equal against a constant (often the actual value), then Where
                let c = if r.chance(1, 2) && n > 0 { vals[r.below(n)] } else { r.range(-3, 5) };
                let cn = b.konst(&T::i64_scalar(c));
                let cond = b.node("Equal", &[&name, &cn], vec![]);
                let alt = b.konst(&(if scalar { T::i64_scalar(r.range(-2, 7)) } else { T::i64s(&(0..n).map(|_| r.range(-2, 7)).collect::<Vec<_>>()) }));
                let o = if r.chance(1, 2) { b.node("Where", &[&cond, &alt, &name], vec![]) } else { b.node("Where", &[&cond, &name, &alt], vec![]) };
                // the concrete mirror is not needed for the alternative values: drop from the pool
                let _ = o;
            }
            _ => {
                let o = b.node("Cast", &[&name], vec![("to", Attr::Int(onnx::INT64 as i64))]);
                b.push(o, vals, scalar);
            }
        }
    }
    // consumers
    for _ in 0..r.range(1, 2) {
        let k = r.below(b.pool.len());
        let (name, vals, scalar) = (b.pool[k].name.clone(), b.pool[k].vals.clone(), b.pool[k].scalar);
        let nonneg = vals.iter().all(|v| *v >= 0);
        let prod: i64 = vals.iter().product();
        match r.below(5) {
            0 if !scalar && nonneg && prod <= 256 => {
                b.node("ConstantOfShape", &[&name], vec![]);
            }
            1 if !scalar && nonneg && prod <= 256 && vals.iter().all(|v| *v >= 1) => {
                let one = b.konst(&T::new(&[], "f32", vec![1]));
                b.node("Expand", &[&one, &name], vec![]);
            }
            2 if scalar => {
                let (z, one) = (b.konst(&T::i64_scalar(0)), b.konst(&T::i64_scalar(1)));
                if vals[0].abs() <= 64 {
                    b.node("Range", &[&z, &name, &one], vec![]);
                }
            }
            3 => {
                // Reshape x0 to [first dim, -1] built from the pool when possible, else flatten
                let x = &inputs[0];
                let total = numel(&x.1.shape) as i64;
                if !scalar && vals.len() == 1 && vals[0] > 0 && total % vals[0] == 0 {
                    let m1 = b.konst(&T::i64s(&[-1]));
                    let tgt = b.node("Concat", &[&name, &m1], vec![("axis", Attr::Int(0))]);
                    b.node("Reshape", &["x0", &tgt], vec![]);
                } else if !scalar && prod == total && nonneg && total > 0 {
                    b.node("Reshape", &["x0", &name], vec![]);
                }
            }
            _ if !scalar && vals.len() == inputs[0].1.shape.len() && vals.iter().all(|v| (0..=3).contains(v)) => {
                b.node("Tile", &["x0", &name], vec![]);
            }
            _ => {}
        }
    }
    for o in &b.outs {
        b.g.outputs.push(ValueInfo::new(o, 0, None));
    }
    let outs = b.outs.clone();
    (b.g, inputs, env, outs)
}

/// "fold" chains.  The inference rules that decide something from `SymExpr::range()` (Equal folding),
/// `is_positive()` / symbolic equality (Slice), `simplify()` (the driver, Reshape's remainder) or from a
/// folded constant (Where picking a branch, Range / Expand / ConstantOfShape / Reshape / Slice sizes) are
/// fed by scalar value expressions built from dims with TWO symbolic operands of which one may be negative:
///   t1 ::= d | -d | 0 - d | d - k | k - d          t2 ::= t1 | t1 * d' | t1 * t1' | t1 / d' | t1 + d'
/// optionally through ONNX Max / Min.  Dims are small (0..4, mostly 1 and 2) and symbolic, and Equal compares
/// with the value the expression really has (or a neighbour), so that a constant folded from a too narrow
/// range or a wrong simplification is contradicted by the run.
fn build_fold_chain(r: &mut Rng) -> (OGraph, Vec<(String, T)>, BTreeMap<String, (i64, bool)>, Vec<String>) {
    let mut b = ChainBuilder { g: OGraph::default(), n: 0, pool: vec![], outs: vec![] };
    let mut env = BTreeMap::new();
    let mut inputs = vec![];
    let mut atoms: Vec<(String, i64)> = vec![];
    let nin = r.range(1, 2);
    for i in 0..nin {
        let rank = r.range(2, 3) as usize;
        let s: Vec<usize> = (0..rank).map(|_| *r.pick(&[0usize, 1, 1, 1, 2, 2, 2, 3, 3, 4])).collect();
        let name = format!("x{i}");
        let dims: Vec<Dim> = s
            .iter()
            .enumerate()
            .map(|(a, d)| {
                if r.chance(9, 10) {
                    let nm = if r.chance(1, 3) { format!("s{d}") } else { format!("d{i}_{a}") };
                    env.insert(nm.clone(), (*d as i64, true));
                    Dim::Sym(nm)
                } else {
                    Dim::Fixed(*d as i64)
                }
            })
            .collect();
        b.g.inputs.push(ValueInfo::new(&name, onnx::FLOAT, Some(dims)));
        let sh = b.node("Shape", &[&name], vec![]);
        for (a, d) in s.iter().enumerate() {
            let idx = b.konst(&T::i64_scalar(if r.chance(1, 3) { a as i64 - rank as i64 } else { a as i64 }));
            let o = b.node("Gather", &[&sh, &idx], vec![]);
            atoms.push((o, *d as i64));
        }
        inputs.push((name, T::f32(&s, r)));
    }
    let total = numel(&inputs[0].1.shape) as i64;
    let rank0 = inputs[0].1.shape.len();

    // t1: a dim, negated or shifted
    let t1 = |b: &mut ChainBuilder, r: &mut Rng| -> (String, i64) {
        let (a, v) = atoms[r.below(atoms.len())].clone();
        let k = r.range(0, 3);
        match r.below(8) {
            0 => (a, v),
            1 | 2 => (b.node("Neg", &[&a], vec![]), -v),
            3 => {
                let z = b.konst(&T::i64_scalar(0));
                (b.node("Sub", &[&z, &a], vec![]), -v)
            }
            4 | 5 => {
                let c = b.konst(&T::i64_scalar(k));
                (b.node("Sub", &[&a, &c], vec![]), v - k)
            }
            _ => {
                let c = b.konst(&T::i64_scalar(k));
                (b.node("Sub", &[&c, &a], vec![]), k - v)
            }
        }
    };
    let mut terms: Vec<(String, i64)> = vec![];
    for _ in 0..r.range(2, 3) {
        let (x, xv) = t1(&mut b, r);
        let (d, dv) = atoms[r.below(atoms.len())].clone();
        let t = match r.below(10) {
            0 => (x, xv),
            1..=4 => {
                if r.chance(1, 2) { (b.node("Mul", &[&x, &d], vec![]), xv * dv) } else { (b.node("Mul", &[&d, &x], vec![]), xv * dv) }
            }
            5 | 6 => {
                let (y, yv) = t1(&mut b, r);
                (b.node("Mul", &[&x, &y], vec![]), xv * yv)
            }
            7 if dv != 0 => (b.node("Div", &[&x, &d], vec![]), xv / dv),
            _ => (b.node("Add", &[&x, &d], vec![]), xv + dv),
        };
        // occasionally through Max / Min (variadic operators: inference keeps the shape only)
        let t = if r.chance(1, 10) {
            let k = r.range(-1, 2);
            let c = b.konst(&T::i64_scalar(k));
            if r.chance(1, 2) { (b.node("Max", &[&t.0, &c], vec![]), t.1.max(k)) } else { (b.node("Min", &[&t.0, &c], vec![]), t.1.min(k)) }
        } else {
            t
        };
        terms.push(t);
    }

    let unsq = |b: &mut ChainBuilder, n: &str| -> String {
        let ax = b.konst(&T::i64s(&[0]));
        b.node("Unsqueeze", &[n, &ax], vec![])
    };
    // consumers of a scalar value (n, v)
    let consume = |b: &mut ChainBuilder, r: &mut Rng, n: &str, v: i64, other: &(String, i64)| match r.below(7) {
        0 | 1 if v.abs() <= 24 => {
            let (z, one) = (b.konst(&T::i64_scalar(0)), b.konst(&T::i64_scalar(1)));
            b.node("Range", &[&z, n, &one], vec![]);
        }
        2 if (other.1 - v).abs() <= 24 => {
            let one = b.konst(&T::i64_scalar(1));
            if r.chance(1, 2) { b.node("Range", &[n, &other.0, &one], vec![]) } else { b.node("Range", &[&other.0, n, &one], vec![]) };
        }
        3 if (0..=24).contains(&v) => {
            let vn = unsq(b, n);
            if r.chance(1, 2) {
                b.node("ConstantOfShape", &[&vn], vec![]);
            } else {
                let one = b.konst(&T::new(&[], "f32", vec![1]));
                b.node("Expand", &[&one, &vn], vec![]);
            }
        }
        4 if v > 0 && total > 0 && total % v == 0 => {
            let vn = unsq(b, n);
            let m1 = b.konst(&T::i64s(&[-1]));
            let tgt = if r.chance(1, 2) { b.node("Concat", &[&vn, &m1], vec![("axis", Attr::Int(0))]) } else { b.node("Concat", &[&m1, &vn], vec![("axis", Attr::Int(0))]) };
            b.node("Reshape", &["x0", &tgt], vec![]);
        }
        _ => {
            // Slice x0 along one axis with symbolic start / end
            let (sn, en) = if r.chance(1, 2) { (unsq(b, n), unsq(b, &other.0)) } else { (unsq(b, &other.0), unsq(b, n)) };
            let ax = b.konst(&T::i64s(&[r.below(rank0) as i64]));
            b.node("Slice", &["x0", &sn, &en, &ax], vec![]);
        }
    };

    let nt = terms.len();
    for i in 0..nt {
        let (n, v) = terms[i].clone();
        let other = terms[(i + 1) % nt].clone();
        // Equal against the value the expression really has, or a neighbour; then Where picks a branch
        let c = match r.below(10) {
            0..=5 => v,
            6 => 0,
            7 => -1,
            8 => v + 1,
            _ => 1,
        };
        let cn = b.konst(&T::i64_scalar(c));
        let cond = if r.chance(1, 2) { b.node("Equal", &[&n, &cn], vec![]) } else { b.node("Equal", &[&cn, &n], vec![]) };
        let (av, bv) = (r.range(0, 4), r.range(0, 4));
        let (an, bn) = (b.konst(&T::i64_scalar(av)), b.konst(&T::i64_scalar(bv)));
        let (tn, tv, fn_, fv) = if r.chance(1, 3) { (other.0.clone(), other.1, bn, bv) } else { (an, av, bn, bv) };
        let w = b.node("Where", &[&cond, &tn, &fn_], vec![]);
        let wv = if v == c { tv } else { fv };
        consume(&mut b, r, &w, wv, &other);
        if r.chance(1, 3) {
            let op = if r.chance(1, 2) { "Less" } else { "Greater" };
            b.node(op, &[&n, &cn], vec![]);
        }
        if r.chance(2, 3) {
            consume(&mut b, r, &n, v, &other);
        }
    }
    for o in &b.outs {
        b.g.outputs.push(ValueInfo::new(o, 0, None));
    }
    let outs = b.outs.clone();
    (b.g, inputs, env, outs)
}

impl ChainBuilder {
    fn push_concat(&mut self, a: &str, c: &str) -> String {
        let find = |s: &ChainBuilder, n: &str| s.pool.iter().find(|p| p.name == n).map(|p| p.vals.clone());
        let va = find(self, a);
        let vc = find(self, c);
        let o = self.node("Concat", &[a, c], vec![("axis", Attr::Int(0))]);
        if let (Some(x), Some(y)) = (va, vc) {
            self.push(o.clone(), [x, y].concat(), false);
        }
        o
    }
}

/// What `rten::infer_shapes`'s `sym_tensor_from_input` does.
fn sym_from_node(id: NodeId, node: &Node, values: &HashMap<NodeId, SymTensor>) -> SymTensor {
    fn f32_int(x: f32) -> Option<i32> {
        if x.is_finite() && x.fract() == 0.0 && x >= (i32::MIN as f32) && x < (i32::MAX as f32) { Some(x as i32) } else { None }
    }
    match node {
        Node::Constant(c) => {
            let iscalar: Option<i32> = c.as_scalar();
            let fscalar: Option<f32> = c.as_scalar();
            let scalar = iscalar.map(SymExpr::Value).or_else(|| fscalar.and_then(f32_int).map(SymExpr::Value));
            if let Some(s) = scalar
                && c.ndim() == 0
            {
                return SymTensor::from_scalar(s);
            }
            let ivec: Option<&[i32]> = c.as_vector();
            if let Some(v) = ivec {
                return SymTensor::from_vec(v.iter().copied().map(SymExpr::Value).collect());
            }
            let fvec: Option<&[f32]> = c.as_vector();
            if let Some(v) = fvec {
                if let Some(xs) = v.iter().map(|f| f32_int(*f).map(SymExpr::Value)).collect::<Option<Vec<_>>>() {
                    return SymTensor::from_vec(xs);
                }
            }
            SymTensor::from_fixed_shape(c.shape())
        }
        Node::Value(val) => {
            if let Some(t) = values.get(&id) {
                t.clone()
            } else if let Some(shape) = val.shape() {
                SymTensor::from_shape(
                    shape
                        .iter()
                        .map(|d| match d {
                            Dimension::Symbolic(name) => SymExpr::Var(Arc::new(Symbol { name: name.clone(), positive: true, synthetic: false })),
                            Dimension::Fixed(size) => SymExpr::Value(*size as i32),
                        })
                        .collect(),
                )
            } else {
                SymTensor::unknown("unknown value shape")
            }
        }
        Node::Operator(_) => unreachable!(),
    }
}

fn drv_shape_of(t: &SymTensor) -> Option<Result<rten_shape_inference::Constant, Vec<Dimension>>> {
    if let Some(c) = t.to_constant() {
        Some(Ok(c))
    } else {
        t.shape().map(|dims| {
            Err(dims
                .map(|d| match d {
                    SymExpr::Value(v) if v >= 0 => Dimension::Fixed(v as usize),
                    d => Dimension::Symbolic(d.to_string()),
                })
                .collect())
        })
    }
}

fn run_chain(em: &mut Emit, r: &mut Rng, replay: Option<&J>, kind: &str) {
    let seed = match replay {
        Some(cj) => cj["replay"]["chain_seed"].as_str().and_then(|s| s.parse::<u64>().ok()).unwrap_or(0),
        None => r.next_u64(),
    };
    let kind = match replay {
        Some(cj) => cj["replay"]["chain_kind"].as_str().unwrap_or("chain").to_string(),
        None => kind.to_string(),
    };
    let mut cr = Rng(seed);
    let (g, inputs, env, _outs) = if kind == "fold" { build_fold_chain(&mut cr) } else { build_chain(&mut cr) };
    let env_json = J::Array(env.iter().map(|(s, (v, p))| json!({"s": s, "v": v, "pos": p})).collect());
    let Ok(model) = load(g.to_model()) else {
        return;
    };
    let graph = model.verif_graph();
    // one concrete run with every operator output requested
    let run = guarded(|| -> Result<HashMap<NodeId, Value>, String> {
        let mut ins = Vec::new();
        for (name, t) in &inputs {
            ins.push((model.node_id(name).map_err(|e| e.to_string())?, t.to_value().into()));
        }
        let out_ids: Vec<NodeId> = graph.output_ids().to_vec();
        let vals = model.run(ins, &out_ids, None).map_err(|e| e.to_string())?;
        Ok(out_ids.into_iter().zip(vals).collect())
    });
    let (run_state, rmsg, conc): (&str, String, HashMap<NodeId, Value>) = match run {
        Ok(Ok(m)) => ("ok", String::new(), m),
        Ok(Err(e)) => ("err", trunc(&e), HashMap::new()),
        Err(p) => ("panic", trunc(&p), HashMap::new()),
    };
    let input_vals: HashMap<NodeId, Value> = inputs.iter().filter_map(|(n, t)| model.node_id(n).ok().map(|id| (id, t.to_value()))).collect();
    let Ok(plan) = graph.execution_plan(graph.input_ids(), graph.output_ids(), Default::default()) else {
        return;
    };
    // the real graph driver, for the binding cross-check
    let drv = guarded(|| drv_infer_shapes(graph, InferShapeOptions::default())).ok().and_then(|r| r.ok());

    let mut values: HashMap<NodeId, SymTensor> = HashMap::new();
    let mut sym_gen = SymbolGen::new();
    for op_id in plan {
        let Some(Node::Operator(opn)) = graph.get_node(op_id) else { continue };
        let sym_ins: Vec<Option<SymTensor>> = opn
            .input_ids()
            .iter()
            .map(|id| id.and_then(|id| graph.get_node(id).map(|n| sym_from_node(id, n, &values))))
            .collect();
        let ins_json: Vec<J> = opn
            .input_ids()
            .iter()
            .zip(&sym_ins)
            .map(|(id, s)| {
                let Some(id) = id else { return in_json(None, false, None) };
                let (cj, init) = match graph.get_node(*id) {
                    Some(Node::Constant(c)) => (value_json(&c.as_view().to_owned()), true),
                    _ => match conc.get(id).or_else(|| input_vals.get(id)) {
                        Some(v) => (value_json(v), false),
                        None => (absent_json(), false),
                    },
                };
                let mut j = cj;
                let m = j.as_object_mut().unwrap();
                m.insert("init".into(), json!(init));
                let sj = sym_json(s.as_ref());
                // an input without a concrete value (failed run) cannot be matched: log it as unknown
                let present = m["p"].as_bool().unwrap();
                m.insert("k".into(), if present { sj["k"].clone() } else { json!("none") });
                m.insert("x".into(), if present { sj["x"].clone() } else { json!([]) });
                j
            })
            .collect();
        let opname = opn.operator().name().to_string();
        let id = em.case("chain", &opname, &kind, opn.name().unwrap_or(""), env_json.clone(), ins_json,
                         json!({"chain_seed": seed.to_string(), "chain_kind": kind}));
        em.flush();
        let (infer, imsg, so) = call_infer(opn, &sym_ins, &mut sym_gen);
        // as the driver does: cap the complexity, simplify, remember for the consumers
        let mut stored = vec![];
        for (oid, s) in opn.output_ids().iter().zip(so.iter()) {
            let Some(oid) = oid else { continue };
            let mut s = s.clone();
            s.replace_complex_expressions(10, &mut sym_gen);
            let s = s.simplify();
            values.insert(*oid, s.clone());
            stored.push((*oid, s));
        }
        let drv_state = match &drv {
            None => "na",
            Some(res) => {
                let same = stored.iter().all(|(oid, s)| {
                    let mine = drv_shape_of(s);
                    let theirs = res.shapes.get(oid);
                    match (mine, theirs) {
                        (None, None) => true,
                        (Some(Ok(c)), Some(DrvShape::Constant { index })) => res.constants.get(*index) == Some(&c),
                        (Some(Err(d)), Some(DrvShape::Shape(dims))) => &d == dims,
                        _ => false,
                    }
                });
                if same { "same" } else { "diff" }
            }
        };
        let outs: Vec<J> = opn.output_ids().iter().map(|oid| oid.and_then(|o| conc.get(&o)).map(value_json).unwrap_or_else(absent_json)).collect();
        // what is judged is what the consumers (and the driver's result) see: the simplified outputs
        let so_json: Vec<J> = opn
            .output_ids()
            .iter()
            .zip(so.iter())
            .map(|(oid, raw)| match oid.and_then(|o| values.get(&o)) {
                Some(s) => sym_json(Some(s)),
                None => sym_json(Some(raw)),
            })
            .collect();
        em.ret(json!({"ev": "ret", "id": id, "infer": infer, "imsg": imsg, "so": so_json,
                          "run": run_state, "rmsg": rmsg, "outs": outs, "drv": drv_state}));
    }
}
